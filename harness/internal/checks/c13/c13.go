// Package c13 monitors Math (ES5.1 15.8) and the global utility functions
// isNaN/isFinite, encodeURI/encodeURIComponent/decodeURI/decodeURIComponent
// (15.1.2.4-5, 15.1.3) and escape/unescape (B.2.1-2).
package c13

import (
	"encoding/json"
	"fmt"
	"math"
	"unicode/utf16"

	"github.com/robertkrimen/otto"

	"verif/internal/gen"
	"verif/internal/run"
)

// Arg is one typed argument (for ToNumber-coercion cases).
type Arg struct {
	// K: num | obj (valueOf returns V; the call is traced) | str (S, value per
	// the strNum table) | undef | null | bool (V is 0/1) | arr (S names the
	// literal: "[]", "[5]", "[1,2]")
	K string `json:"k"`
	V gen.F  `json:"v"`
	S string `json:"s,omitempty"`
}

// Input is one self-contained case.
type Input struct {
	// Op: m1 (all unary Math functions and relations at X), m2 (Fn = atan2|pow
	// on (X, Y)), mono (Fn on the ordered triple Pts), mm (Fn = max|min on
	// Args), co (unary Fn or isNaN/isFinite on one typed argument or none),
	// uri (Fn on the string with code units U), fixed (entry N of the fixed list).
	Op   string   `json:"op"`
	Fn   string   `json:"fn,omitempty"`
	X    gen.F    `json:"x"`
	Y    gen.F    `json:"y"`
	Pts  []gen.F  `json:"pts,omitempty"`
	Args []Arg    `json:"args,omitempty"`
	U    []uint16 `json:"u,omitempty"`
	Wrap bool     `json:"wrap,omitempty"`
	N    int      `json:"n,omitempty"`
}

func init() {
	run.Register(&run.Check{
		ID:   "C13",
		Rule: "cases are (function, argument tuple) over a 161-value boundary set of doubles (exhaustive for unary functions and for atan2/pow pairs), random bit patterns, typed arguments for ToNumber, and strings of UTF-16 code units (every single code unit in thorough, every 16th in quick, plus astral pairs, random strings over weighted alphabets and mutated percent-escapes); a case is non-trivial when it is distinct by (operation, function, exact arguments) and the function was actually evaluated",
		Assumptions: []string{
			"oracle: internal/refmath (15.8.2 special-case bullets transcribed cell by cell; abs/ceil/floor/round/max/min exact) and internal/refuri (15.1.3 Encode/Decode and B.2.1/B.2.2 over UTF-16 code units); both have their own unit tests",
			"where 15.8.2 says 'implementation-dependent approximation' no value is compared: only relations (range, sign, odd/even symmetry, inverse pairs, Pythagorean and quotient identities, monotonicity on ordered triples, agreement of pow with exp(y*log x), sqrt, x*x, 1/x) within tolerances stated in the code, and a fixed list of textbook values within 1 ulp of the correctly rounded result",
			"the ES2015 additions present in otto (acosh, cbrt, log2, trunc, ...) are not part of ES5.1 and are not checked",
			"result strings are read on the Go side (Value.ToString -> UTF-16): every otto built-in under test returns a Go string, so this is exactly what a script can observe; input strings are built inside otto with String.fromCharCode so that unpaired surrogates reach encodeURI/encodeURIComponent intact",
			"Math.random is only checked for 0 <= r < 1",
		},
		Floor: func(tier string) int {
			if tier == "thorough" {
				return 1000000
			}
			return 60000
		},
		Cases:  numCases,
		Exec:   func(c *run.Ctx, i int) { checkOne(c, caseAt(c, i)) },
		Replay: func(c *run.Ctx, raw json.RawMessage) { var in Input; mustUnmarshal(raw, &in); checkOne(c, in) },
	})
	registerMatchers()
}

func mustUnmarshal(raw json.RawMessage, v interface{}) {
	if err := json.Unmarshal(raw, v); err != nil {
		panic(err)
	}
}

// ------------------------------------------------------------ value sets

var (
	nan    = math.NaN()
	inf    = math.Inf(1)
	negInf = math.Inf(-1)
	negZ   = math.Copysign(0, -1)
)

// boundary is the set of doubles every function is evaluated on.
var boundary = func() []float64 {
	pos := []float64{
		5e-324, 1e-323, 2.2250738585072009e-308, 2.2250738585072014e-308, 1e-300, 1e-200, 1e-17, 1.1102230246251565e-16, 2.220446049250313e-16, 1e-8, 1e-5,
		0.1, 0.25, 0.49999999999999994, 0.5, 0.5000000000000001, 0.75, 0.9999999999999999, 1, 1.0000000000000002, 1.4999999999999998, 1.5, 1.5000000000000002,
		2, 2.5, 2.718281828459045, 3, 3.141592653589793, 3.5, 4, 5, 7, 8, 9, 10, 16, 100, 255, 256, 1000, 1024,
		0.7853981633974483, 1.5707963267948966, 1.5707963267948968, 2.356194490192345, 6.283185307179586, 1e6,
		709, 709.4361393031039, 709.436139303104, 709.5, 709.7, 709.782712893384, 709.7827128933841, 710, 710.4758600739439, 710.475860073944, 711, 744.4400719213812, 745, 745.1332191019411, 745.1332191019412, 746,
		2147483647, 2147483648, 4294967295, 4294967296, 4503599627370495.5, 4503599627370496, 4503599627370497, 9007199254740991, 9007199254740992, 9007199254740994,
		1e21, 1e22, 1e100, 1e154, 1.3407807929942597e154, 1e155, 1e300, 8.98846567431158e307, 1.7976931348623157e308,
	}
	for k := 0; k <= 10; k++ {
		pos = append(pos, float64(k)+0.5)
	}
	out := []float64{nan, inf, negInf, 0, negZ}
	seen := map[uint64]bool{}
	for _, v := range out {
		seen[math.Float64bits(v)] = true
	}
	for _, p := range pos {
		for _, v := range []float64{p, -p} {
			if !seen[math.Float64bits(v)] {
				seen[math.Float64bits(v)] = true
				out = append(out, v)
			}
		}
	}
	return out
}()

// strNum is ToNumber (9.3.1) of the strings used as arguments, written by hand.
var strNum = []struct {
	s string
	v float64
}{
	{"", 0}, {" ", 0}, {"12", 12}, {" 12 ", 12}, {"-3.5", -3.5}, {"0x1F", 31}, {"1e3", 1000}, {"Infinity", inf}, {"-Infinity", negInf}, {"+Infinity", inf},
	{"abc", nan}, {"12px", nan}, {"NaN", nan}, {"0", 0}, {"-0", negZ}, {".5", 0.5}, {"5.", 5}, {"1e", nan}, {"\n7\t", 7}, {"1 2", nan}, {"+", nan}, {"0.0000001", 1e-7},
}

var arrNum = map[string]float64{"[]": 0, "[5]": 5, "[1,2]": nan, "[[7]]": 7, "['-0']": negZ}

// toNumber is the oracle's ToNumber of a typed argument.
func toNumber(a Arg) float64 {
	switch a.K {
	case "num", "obj", "bool":
		return float64(a.V)
	case "str":
		for _, e := range strNum {
			if e.s == a.S {
				return e.v
			}
		}
		panic("string not in strNum: " + a.S)
	case "undef":
		return nan
	case "null":
		return 0
	case "arr":
		v, ok := arrNum[a.S]
		if !ok {
			panic("array literal not in arrNum: " + a.S)
		}
		return v
	}
	panic("unknown arg kind " + a.K)
}

func genDouble(r *gen.Rand) float64 {
	switch r.Intn(10) {
	case 0, 1, 2, 3:
		return boundary[r.Intn(len(boundary))]
	case 4:
		return r.Bits()
	case 5:
		return float64(r.Range(-1000, 1000))
	case 6:
		return (r.Float64()*2 - 1) * 10
	case 7:
		return float64(r.Range(-100, 100)) + 0.5
	case 8: // a neighbour of a boundary value
		b := boundary[r.Intn(len(boundary))]
		if r.Bool() {
			return math.Nextafter(b, inf)
		}
		return math.Nextafter(b, negInf)
	}
	return math.Ldexp(r.Float64()*2-1, r.Range(-60, 60))
}

func genArg(r *gen.Rand) Arg {
	switch r.Intn(12) {
	case 0, 1, 2, 3:
		return Arg{K: "num", V: gen.F(genDouble(r))}
	case 4, 5, 6:
		return Arg{K: "obj", V: gen.F(genDouble(r))}
	case 7, 8:
		return Arg{K: "str", S: strNum[r.Intn(len(strNum))].s}
	case 9:
		return Arg{K: []string{"undef", "null"}[r.Intn(2)]}
	case 10:
		return Arg{K: "bool", V: gen.F(r.Intn(2))}
	}
	keys := []string{"[]", "[5]", "[1,2]", "[[7]]", "['-0']"}
	return Arg{K: "arr", S: keys[r.Intn(len(keys))]}
}

// ------------------------------------------------------------ case list

var unaryFns = []string{"abs", "acos", "asin", "atan", "ceil", "cos", "exp", "floor", "log", "round", "sin", "sqrt", "tan"}

// The first indices enumerate finite tables; the rest is PRNG-driven.
func tableSizes(tier string) (fixedN, m1N, m2N, unitN int) {
	fixedN = len(fixedList)
	m1N = len(boundary)
	m2N = 2 * len(boundary) * len(boundary)
	unitN = 65536 / 16 * len(uriFns)
	if tier == "thorough" {
		unitN = 65536 * len(uriFns) * 3
	}
	return
}

func numCases(tier string, seed uint64) int {
	a, b, c, d := tableSizes(tier)
	if tier == "thorough" {
		return a + b + c + d + 40000000
	}
	return a + b + c + d + 220000
}

func caseAt(c *run.Ctx, i int) Input {
	fixedN, m1N, m2N, unitN := tableSizes(c.Tier)
	switch {
	case i < fixedN:
		return Input{Op: "fixed", N: i}
	case i < fixedN+m1N:
		return Input{Op: "m1", X: gen.F(boundary[i-fixedN])}
	case i < fixedN+m1N+m2N:
		k := i - fixedN - m1N
		n := len(boundary)
		fn := "atan2"
		if k >= n*n {
			fn, k = "pow", k-n*n
		}
		return Input{Op: "m2", Fn: fn, X: gen.F(boundary[k/n]), Y: gen.F(boundary[k%n])}
	case i < fixedN+m1N+m2N+unitN:
		k := i - fixedN - m1N - m2N
		fn := uriFns[k%len(uriFns)]
		u := k / len(uriFns)
		variant := -1
		if c.Tier == "thorough" {
			// every code unit, every function, all three input forms
			variant, u = u/65536, u%65536
		} else {
			// every 16th code unit, phase chosen by the seed; ASCII and the
			// surrogate edges are covered by the random classes as well
			u = u*16 + int(c.Seed%16)
		}
		return unitCase(fn, uint16(u), variant, c.Rng)
	}
	return generate(c.Rng)
}

func generate(r *gen.Rand) Input {
	switch r.Intn(20) {
	case 0, 1, 2:
		return Input{Op: "m1", X: gen.F(genDouble(r))}
	case 3, 4, 5:
		in := Input{Op: "m2", Fn: []string{"atan2", "pow"}[r.Intn(2)], X: gen.F(genDouble(r)), Y: gen.F(genDouble(r)), Wrap: r.Chance(1, 5)}
		if in.Fn == "pow" && r.Chance(1, 3) { // small integer powers, exactly representable results
			in.X, in.Y = gen.F(r.Range(-12, 12)), gen.F(r.Range(-4, 14))
		}
		if in.Fn == "pow" && r.Chance(1, 8) {
			in.X, in.Y = 2, gen.F(r.Range(-1080, 1030))
		}
		return in
	case 6:
		return genMono(r)
	case 7, 8:
		n := r.Range(0, 5)
		in := Input{Op: "mm", Fn: []string{"max", "min"}[r.Intn(2)]}
		for k := 0; k < n; k++ {
			a := genArg(r)
			if r.Chance(1, 4) { // zeros and NaN matter most here
				a = Arg{K: []string{"num", "obj"}[r.Intn(2)], V: gen.F([]float64{0, negZ, nan, inf, negInf, 1, -1}[r.Intn(7)])}
			}
			in.Args = append(in.Args, a)
		}
		return in
	case 9:
		fns := append([]string{"isNaN", "isFinite", "isNaN", "isFinite"}, unaryFns...)
		in := Input{Op: "co", Fn: fns[r.Intn(len(fns))]}
		if !r.Chance(1, 12) {
			in.Args = []Arg{genArg(r)}
			if r.Chance(1, 6) { // a second argument must be ignored
				in.Args = append(in.Args, genArg(r))
			}
		}
		return in
	}
	return genURI(r)
}

// ------------------------------------------------------------ driving otto

var vm *otto.Otto
var captured []otto.Value

const prelude = `var tr=[]; function W(i,v){return {valueOf:function(){tr.push(i);return v}}}`

func theVM() *otto.Otto {
	if vm == nil {
		vm = otto.New()
		vm.Set("cap", func(call otto.FunctionCall) otto.Value {
			captured = append(captured, call.ArgumentList...)
			return otto.UndefinedValue()
		})
		if _, err := vm.Run(prelude); err != nil {
			panic(err)
		}
	}
	return vm
}

// num extracts a number result; ok is false when the value is not a Number.
func num(v otto.Value) (float64, bool) {
	if !v.IsNumber() {
		return 0, false
	}
	f, err := v.ToFloat()
	return f, err == nil
}

// units reads a string result as UTF-16 code units.
func units(v otto.Value) ([]uint16, bool) {
	if !v.IsString() {
		return nil, false
	}
	s, err := v.ToString()
	if err != nil {
		return nil, false
	}
	return utf16.Encode([]rune(s)), true
}

func checkOne(c *run.Ctx, in Input) {
	theVM()
	captured = captured[:0]
	c.Announce(in)
	switch in.Op {
	case "fixed":
		checkFixed(c, in)
	case "m1":
		checkM1(c, in)
	case "m2":
		checkM2(c, in)
	case "mono":
		checkMono(c, in)
	case "mm":
		checkMM(c, in)
	case "co":
		checkCo(c, in)
	case "uri":
		checkURI(c, in)
	default:
		panic("unknown op " + in.Op)
	}
}

// runJS runs src; on a Go panic or a script error it reports and returns false.
func runJS(c *run.Ctx, in Input, site, src string, want int) bool {
	var err error
	pv, st := run.Guard(func() { _, err = vm.Run(src) })
	if pv != nil {
		c.Fail("panic", site, in, "no Go panic", fmt.Sprint(pv), st)
		vm = nil
		return false
	}
	if err != nil {
		c.Fail("mismatch", site, in, "script completes", "throw:"+err.Error(), src)
		return false
	}
	if want >= 0 && len(captured) != want {
		c.Fail("mismatch", site, in, fmt.Sprintf("%d captured values", want), fmt.Sprintf("%d", len(captured)), src)
		return false
	}
	return true
}
