package c08

func registerMatchers() {}
