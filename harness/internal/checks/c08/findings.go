package c08

import (
	"verif/internal/refarr"
	"verif/internal/run"
)

// Known findings are matched with deviation models: refarr can switch on a
// model of each recorded defect (refarr.Dev*). A failure is an instance of
// finding X iff the model WITH X's deviation reproduces everything otto
// produced up to and including the first event that disagrees with pure ES5.1,
// and the same model WITHOUT X does not. Nothing is matched by input region or
// by site alone.
var devOf = map[string]int{
	"c08.resultHoles":         refarr.DevResultHoles,
	"c08.reduceRightIndex":    refarr.DevReduceRightIndex,
	"c08.reduceNoElement":     refarr.DevReduceNoElement,
	"c08.lengthOneConversion": refarr.DevLengthOneConversion,
	"c08.spliceNoArgs":        refarr.DevSpliceNoArgs,
	"c08.looseIndex":          refarr.DevLooseIndex,
	"c08.undefinedThis":       refarr.DevUndefinedThis,
	"c08.reverseDeleteFirst":  refarr.DevReverseDeleteFirst,
	"c08.returnsThisValue":    refarr.DevReturnsThisValue,
	"c08.lastIndexOf":         refarr.DevLastIndexOf,
	"c08.callableFirst":       refarr.DevCallableFirst,
	"c08.joinSepFirst":        refarr.DevJoinSepFirst,
	"c08.lengthSameValue":     refarr.DevLengthSameValue,
}

// allDevs is the union of the deviation models of the findings that are still
// open: the model of a repaired defect must not explain anything any more (it
// did, until the thorough tier showed a stale model masking the accepted
// reading of splice(start)).
func allDevs() int {
	all := 0
	for name, d := range devOf {
		if run.MatcherOpen(name) {
			all |= d
		}
	}
	return all
}

// agrees reports whether the model under deviation set dev reproduces otto's
// events [0, upTo] (under the erratum variant the failure was reported with).
func agrees(fi *failIn, dev int) bool {
	m, st := runModel(&fi.Input, fi.variant, dev)
	if st != "" {
		return false
	}
	n := fi.upTo + 1
	if m.sortAt >= 0 && n > m.sortAt {
		return false // sort observations are relational; no deviation model
	}
	return len(m.events) >= n && len(fi.ottoEvents) >= n && firstDiff(m.events[:n], fi.ottoEvents[:n]) < 0
}

func devMatcher(flag int) run.Matcher {
	return func(f *run.Failure) bool {
		fi, ok := f.In.(*failIn)
		if !ok || f.Kind != "mismatch" || fi.ottoEvents == nil {
			return false
		}
		for _, set := range []int{flag, allDevs()} {
			if agrees(fi, set) && !agrees(fi, set&^flag) {
				return true
			}
		}
		return false
	}
}

// infeasibleDevs are deviation models of resource exhaustion: they never
// explain an output, they only mark cases that must not be run.
const infeasibleDevs = 0 // map over a huge length with an early exit is run since the fix of KF-C08-map-eager-alloc

func registerMatchers() {
	// A worker killed by the runtime (out of memory) while executing map over a
	// huge length: only reachable by replaying such an input explicitly, the
	// generator skips them (see checkOne).
	run.RegisterMatcher("c08.mapEagerAlloc", func(f *run.Failure) bool {
		fi, ok := f.In.(*failIn)
		if !ok || (f.Kind != "worker-died" && f.Kind != "panic") {
			return false
		}
		_, st := runModel(&fi.Input, 0, refarr.DevMapEagerAlloc)
		_, st0 := runModel(&fi.Input, 0, 0)
		return st == "budget" && st0 == ""
	})
	for name, flag := range devOf {
		run.RegisterMatcher(name, devMatcher(flag))
	}
}
