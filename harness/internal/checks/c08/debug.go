package c08

import (
	"encoding/json"
	"fmt"
	"strings"

	"verif/internal/gen"
)

// DebugCase renders case idx of a seed: input, script, model events and (if
// withOtto) otto's events. Development aid (devcmd case <seed> <idx>).
func DebugCase(seed uint64, idx int, withOtto bool, raw string) string {
	var in Input
	if raw != "" {
		mustUnmarshal(json.RawMessage(raw), &in)
	} else {
		in = generate(gen.New(seed, "C08", idx), idx)
	}
	var b strings.Builder
	j, _ := json.Marshal(in)
	fmt.Fprintf(&b, "INPUT %s\n", j)
	m, status := runModel(&in, 0, 0)
	fmt.Fprintf(&b, "MODEL status=%q touched=%d steps=%d sortAt=%d sortOK=%v %s\n", status, m.r.Touched, m.r.Steps, m.sortAt, m.sortOK, m.sortWhy)
	fmt.Fprintf(&b, "SCRIPT\n%s%s", setupJS(&in), func() string {
		var s strings.Builder
		for _, op := range in.Ops {
			s.WriteString(opJS(op, usesProto(&in), m.sortLen))
		}
		return s.String()
	}())
	if !withOtto || status != "" {
		for i, e := range m.events {
			fmt.Fprintf(&b, "M[%d] %s\n", i, e)
		}
		return b.String()
	}
	got, out, _ := runOtto(&in, m.sortLen)
	fmt.Fprintf(&b, "OTTO err=%v panic=%v\n", out.Err, out.Panic)
	n := len(got)
	if len(m.events) > n {
		n = len(m.events)
	}
	for i := 0; i < n; i++ {
		mark := "  "
		if at(m.events, i) != at(got, i) {
			mark = "!!"
		}
		fmt.Fprintf(&b, "%s[%d] M %s\n%s[%d] O %s\n", mark, i, at(m.events, i), mark, i, at(got, i))
	}
	return b.String()
}

// DebugBench times the first n cases of a seed and reports per-category
// totals and the slowest cases.
func DebugBench(seed uint64, n int) string {
	type rec struct {
		idx          int
		model, ottoT float64
		cat          string
	}
	var recs []rec
	tot := map[string][2]float64{}
	cnt := map[string]int{}
	for i := 0; i < n; i++ {
		in := generate(gen.New(seed, "C08", i), i)
		t0 := nowSec()
		m, st := runModel(&in, 0, 0)
		t1 := nowSec()
		if st == "" {
			runOtto(&in, m.sortLen)
		}
		t2 := nowSec()
		recs = append(recs, rec{i, t1 - t0, t2 - t1, in.Cat})
		x := tot[in.Cat]
		x[0] += t1 - t0
		x[1] += t2 - t1
		tot[in.Cat] = x
		cnt[in.Cat]++
	}
	var b strings.Builder
	for k, v := range tot {
		fmt.Fprintf(&b, "%-8s n=%d model=%.3fs otto=%.3fs  (%.2f ms/case)\n", k, cnt[k], v[0], v[1], 1000*(v[0]+v[1])/float64(cnt[k]))
	}
	for j := 0; j < 8; j++ {
		best := -1
		for i := range recs {
			if best < 0 || recs[i].model+recs[i].ottoT > recs[best].model+recs[best].ottoT {
				best = i
			}
		}
		fmt.Fprintf(&b, "slow: idx=%d cat=%s model=%.1fms otto=%.1fms\n", recs[best].idx, recs[best].cat, 1000*recs[best].model, 1000*recs[best].ottoT)
		recs[best].model, recs[best].ottoT = 0, 0
	}
	return b.String()
}
