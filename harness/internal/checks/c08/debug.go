package c08

import (
	"encoding/json"
	"fmt"
	"strings"

	"verif/internal/gen"
)

// DebugCase renders case idx of a seed: input, script, model events and (if
// withOtto) otto's events. Development aid (devcmd case <seed> <idx>).
func DebugCase(seed uint64, idx int, withOtto bool, raw string) string {
	var in Input
	if raw != "" {
		mustUnmarshal(json.RawMessage(raw), &in)
	} else {
		in = generate(gen.New(seed, "C08", idx), idx)
	}
	var b strings.Builder
	j, _ := json.Marshal(in)
	fmt.Fprintf(&b, "INPUT %s\n", j)
	m, status := runModel(&in, 0, 0)
	fmt.Fprintf(&b, "MODEL status=%q touched=%d steps=%d sortAt=%d sortOK=%v %s\n", status, m.r.Touched, m.r.Steps, m.sortAt, m.sortOK, m.sortWhy)
	fmt.Fprintf(&b, "SCRIPT\n%s%s", setupJS(&in), func() string {
		var s strings.Builder
		for _, op := range in.Ops {
			s.WriteString(opJS(op, usesProto(&in), m.sortLen))
		}
		return s.String()
	}())
	if !withOtto || status != "" {
		for i, e := range m.events {
			fmt.Fprintf(&b, "M[%d] %s\n", i, e)
		}
		return b.String()
	}
	got, out, _ := runOtto(&in, m.sortLen)
	fmt.Fprintf(&b, "OTTO err=%v panic=%v\n", out.Err, out.Panic)
	n := len(got)
	if len(m.events) > n {
		n = len(m.events)
	}
	for i := 0; i < n; i++ {
		mark := "  "
		if at(m.events, i) != at(got, i) {
			mark = "!!"
		}
		fmt.Fprintf(&b, "%s[%d] M %s\n%s[%d] O %s\n", mark, i, at(m.events, i), mark, i, at(got, i))
	}
	return b.String()
}
