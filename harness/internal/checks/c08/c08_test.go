package c08

import (
	"encoding/json"
	"reflect"
	"testing"

	"verif/internal/gen"
)

// Every generated input must survive the JSON round trip used by replay files
// and finding witnesses (including -0, NaN and infinities), and the generator
// must be a pure function of (seed, index).
func TestInputRoundTripAndDeterminism(t *testing.T) {
	for i := 0; i < 3000; i++ {
		in := generate(gen.New(7, "C08", i), i)
		again := generate(gen.New(7, "C08", i), i)
		if !reflect.DeepEqual(jsonOf(in), jsonOf(again)) {
			t.Fatalf("case %d not deterministic", i)
		}
		var back Input
		mustUnmarshal(json.RawMessage(jsonOf(in)), &back)
		m1, s1 := runModel(&in, 0, 0)
		m2, s2 := runModel(&back, 0, 0)
		if s1 != s2 || !reflect.DeepEqual(m1.events, m2.events) {
			t.Fatalf("case %d: model differs after JSON round trip\n%s", i, jsonOf(in))
		}
		if setupJS(&in) != setupJS(&back) {
			t.Fatalf("case %d: script differs after JSON round trip", i)
		}
	}
}

func jsonOf(in Input) string {
	b, err := json.Marshal(in)
	if err != nil {
		panic(err)
	}
	return string(b)
}

// The deviation models must be inert when switched off and must not change the
// verdict of inputs they do not concern: with Dev = 0 two runs agree, and the
// pure model never marks a case infeasible that the deviation models accept.
func TestDeviationModelsAreOptIn(t *testing.T) {
	n := 0
	for i := 0; i < 3000; i++ {
		in := generate(gen.New(11, "C08", i), i)
		m0, s0 := runModel(&in, 0, 0)
		every := 0 // all models, open or not (allDevs() needs the findings file the driver loads)
		for _, d := range devOf {
			every |= d
		}
		md, sd := runModel(&in, 0, every)
		if s0 != "" || sd != "" {
			continue
		}
		if !reflect.DeepEqual(m0.events, md.events) {
			n++
		}
	}
	if n == 0 || n > 1500 {
		t.Fatalf("deviation models changed %d of 3000 cases (expected some, not most)", n)
	}
}
