package c08

import (
	"fmt"
	"sort"
	"strings"

	"verif/internal/ox"
	"verif/internal/refarr"
)

const modelBudget = 1 << 12

// mrun executes an Input against the refarr model and produces the same event
// stream the JavaScript side produces on otto.
type mrun struct {
	r      *refarr.Realm
	tags   map[string]*refarr.Obj
	R      refarr.Value
	T      *refarr.Obj
	events []string
	evOp   []int // op index of every event (-1 = setup)
	curOp  int
	log    []string
	base   map[string]map[string]bool
	proto  bool

	// sort bookkeeping (the sort op is always the last one)
	sortAt   int // index into events where the sort observation starts; -1 none
	sortLen  int
	sortPre  []sortEl
	sortCmp  refarr.Value
	sortCB   *CB
	sortOK   bool   // spec preconditions for defined behaviour hold
	sortWhy  string // why not
	sortRest string
	// sortOnlyIncons: the only reason the behaviour is implementation-defined is
	// an inconsistent (but pure, terminating) comparator
	sortOnlyIncons bool
	sortLog        []string
}

type sortEl struct {
	present bool
	v       refarr.Value
}

func (m *mrun) out(kind, s string) {
	m.events = append(m.events, "log:"+strings.Join(m.log, "|"))
	m.log = m.log[:0]
	m.events = append(m.events, kind+":"+s)
	m.evOp = append(m.evOp, m.curOp, m.curOp)
}

func (m *mrun) logf(s string) { m.log = append(m.log, s) }

// ---------------------------------------------------------------- dumps

func (m *mrun) idOf(o *refarr.Obj) string { return o.Name }

func (m *mrun) dumpVal(v refarr.Value, depth int) string {
	switch v.K {
	case refarr.KUndef:
		return "u"
	case refarr.KNull:
		return "null"
	case refarr.KBool:
		if v.B {
			return "true"
		}
		return "false"
	case refarr.KNum:
		return ox.Num(v.N)
	case refarr.KStr:
		return ox.Str(v.S)
	}
	if id := m.idOf(v.O); id != "" && m.tags[id] == v.O {
		return id
	}
	if v.O.Call != nil {
		return "fn"
	}
	if depth > 3 {
		return "..."
	}
	return m.dumpObj(v.O, depth+1, "")
}

func (m *mrun) keep(filt, k string) bool {
	switch filt {
	case "":
		return true
	case "sort":
		idx, ok := refarr.ArrayIndex(k)
		return !(ok && int(idx) < m.sortLen)
	}
	return k == "length" || !m.base[filt][k]
}

func (m *mrun) dumpObj(o *refarr.Obj, depth int, filt string) string {
	var parts []string
	for _, k := range o.OwnKeys() {
		if !m.keep(filt, k) {
			continue
		}
		p := o.GetOwnProperty(k)
		e := "-"
		if p.E {
			e = "e"
		}
		if o.Class == "String" && k != "length" {
			e = "?"
		}
		c := "-"
		if p.C {
			c = "c"
		}
		var s string
		if p.Accessor {
			g, st := "-", "-"
			if p.Get != nil {
				g = "g"
			}
			if p.Set != nil {
				st = "s"
			}
			s = "A" + g + st + e + c
		} else {
			w := "-"
			if p.W {
				w = "w"
			}
			s = w + e + c + " " + m.dumpVal(p.Value, depth)
		}
		parts = append(parts, ox.Str(k)+":"+s)
	}
	sort.Strings(parts)
	x := ""
	if !o.Ext {
		x = "!x"
	}
	return "[object " + o.Class + "]" + x + "{" + strings.Join(parts, ",") + "}"
}

func (m *mrun) thisLabel(t refarr.Value) string {
	switch t.K {
	case refarr.KUndef, refarr.KNull:
		return "G" // non-strict callee: this = global object (10.4.3)
	case refarr.KObj:
		if id := m.idOf(t.O); id != "" && m.tags[id] == t.O {
			return id
		}
		if t.O.Call != nil {
			return "function:[object Function]"
		}
		return "object:[object " + t.O.Class + "]"
	case refarr.KBool:
		return "object:[object Boolean]"
	case refarr.KNum:
		return "object:[object Number]"
	}
	return "object:[object String]"
}

func typeOf(v refarr.Value) string {
	switch v.K {
	case refarr.KUndef:
		return "undefined"
	case refarr.KNull:
		return "object"
	case refarr.KBool:
		return "boolean"
	case refarr.KNum:
		return "number"
	case refarr.KStr:
		return "string"
	}
	if v.O.Call != nil {
		return "function"
	}
	return "object"
}

// ---------------------------------------------------------------- values

func (m *mrun) val(v V) refarr.Value {
	switch v.K {
	case "u":
		return refarr.Undefined
	case "null":
		return refarr.Null
	case "b":
		return refarr.Bool(v.B)
	case "n":
		return refarr.Num(float64(v.N))
	case "s":
		return refarr.Str(v.S)
	case "o", "vo", "ts", "tl", "vom":
		return refarr.ObjV(m.tags[v.Tag])
	case "arr":
		return refarr.ObjV(m.arrOf(v.E))
	case "alike":
		o := m.r.NewObject("Object", m.r.ObjectProto)
		for i, e := range v.E {
			if e.K != "hole" {
				m.r.DefineOwnProperty(o, fmt.Sprint(i), refarr.DataDesc(m.val(e), true, true, true), true)
			}
		}
		m.r.DefineOwnProperty(o, "length", refarr.DataDesc(refarr.Num(float64(len(v.E))), true, true, true), true)
		return refarr.ObjV(o)
	case "R":
		return m.R
	case "T":
		return refarr.ObjV(m.T)
	case "fn":
		return refarr.ObjV(m.r.NewFunction("", func(*refarr.Realm, refarr.Value, []refarr.Value) refarr.Value { return refarr.Undefined }))
	}
	panic("model val: unknown kind " + v.K)
}

func (m *mrun) arrOf(es []V) *refarr.Obj {
	vals := make([]refarr.Value, len(es))
	holes := make([]bool, len(es))
	for i, e := range es {
		if e.K == "hole" {
			holes[i] = true
		} else {
			vals[i] = m.val(e)
		}
	}
	return m.r.NewArrayOf(vals, holes)
}

func (m *mrun) declare(in *Input) {
	walkInput(in, func(v *V) {
		if !isTagged(v.K) || m.tags[v.Tag] != nil {
			return
		}
		o := m.r.NewObject("Object", m.r.ObjectProto)
		o.Name = v.Tag
		m.tags[v.Tag] = o
		tag := v.Tag
		mk := func(prop, pfx string) {
			ret := m.val(*v.Ret)
			f := m.r.NewFunction("", func(*refarr.Realm, refarr.Value, []refarr.Value) refarr.Value {
				m.logf(pfx + ":" + tag)
				return ret
			})
			m.r.DefineOwnProperty(o, prop, refarr.DataDesc(refarr.ObjV(f), true, true, true), true)
		}
		switch v.K {
		case "vo":
			mk("valueOf", "vo")
		case "vom":
			// valueOf that changes the receiver (pushes 99) before it answers
			ret := m.val(*v.Ret)
			f := m.r.NewFunction("", func(*refarr.Realm, refarr.Value, []refarr.Value) refarr.Value {
				m.logf("vom:" + tag)
				m.r.ArrayPush(m.R, []refarr.Value{refarr.Num(99)})
				return ret
			})
			m.r.DefineOwnProperty(o, "valueOf", refarr.DataDesc(refarr.ObjV(f), true, true, true), true)
		case "ts":
			mk("toString", "ts")
		case "tl":
			mk("toLocaleString", "tl")
		}
	})
}

func (m *mrun) buildRecv(rc Recv) {
	put := func(o *refarr.Obj, kvs []KV) {
		for _, kv := range kvs {
			m.r.Put(o, kv.Name, m.val(kv.Val), false)
		}
	}
	switch rc.Kind {
	case "array":
		a := m.arrOf(rc.E)
		m.R = refarr.ObjV(a)
		put(a, rc.Extra)
	case "alike":
		o := m.r.NewObject("Object", m.r.ObjectProto)
		for i, e := range rc.E {
			if e.K != "hole" {
				m.r.DefineOwnProperty(o, fmt.Sprint(i), refarr.DataDesc(m.val(e), true, true, true), true)
			}
		}
		if rc.Len != nil {
			m.r.DefineOwnProperty(o, "length", refarr.DataDesc(m.val(*rc.Len), true, true, true), true)
		}
		for _, kv := range rc.Extra {
			m.r.DefineOwnProperty(o, kv.Name, refarr.DataDesc(m.val(kv.Val), true, true, true), true)
		}
		m.R = refarr.ObjV(o)
	case "string":
		o := m.r.NewStringObject(rc.S)
		m.R = refarr.ObjV(o)
		put(o, rc.Extra)
	case "args":
		vals := make([]refarr.Value, len(rc.E))
		for i, e := range rc.E {
			vals[i] = m.val(e)
		}
		o := m.r.NewArguments(vals, m.r.NewFunction("", func(*refarr.Realm, refarr.Value, []refarr.Value) refarr.Value { return refarr.Undefined }))
		m.R = refarr.ObjV(o)
		put(o, rc.Extra)
	case "prim":
		m.R = m.val(*rc.P)
	default:
		panic("buildRecv kind " + rc.Kind)
	}
	if m.R.K == refarr.KObj {
		m.R.O.Name = "R"
		m.tags["R"] = m.R.O
		m.out("R", m.dumpObj(m.R.O, 0, ""))
	}
}

// ---------------------------------------------------------------- callbacks

func (m *mrun) doMut(mu *Mut, n int, o refarr.Value) {
	if mu == nil || n != mu.At || o.K != refarr.KObj {
		return
	}
	switch mu.Op {
	case "push":
		m.r.ArrayPush(o, []refarr.Value{m.val(*mu.Val)})
	case "pop":
		m.r.ArrayPop(o, nil)
	case "del":
		m.r.Delete(o.O, fmt.Sprint(mu.Idx), false)
	case "setlen":
		m.r.Put(o.O, "length", refarr.Num(float64(mu.Idx)), false)
	case "set":
		m.r.Put(o.O, fmt.Sprint(mu.Idx), m.val(*mu.Val), false)
	default:
		panic("doMut " + mu.Op)
	}
}

func boom() { panic(&refarr.Throw{Val: refarr.Str("boom")}) }

// lessJS is the JavaScript < on two numbers or two strings (11.8.5), the only
// operand kinds comparator sorts are generated with.
func lessJS(x, y refarr.Value) bool {
	if x.K == refarr.KStr && y.K == refarr.KStr {
		return x.S < y.S
	}
	if x.K == refarr.KNum && y.K == refarr.KNum {
		return x.N < y.N
	}
	panic(refarr.Unsupported{Why: "comparator on mixed operand kinds"})
}

// cbModel is the Go twin of cbJS.
func (m *mrun) cbModel(cb *CB, logging bool) refarr.Value {
	if cb.Kind == "val" {
		return m.val(*cb.NonFn)
	}
	c := 0
	arg := func(a []refarr.Value, i int) refarr.Value {
		if i < len(a) {
			return a[i]
		}
		return refarr.Undefined
	}
	var f refarr.Func
	switch cb.Kind {
	case "fn":
		f = func(_ *refarr.Realm, this refarr.Value, a []refarr.Value) refarr.Value {
			n := c
			c++
			v, i, o := arg(a, 0), arg(a, 1), arg(a, 2)
			m.logf("cb:" + m.dumpVal(v, 0) + "," + typeOf(i) + "," + m.dumpVal(i, 0) + "," + m.thisLabel(o) + "," + m.thisLabel(this))
			m.doMut(cb.Mut, n, o)
			if n == cb.ThrowAt {
				boom()
			}
			switch cb.Ret {
			case "u":
				return refarr.Undefined
			case "v":
				return v
			case "gt1":
				return refarr.Bool(v.K == refarr.KNum && v.N > 1)
			case "par":
				return refarr.Bool(int(m.r.ToNumber(i))%2 == 0)
			case "true":
				return refarr.Bool(true)
			case "false":
				return refarr.Bool(false)
			case "cnt":
				return refarr.Num(float64(n))
			case "i":
				return i
			}
			panic("cbModel fn ret " + cb.Ret)
		}
	case "red":
		f = func(_ *refarr.Realm, this refarr.Value, a []refarr.Value) refarr.Value {
			n := c
			c++
			acc, v, i, o := arg(a, 0), arg(a, 1), arg(a, 2), arg(a, 3)
			m.logf("cb:" + m.dumpVal(acc, 0) + "," + m.dumpVal(v, 0) + "," + typeOf(i) + "," + m.dumpVal(i, 0) + "," + m.thisLabel(o) + "," + m.thisLabel(this))
			m.doMut(cb.Mut, n, o)
			if n == cb.ThrowAt {
				boom()
			}
			switch cb.Ret {
			case "a":
				return acc
			case "v":
				return v
			case "i":
				return i
			case "cnt":
				return refarr.Num(float64(n))
			}
			panic("cbModel red ret " + cb.Ret)
		}
	case "cmp":
		f = func(_ *refarr.Realm, this refarr.Value, a []refarr.Value) refarr.Value {
			n := c
			c++
			x, y := arg(a, 0), arg(a, 1)
			if logging {
				m.logf("cmp:" + m.dumpVal(x, 0) + "," + m.dumpVal(y, 0) + "," + m.thisLabel(this))
			}
			if n == cb.ThrowAt {
				boom()
			}
			sgn := func(neg, pos bool) float64 {
				if neg {
					return -1
				}
				if pos {
					return 1
				}
				return 0
			}
			switch cb.Ret {
			case "asc":
				return refarr.Num(sgn(lessJS(x, y), lessJS(y, x)))
			case "desc":
				return refarr.Num(sgn(lessJS(y, x), lessJS(x, y)))
			case "zero":
				return refarr.Num(0)
			case "incons":
				return refarr.Num(float64(n%3 - 1))
			case "strasc":
				return refarr.Str(map[float64]string{-1: "-1", 0: "0", 1: "1"}[sgn(lessJS(x, y), lessJS(y, x))])
			}
			panic("cbModel cmp ret " + cb.Ret)
		}
	default:
		panic("cbModel kind " + cb.Kind)
	}
	return refarr.ObjV(m.r.NewFunction("", f))
}

// ---------------------------------------------------------------- ops

func (m *mrun) target(on string) *refarr.Obj {
	switch on {
	case "AP":
		return m.r.ArrayProto
	case "OP":
		return m.r.ObjectProto
	}
	if m.R.K != refarr.KObj {
		return nil
	}
	return m.R.O
}

func (m *mrun) desc(name string, d *DescSpec) refarr.Desc {
	var out refarr.Desc
	if d.Value != nil {
		out.HasValue, out.Value = true, m.val(*d.Value)
	}
	if d.Get != nil {
		ret := m.val(*d.Get)
		out.HasGet = true
		out.Get = m.r.NewFunction("", func(*refarr.Realm, refarr.Value, []refarr.Value) refarr.Value {
			m.logf("get:" + name)
			if d.GetDel != nil && m.R.K == refarr.KObj {
				m.r.Delete(m.R.O, fmt.Sprint(*d.GetDel), false)
			}
			return ret
		})
	}
	if d.Set {
		out.HasSet = true
		out.Set = m.r.NewFunction("", func(_ *refarr.Realm, _ refarr.Value, a []refarr.Value) refarr.Value {
			v := refarr.Undefined
			if len(a) > 0 {
				v = a[0]
			}
			m.logf("set:" + name + "=" + m.dumpVal(v, 0))
			return refarr.Undefined
		})
	}
	if d.W != nil {
		out.HasW, out.W = true, *d.W
	}
	if d.E != nil {
		out.HasE, out.E = true, *d.E
	}
	if d.C != nil {
		out.HasC, out.C = true, *d.C
	}
	return out
}

// guard runs f and converts an ES exception into a throw event.
func (m *mrun) guard(f func()) {
	defer func() {
		if e := recover(); e != nil {
			t, ok := e.(*refarr.Throw)
			if !ok {
				panic(e)
			}
			if t.Class != "" {
				m.out("throw", "E:"+t.Class)
			} else {
				m.out("throw", "V:"+m.dumpVal(t.Val, 0))
			}
		}
	}()
	f()
}

func (m *mrun) primitiveTargetWrite(op Op) bool {
	// R[name]=v / delete R[name] / defineProperty on a primitive receiver
	return op.on() == "R" && m.R.K != refarr.KObj
}

func (m *mrun) doOp(op Op) {
	r := m.r
	switch op.Op {
	case "call":
		var args []refarr.Value
		if op.M == "sort" {
			m.prepareSort(op)
			return
		}
		m.guard(func() {
			if op.CB != nil {
				args = append(args, m.cbModel(op.CB, true))
			}
			for _, a := range op.Args {
				args = append(args, m.val(a))
			}
			f := r.Methods()[op.M]
			if f == nil {
				panic("unknown method " + op.M)
			}
			ret := f(m.R, args)
			m.out("ret", m.dumpVal(ret, 0))
		})
	case "set":
		m.guard(func() {
			v := m.val(*op.Val)
			// 11.13.1 / 8.7.2 PutValue in non-strict code: [[Put]](name, v, false)
			r.Put(m.target(op.on()), op.Name, v, false)
			m.out("ret", "ok")
		})
	case "define":
		m.guard(func() {
			r.DefineOwnProperty(m.target(op.on()), op.Name, m.desc(op.Name, op.D), true)
			m.out("ret", "ok")
		})
	case "delete":
		m.guard(func() {
			ok := r.Delete(m.target(op.on()), op.Name, false)
			m.out("ret", m.dumpVal(refarr.Bool(ok), 0))
		})
	case "freeze":
		m.guard(func() { r.Freeze(m.target(op.on())); m.out("ret", "ok") })
	case "seal":
		m.guard(func() { r.Seal(m.target(op.on())); m.out("ret", "ok") })
	case "pe":
		m.guard(func() { r.PreventExtensions(m.target(op.on())); m.out("ret", "ok") })
	case "ctor":
		m.guard(func() {
			var args []refarr.Value
			for _, a := range op.Args {
				args = append(args, m.val(a))
			}
			m.out("ret", m.dumpVal(refarr.ObjV(r.ArrayConstruct(args)), 0))
		})
	case "isArray":
		m.guard(func() {
			v := refarr.Undefined
			if len(op.Args) > 0 {
				v = m.val(op.Args[0])
			}
			m.out("ret", m.dumpVal(refarr.Bool(refarr.IsArray(v)), 0))
		})
	default:
		panic("doOp: " + op.Op)
	}
	if m.R.K == refarr.KObj {
		m.out("R", m.dumpObj(m.R.O, 0, ""))
	}
	if m.proto {
		m.out("AP", m.dumpObj(r.ArrayProto, 0, "AP"))
		m.out("OP", m.dumpObj(r.ObjectProto, 0, "OP"))
	}
}

// prepareSort records what the relational sort oracle needs: the element
// range, the elements before the call, and whether 15.4.4.11 defines the
// behaviour for this receiver at all.
func (m *mrun) prepareSort(op Op) {
	r := m.r
	if m.R.K == refarr.KUndef && r.Dev&refarr.DevUndefinedThis != 0 {
		m.out("ret", "G") // the global object has no length: nothing to sort
		return
	}
	if m.R.K == refarr.KUndef || m.R.K == refarr.KNull {
		m.guard(func() { r.ToObject(m.R) }) // 15.4.4.11 step 1: TypeError, fully defined
		return
	}
	if m.R.K == refarr.KNum || m.R.K == refarr.KBool {
		// ToObject gives a wrapper without length: nothing to sort, fully defined;
		// step "return obj" yields the wrapper object
		m.guard(func() {
			O := r.ToObject(m.R)
			if r.Get(O, "length").K != refarr.KUndef {
				panic(refarr.Unsupported{Why: "wrapper prototype with length"})
			}
			ret := refarr.ObjV(O)
			if r.Dev&refarr.DevReturnsThisValue != 0 {
				ret = m.R
			}
			m.out("ret", m.dumpVal(ret, 0))
		})
		return
	}
	m.sortAt = len(m.events)
	m.sortOK = true
	m.sortOnlyIncons = false
	bad := func(why string) {
		if m.sortOK {
			m.sortOK, m.sortWhy = false, why
			m.sortOnlyIncons = why == "inconsistent comparator"
		} else if why != "inconsistent comparator" {
			m.sortOnlyIncons = false
		}
	}
	m.guard(func() {
		O := r.ToObject(m.R)
		n := int(r.ToUint32(r.Get(O, "length")))
		if n > 64 {
			panic(refarr.Budget{})
		}
		m.sortLen = n
		if op.CB != nil {
			m.sortCB = op.CB
			m.sortCmp = m.cbModel(op.CB, false)
			if op.CB.Kind == "val" {
				if m.sortCmp.K != refarr.KUndef {
					bad("comparefn is neither undefined nor a function")
				}
			} else if op.CB.ThrowAt >= 0 {
				bad("throwing comparator")
			} else if op.CB.Ret == "incons" {
				bad("inconsistent comparator")
			}
		} else if len(op.Args) > 0 {
			m.sortCmp = m.val(op.Args[0])
			if m.sortCmp.K != refarr.KUndef {
				bad("comparefn is neither undefined nor a function")
			}
		}
		if m.R.K != refarr.KObj {
			bad("primitive receiver")
			return
		}
		sparse := false
		for i := 0; i < n; i++ {
			r.Steps++
			p := O.GetOwnProperty(fmt.Sprint(i))
			el := sortEl{}
			if p == nil {
				sparse = true
				if O.Proto != nil && O.Proto.GetProperty(fmt.Sprint(i)) != nil {
					bad("hole shadowing an inherited index")
				}
			} else {
				if p.Accessor || !p.W {
					bad("accessor or non-writable element")
					m.sortPre = append(m.sortPre, el)
					continue
				}
				el.present, el.v = true, p.Value
			}
			m.sortPre = append(m.sortPre, el)
		}
		if sparse {
			if !O.Ext {
				bad("sparse and not extensible")
			}
			for i := 0; i < n; i++ {
				if p := O.GetOwnProperty(fmt.Sprint(i)); p != nil && !p.C {
					bad("sparse with non-configurable element")
				}
			}
		}
		if lp := O.GetOwnProperty("length"); lp != nil && lp.Accessor {
			bad("accessor length")
		}
	})
	if m.R.K == refarr.KObj {
		// what must be unchanged by sort: every non-element property
		m.sortRest = "rest:" + m.dumpObj(m.R.O, 0, "sort")
		m.sortLog = append([]string(nil), m.log...)
		m.log = m.log[:0]
	}
}

// runModel executes the whole input. status is "" when the model produced a
// verdict for every op, otherwise the reason the case must be skipped.
func runModel(in *Input, variant, dev int) (m *mrun, status string) {
	m = &mrun{r: refarr.NewRealm(modelBudget), tags: map[string]*refarr.Obj{}, sortAt: -1, base: map[string]map[string]bool{}}
	m.r.Variant = variant
	m.r.Dev = dev
	m.proto = usesProto(in)
	for name, o := range map[string]*refarr.Obj{"AP": m.r.ArrayProto, "OP": m.r.ObjectProto} {
		b := map[string]bool{}
		for _, k := range o.OwnKeys() {
			b[k] = true
		}
		m.base[name] = b
	}
	defer func() {
		if e := recover(); e != nil {
			switch x := e.(type) {
			case refarr.Unsupported:
				status = "unsupported: " + x.Why
			case refarr.Budget:
				status = "budget"
			default:
				panic(e)
			}
		}
	}()
	m.curOp = -1
	m.T = m.r.NewObject("Object", m.r.ObjectProto)
	m.T.Name = "T"
	m.tags["T"] = m.T
	m.tags["G"] = m.r.Global
	m.declare(in)
	m.buildRecv(in.Recv)
	for i, op := range in.Ops {
		m.curOp = i
		if !validOp(in, op) {
			return m, "invalid op for receiver"
		}
		m.doOp(op)
		if m.sortAt >= 0 {
			break
		}
	}
	return m, ""
}

// validOp rejects (at replay time too) op/receiver combinations the workload
// never generates because the JavaScript statement itself would throw before
// reaching the code under test (e.g. defineProperty on a primitive).
func validOp(in *Input, op Op) bool {
	if in.Recv.Kind == "prim" && op.on() == "R" {
		switch op.Op {
		case "call", "ctor", "isArray":
			return true
		}
		return false
	}
	return true
}
