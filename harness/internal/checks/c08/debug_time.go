package c08

import "time"

// nowSec is used by the development benchmark only (never by an oracle).
func nowSec() float64 { return float64(time.Now().UnixNano()) / 1e9 }
