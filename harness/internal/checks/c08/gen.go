package c08

import (
	"fmt"
	"math"
	"strings"

	"verif/internal/gen"
)

var negZero = math.Copysign(0, -1)

const (
	two31 = 2147483648.0
	two32 = 4294967296.0
)

// ------------------------------------------------------------ values

var elemNums = []float64{0, 1, 2, 3, -1, 10, 9, 1.5, 5, 7}

func genElem(r *gen.Rand) V {
	switch r.Weighted([]int{40, 18, 8, 5, 5, 7, 5, 5, 4, 3}) {
	case 0:
		return vN(elemNums[r.Intn(len(elemNums))])
	case 1:
		return vS(r.Pick([]string{"a", "b", "1", "", "10", "B", "2"}))
	case 2:
		return vU()
	case 3:
		return V{K: "null"}
	case 4:
		return V{K: "b", B: r.Bool()}
	case 5:
		return V{K: "o", Tag: r.Pick([]string{"o1", "o2"})}
	case 6:
		return V{K: "arr", E: []V{vN(1), vN(2)}}
	case 7:
		return V{K: "ts", Tag: "t1", Ret: pV(vS("x"))}
	case 8:
		return vN(math.NaN())
	}
	return vN(negZero)
}

func genElems(r *gen.Rand, n int, holeNum, holeDen int, holes bool) []V {
	out := make([]V, n)
	for i := range out {
		if holes && holeNum > 0 && r.Chance(holeNum, holeDen) {
			out[i] = vHole()
		} else {
			out[i] = genElem(r)
		}
	}
	return out
}

// genIdx draws a relative-index / count argument around the boundary len.
func genIdx(r *gen.Rand, n int, tag string) V {
	L := float64(n)
	switch r.Intn(26) {
	case 0:
		return vU()
	case 1:
		return V{K: "null"}
	case 2:
		return vN(math.Inf(-1))
	case 3:
		return vN(-7)
	case 4:
		return vN(-1)
	case 5:
		return vN(-0.5)
	case 6:
		return vN(negZero)
	case 7:
		return vN(0)
	case 8:
		return vN(0.9)
	case 9:
		return vN(1)
	case 10:
		return vN(L - 1)
	case 11:
		return vN(L)
	case 12:
		return vN(L + 1)
	case 13:
		return vN(two31)
	case 14:
		return vN(two32)
	case 15:
		return vN(math.Inf(1))
	case 16:
		return vN(math.NaN())
	case 17:
		return vS("1")
	case 18:
		return V{K: "vo", Tag: tag, Ret: pV(vN(float64(r.Range(-2, n+1))))}
	case 19:
		return vN(-L)
	case 20:
		return vN(-L - 1)
	case 21:
		return vN(-L + 1)
	case 22:
		return vN(float64(r.Range(0, n+1)) + 0.5)
	case 23:
		return vN(two32 + 1)
	case 24:
		return vN(-two31 - 1)
	}
	return vN(float64(r.Range(-n-1, n+1)))
}

// ------------------------------------------------------------ receivers

func genLenSpec(r *gen.Rand, n int) *V {
	switch r.Intn(16) {
	case 0:
		return nil // no length property
	case 1:
		return pV(vN(0))
	case 2:
		return pV(vS("2"))
	case 3:
		return pV(vN(2.7))
	case 4:
		return pV(vN(-1))
	case 5:
		return pV(vN(math.NaN()))
	case 6:
		return pV(vU())
	case 7:
		return pV(vN(two32 + 2))
	case 8:
		return pV(V{K: "vo", Tag: "vlen", Ret: pV(vN(float64(n)))})
	case 9:
		return pV(vS("abc"))
	case 10:
		return pV(V{K: "b", B: true})
	case 11:
		return pV(vN(math.Inf(1)))
	case 12:
		return pV(vN(float64(n + 1)))
	case 13:
		return pV(vN(-0.5))
	}
	return pV(vN(float64(n)))
}

// lenGuess is the generator's estimate of ToUint32(length) (only used to aim
// arguments at the boundary; the model computes the real one).
func lenGuess(rc Recv) int {
	switch rc.Kind {
	case "string":
		return len(rc.S)
	case "alike":
		if rc.Len != nil && rc.Len.K == "n" {
			f := float64(rc.Len.N)
			if f >= 0 && f < 64 {
				return int(f)
			}
		}
		if rc.Len != nil && rc.Len.K == "s" && rc.Len.S == "2" {
			return 2
		}
		if rc.Len == nil {
			return 0
		}
	case "prim":
		if rc.P.K == "s" {
			return len(rc.P.S)
		}
		return 0
	}
	return len(rc.E)
}

func genRecv(r *gen.Rand, kinds []int) Recv {
	switch r.Weighted(kinds) { // array, alike, string, args, prim
	case 0:
		n := r.Range(0, 6)
		hn := []int{0, 1, 1}[r.Intn(3)]
		rc := Recv{Kind: "array", E: genElems(r, n, hn, []int{1, 4, 2}[r.Intn(3)], true)}
		if r.Chance(1, 14) {
			rc.Extra = append(rc.Extra, KV{"foo", vN(1)})
		}
		return rc
	case 1:
		n := r.Range(0, 5)
		rc := Recv{Kind: "alike", E: genElems(r, n, 1, 4, true), Len: genLenSpec(r, n)}
		if r.Chance(1, 4) {
			rc.Extra = append(rc.Extra, KV{fmt.Sprint(n + r.Range(0, 1)), vS("x")})
		}
		if r.Chance(1, 10) {
			rc.Extra = append(rc.Extra, KV{"foo", vN(1)})
		}
		return rc
	case 2:
		return Recv{Kind: "string", S: r.Pick([]string{"", "a", "abc", "hello", "1a1"})}
	case 3:
		n := r.Range(0, 4)
		return Recv{Kind: "args", E: genElems(r, n, 0, 1, false)}
	}
	p := []V{vU(), {K: "null"}, vN(5), {K: "b", B: true}, vS("abc"), vS(""), vS("ab")}
	return Recv{Kind: "prim", P: pV(p[r.Intn(len(p))])}
}

// genMods draws 0-2 receiver modifications (as ordinary observed ops).
func genMods(r *gen.Rand, rc Recv, allowProto bool) []Op {
	if rc.Kind == "prim" {
		return nil
	}
	n := lenGuess(rc)
	var ops []Op
	k := r.Weighted([]int{50, 35, 15})
	final := ""
	for j := 0; j < k; j++ {
		idx := fmt.Sprint(r.Range(0, maxInt(n, 1)))
		if rc.Kind == "string" {
			// redefining the index properties of a String wrapper exercises the
			// String exotic object (property C09), not Array code
			idx = fmt.Sprint(n + r.Range(0, 1))
		}
		switch r.Weighted([]int{8, 6, 6, 8, 10, 7, 7, 16}) {
		case 0:
			final = "freeze"
		case 1:
			final = "seal"
		case 2:
			final = "pe"
		case 3:
			ops = append(ops, Op{Op: "define", Name: "length", D: &DescSpec{W: pB(false)}})
		case 4:
			ops = append(ops, Op{Op: "define", Name: idx, D: &DescSpec{Get: pV(genElem(r)), Set: r.Bool(), E: pB(true), C: pB(true)}})
		case 5:
			ops = append(ops, Op{Op: "define", Name: idx, D: &DescSpec{Value: pV(genElem(r)), W: pB(true), E: pB(true), C: pB(false)}})
		case 6:
			ops = append(ops, Op{Op: "define", Name: idx, D: &DescSpec{Value: pV(genElem(r)), W: pB(false), E: pB(true), C: pB(true)}})
		case 7:
			if !allowProto {
				continue
			}
			on := "AP"
			if rc.Kind != "array" || r.Chance(1, 4) {
				on = "OP"
			}
			switch r.Intn(4) {
			case 0, 1:
				ops = append(ops, Op{Op: "set", On: on, Name: idx, Val: pV(vS("P" + idx))})
			case 2:
				ops = append(ops, Op{Op: "define", On: on, Name: idx, D: &DescSpec{Value: pV(vS("P" + idx)), W: pB(false), E: pB(true), C: pB(true)}})
			case 3:
				ops = append(ops, Op{Op: "define", On: on, Name: idx, D: &DescSpec{Get: pV(vS("P" + idx)), Set: r.Bool(), E: pB(true), C: pB(true)}})
			}
		}
	}
	if final != "" {
		ops = append(ops, Op{Op: final})
	}
	return ops
}

func maxInt(a, b int) int {
	if a > b {
		return a
	}
	return b
}

// ------------------------------------------------------------ calls

var plainMethods = []string{"toString", "toLocaleString", "concat", "join", "pop", "push", "reverse", "shift", "slice", "splice", "unshift", "indexOf", "lastIndexOf"}
var plainWeights = []int{3, 2, 8, 7, 6, 8, 7, 7, 12, 16, 7, 9, 9}
var mutatingMethods = []string{"pop", "push", "reverse", "shift", "splice", "unshift"}

func genItems(r *gen.Rand, lo, hi int) []V {
	n := r.Range(lo, hi)
	out := make([]V, n)
	for i := range out {
		out[i] = genElem(r)
	}
	return out
}

func genSearch(r *gen.Rand, rc Recv) V {
	var pool []V
	for _, e := range rc.E {
		if e.K != "hole" && e.K != "arr" {
			pool = append(pool, e)
		}
	}
	if rc.Kind == "string" && len(rc.S) > 0 {
		pool = append(pool, vS(rc.S[:1]), vS(rc.S[len(rc.S)-1:]))
	}
	if len(pool) > 0 && r.Chance(3, 4) {
		return pool[r.Intn(len(pool))]
	}
	sp := []V{vU(), vN(math.NaN()), vN(negZero), vN(0), vS("1"), vN(1), {K: "null"}, {K: "b", B: true}, vS("x"), vS("P0"), vS("P1")}
	return sp[r.Intn(len(sp))]
}

func genCall(r *gen.Rand, rc Recv, m string, seq int) Op {
	n := lenGuess(rc)
	tag := func(i int) string { return fmt.Sprintf("v%d_%d", seq, i) }
	op := Op{Op: "call", M: m}
	switch m {
	case "toString", "pop", "reverse", "shift":
	case "toLocaleString":
	case "concat":
		k := r.Range(0, 3)
		for i := 0; i < k; i++ {
			switch r.Intn(6) {
			case 0:
				op.Args = append(op.Args, V{K: "arr", E: genElems(r, r.Range(0, 3), 1, 3, true)})
			case 1:
				op.Args = append(op.Args, V{K: "R"})
			case 2:
				op.Args = append(op.Args, V{K: "alike", E: genElems(r, r.Range(0, 2), 0, 1, false)})
			default:
				op.Args = append(op.Args, genElem(r))
			}
		}
	case "join":
		switch r.Intn(8) {
		case 0:
		case 1:
			op.Args = []V{vU()}
		case 2:
			op.Args = []V{vS("-")}
		case 3:
			op.Args = []V{vS("")}
		case 4:
			op.Args = []V{{K: "null"}}
		case 5:
			op.Args = []V{vN(0)}
		case 6:
			op.Args = []V{{K: "ts", Tag: "tsep", Ret: pV(vS("+"))}}
		case 7:
			op.Args = []V{vS(", ")}
		}
	case "push", "unshift":
		op.Args = genItems(r, 0, 3)
	case "slice":
		switch r.Intn(6) {
		case 0:
		case 1, 2:
			op.Args = []V{genIdx(r, n, tag(0))}
		default:
			op.Args = []V{genIdx(r, n, tag(0)), genIdx(r, n, tag(1))}
		}
	case "splice":
		switch r.Intn(8) {
		case 0:
		case 1:
			op.Args = []V{genIdx(r, n, tag(0))}
		default:
			op.Args = []V{genIdx(r, n, tag(0)), genIdx(r, n, tag(1))}
			op.Args = append(op.Args, genItems(r, 0, 3)...)
		}
	case "indexOf", "lastIndexOf":
		switch r.Intn(8) {
		case 0:
		case 1, 2:
			op.Args = []V{genSearch(r, rc)}
		default:
			op.Args = []V{genSearch(r, rc), genIdx(r, n, tag(1))}
		}
	default:
		panic("genCall " + m)
	}
	return op
}

func pickMethod(r *gen.Rand) string { return plainMethods[r.Weighted(plainWeights)] }

// toLocaleString is only generated over elements whose toLocaleString is not
// locale/implementation dependent: undefined, null, holes and tl objects.
func localeElems(r *gen.Rand, n int) []V {
	out := make([]V, n)
	for i := range out {
		switch r.Intn(5) {
		case 0:
			out[i] = vU()
		case 1:
			out[i] = V{K: "null"}
		case 2:
			out[i] = vHole()
		case 3:
			out[i] = V{K: "tl", Tag: fmt.Sprintf("tl%d", i), Ret: pV(vS(fmt.Sprintf("L%d", i)))}
		default:
			out[i] = V{K: "o", Tag: "o1"}
		}
	}
	return out
}

func genMethodCase(r *gen.Rand) Input {
	rc := genRecv(r, []int{52, 22, 7, 9, 10})
	in := Input{Cat: "method", Recv: rc}
	in.Ops = genMods(r, rc, true)
	k := r.Weighted([]int{55, 25, 12, 8}) + 1
	for j := 0; j < k; j++ {
		m := pickMethod(r)
		if j > 0 && r.Chance(1, 2) {
			m = mutatingMethods[r.Intn(len(mutatingMethods))]
		}
		if m == "toLocaleString" {
			if j > 0 || len(in.Ops) > 0 {
				m = "join"
			} else {
				in.Recv = Recv{Kind: "array", E: localeElems(r, r.Range(0, 4))}
				if r.Chance(1, 4) {
					in.Recv.Kind = "alike"
					in.Recv.Len = pV(vN(float64(len(in.Recv.E))))
				}
				rc = in.Recv
			}
		}
		if m == "toString" && rc.Kind == "array" && r.Chance(1, 3) && j == 0 {
			in.Recv.Extra = append(in.Recv.Extra, KV{"join", []V{vN(5), {K: "fn"}, vU()}[r.Intn(3)]})
		}
		in.Ops = append(in.Ops, genCall(r, rc, m, j))
	}
	return in
}

// ------------------------------------------------------------ index canonicalisation / length

var canonNames = []string{"0", "00", "01", "+1", "1.0", "1e0", " 1", "-0", "1.5", "4294967294", "4294967295", "4294967296",
	"1", "2", "3", "5", "-1", "+0", "0x1", "1 ", "length", "007", "4294967293", "10"}

func genLenVal(r *gen.Rand, n int) V {
	L := float64(n)
	vals := []V{vN(0), vN(1), vN(L - 1), vN(L), vN(L + 1), vN(L + 3), vN(two32 - 1), vN(two32), vN(-1), vN(1.5), vN(math.NaN()),
		vS("2"), vS("abc"), {K: "vo", Tag: "vl", Ret: pV(vN(1))}, vU(), {K: "null"}, {K: "b", B: true}, vN(math.Inf(1)), vS("0x2"),
		vN(negZero), vS("1.5"), vS(""), {K: "vo", Tag: "vl2", Ret: pV(vN(-1))}, vN(2), vN(3), vS(" 3 "), vN(two32 + 1),
		// the conversion of the new length changes the array it is being assigned to
		{K: "vom", Tag: "vm0", Ret: pV(vN(0))}, {K: "vom", Tag: "vm2", Ret: pV(vN(2))}, {K: "vom", Tag: "vmL", Ret: pV(vN(L + 3))}, {K: "vom", Tag: "vmS", Ret: pV(vN(L))}}
	return vals[r.Intn(len(vals))]
}

func genCanonCase(r *gen.Rand) Input {
	n := r.Range(0, 5)
	rc := Recv{Kind: "array", E: genElems(r, n, 1, 4, true)}
	in := Input{Cat: "canon", Recv: rc}
	if n >= 2 && r.Chance(1, 20) {
		// an element whose getter deletes its mirror image (or another element), then a method that
		// reads pairs: the order of [[Get]] and [[HasProperty]] (15.4.4.8 step 6 d-g) decides the branch
		a := r.Intn(n)
		b := n - 1 - a
		if r.Chance(1, 4) {
			b = r.Intn(n)
		}
		in.Ops = append(in.Ops, Op{Op: "define", Name: fmt.Sprint(a), D: &DescSpec{Get: pV(genElem(r)), Set: true, GetDel: &b, E: pB(true), C: pB(true)}},
			Op{Op: "call", M: []string{"reverse", "reverse", "shift", "unshift", "splice", "sort"}[r.Intn(6)]})
		return in
	}
	if r.Chance(1, 3) {
		in.Ops = genMods(r, rc, false)
	}
	k := r.Range(1, 4)
	for j := 0; j < k; j++ {
		name := canonNames[r.Intn(len(canonNames))]
		if r.Chance(1, 6) {
			name = fmt.Sprint(r.Range(0, n+2))
		}
		switch r.Weighted([]int{30, 18, 12, 22, 10, 4, 4}) {
		case 0:
			if name == "length" {
				in.Ops = append(in.Ops, Op{Op: "set", Name: name, Val: pV(genLenVal(r, n))})
			} else {
				in.Ops = append(in.Ops, Op{Op: "set", Name: name, Val: pV(genElem(r))})
			}
		case 1:
			d := &DescSpec{}
			if name == "length" {
				d.Value = pV(genLenVal(r, n))
				if r.Chance(1, 3) {
					d.W = pB(r.Chance(1, 3))
				}
			} else {
				switch r.Intn(4) {
				case 0:
					d.Get = pV(genElem(r))
					d.Set = r.Bool()
					if r.Chance(1, 3) {
						k := r.Range(0, n+1)
						d.GetDel = &k
					}
				default:
					d.Value = pV(genElem(r))
				}
				for _, f := range []**bool{&d.W, &d.E, &d.C} {
					if r.Chance(2, 3) && !(f == &d.W && d.Get != nil) {
						*f = pB(r.Chance(2, 3))
					}
				}
			}
			in.Ops = append(in.Ops, Op{Op: "define", Name: name, D: d})
		case 2:
			in.Ops = append(in.Ops, Op{Op: "delete", Name: name})
		case 3:
			in.Ops = append(in.Ops, Op{Op: "set", Name: "length", Val: pV(genLenVal(r, n))})
		case 4:
			d := &DescSpec{Value: pV(genLenVal(r, n))}
			if r.Chance(1, 2) {
				d.W = pB(r.Chance(1, 2))
			}
			in.Ops = append(in.Ops, Op{Op: "define", Name: "length", D: d})
		case 5:
			in.Ops = append(in.Ops, Op{Op: []string{"freeze", "seal", "pe"}[r.Intn(3)]})
		case 6:
			m := mutatingMethods[r.Intn(len(mutatingMethods))]
			in.Ops = append(in.Ops, genCall(r, rc, m, j))
		}
	}
	return in
}

// ------------------------------------------------------------ constructor

func genCtorCase(r *gen.Rand) Input {
	in := Input{Cat: "ctor", Recv: Recv{Kind: "array", E: genElems(r, r.Range(0, 2), 0, 1, false)}}
	k := r.Range(1, 3)
	for j := 0; j < k; j++ {
		if r.Chance(1, 4) {
			vs := []V{{K: "R"}, {K: "alike", E: []V{vN(1)}}, {K: "arr", E: []V{vN(1), vHole()}}, vU(), {K: "null"}, vN(1), vS("a"), {K: "o", Tag: "o1"}, {K: "fn"}}
			op := Op{Op: "isArray"}
			if !r.Chance(1, 10) {
				op.Args = []V{vs[r.Intn(len(vs))]}
			}
			in.Ops = append(in.Ops, op)
			continue
		}
		op := Op{Op: "ctor", New: r.Bool()}
		switch r.Intn(6) {
		case 0:
		case 1, 2, 3:
			single := []V{vN(0), vN(1), vN(3), vN(-1), vN(1.5), vN(two32 - 1), vN(two32), vN(math.NaN()), vN(math.Inf(1)), vN(negZero),
				vS("3"), vU(), {K: "null"}, {K: "b", B: true}, {K: "vo", Tag: "vc", Ret: pV(vN(3))}, vN(two31), vN(-0.5), vN(two32 - 2), vN(7), vS(""), vN(math.Inf(-1)), vN(0.5)}
			op.Args = []V{single[r.Intn(len(single))]}
		default:
			op.Args = genItems(r, 2, 4)
			if r.Chance(1, 3) {
				op.Args[0] = vN(float64(r.Range(-1, 3)))
			}
		}
		in.Ops = append(in.Ops, op)
	}
	return in
}

// ------------------------------------------------------------ iteration callbacks

var iterMethods = []string{"every", "some", "forEach", "map", "filter", "reduce", "reduceRight"}

func genCB(r *gen.Rand, m string, n int) *CB {
	if r.Chance(1, 12) {
		if r.Chance(1, 4) {
			return nil // callback omitted
		}
		nf := []V{vU(), {K: "null"}, vN(1), vS("f"), {K: "o", Tag: "o1"}, {K: "arr", E: nil}}
		return &CB{Kind: "val", NonFn: pV(nf[r.Intn(len(nf))]), ThrowAt: -1}
	}
	cb := &CB{Kind: "fn", ThrowAt: -1}
	if m == "reduce" || m == "reduceRight" {
		cb.Kind = "red"
		cb.Ret = r.Pick([]string{"a", "v", "i", "cnt", "v"})
	} else {
		cb.Ret = r.Pick([]string{"u", "v", "gt1", "par", "true", "false", "cnt", "i", "gt1", "par"})
	}
	if r.Chance(35, 100) {
		mu := &Mut{At: r.Range(0, maxInt(n-1, 1))}
		switch r.Intn(6) {
		case 0:
			mu.Op, mu.Val = "push", pV(vN(99))
		case 1:
			mu.Op = "pop"
		case 2:
			mu.Op, mu.Idx = "del", r.Range(0, maxInt(n-1, 0))
		case 3:
			mu.Op, mu.Idx = "setlen", r.Range(0, n+1)
		case 4:
			mu.Op, mu.Idx, mu.Val = "set", r.Range(0, n+1), pV(vN(77))
		case 5:
			mu.Op, mu.Idx = "del", r.Range(0, maxInt(n-1, 0))
		}
		cb.Mut = mu
	}
	if r.Chance(12, 100) {
		cb.ThrowAt = r.Range(0, maxInt(n-1, 0))
	}
	return cb
}

func genIterCase(r *gen.Rand) Input {
	rc := genRecv(r, []int{55, 22, 7, 9, 7})
	in := Input{Cat: "iter", Recv: rc}
	if r.Chance(2, 5) {
		in.Ops = genMods(r, rc, true)
	}
	n := lenGuess(rc)
	k := 1
	if r.Chance(1, 6) {
		k = 2
	}
	for j := 0; j < k; j++ {
		m := iterMethods[r.Intn(len(iterMethods))]
		op := Op{Op: "call", M: m, CB: genCB(r, m, n)}
		if op.CB != nil {
			if m == "reduce" || m == "reduceRight" {
				if r.Bool() {
					op.Args = []V{genElem(r)}
				}
			} else {
				switch r.Intn(7) {
				case 0, 1, 2:
				case 3:
					op.Args = []V{vU()}
				case 4:
					op.Args = []V{{K: "T"}}
				case 5:
					op.Args = []V{[]V{vN(5), vS("s"), {K: "b", B: false}}[r.Intn(3)]}
				case 6:
					op.Args = []V{{K: "null"}}
				}
			}
		}
		in.Ops = append(in.Ops, op)
	}
	return in
}

// ------------------------------------------------------------ sort

func genSortCase(r *gen.Rand) Input {
	n := r.Range(0, 8)
	cmp := r.Weighted([]int{34, 5, 20, 14, 8, 7, 8, 4})
	// 0 default, 1 explicit undefined, 2 asc, 3 desc, 4 zero, 5 strasc, 6 incons, 7 thrower
	es := make([]V, n)
	fam := r.Intn(3)
	if cmp <= 1 && r.Chance(1, 2) {
		fam = 3
	}
	for i := range es {
		switch {
		case r.Chance(1, 7):
			es[i] = vHole()
		case r.Chance(1, 8):
			es[i] = vU()
		case fam == 0:
			es[i] = vN([]float64{0, 1, 2, 3, -1, 10, 9, 1.5, 5, 7, negZero, 100, -5}[r.Intn(13)])
		case fam == 1:
			es[i] = vS(r.Pick([]string{"a", "b", "1", "", "10", "B", "2", "ab", "9", "aa"}))
		case fam == 2:
			es[i] = vN(float64(r.Range(-3, 12)))
		default:
			es[i] = genElem(r)
			if es[i].K == "n" && float64(es[i].N) != float64(es[i].N) {
				es[i] = vN(4)
			}
		}
	}
	rc := Recv{Kind: "array", E: es}
	switch r.Intn(8) {
	case 0:
		rc.Kind = "alike"
		rc.Len = genLenSpec(r, n)
	case 1:
		rc.Kind = "args"
		for i := range rc.E {
			if rc.E[i].K == "hole" {
				rc.E[i] = vU()
			}
		}
	}
	in := Input{Cat: "sort", Recv: rc}
	if r.Chance(1, 8) {
		in.Ops = append(in.Ops, Op{Op: []string{"seal", "pe", "freeze"}[r.Intn(3)]})
	}
	if r.Chance(1, 12) {
		in.Recv = genRecv(r, []int{0, 0, 1, 0, 3})
	}
	op := Op{Op: "call", M: "sort"}
	switch cmp {
	case 0:
	case 1:
		op.CB = &CB{Kind: "val", NonFn: pV(vU()), ThrowAt: -1}
	case 2:
		op.CB = &CB{Kind: "cmp", Ret: "asc", ThrowAt: -1}
	case 3:
		op.CB = &CB{Kind: "cmp", Ret: "desc", ThrowAt: -1}
	case 4:
		op.CB = &CB{Kind: "cmp", Ret: "zero", ThrowAt: -1}
	case 5:
		op.CB = &CB{Kind: "cmp", Ret: "strasc", ThrowAt: -1}
	case 6:
		op.CB = &CB{Kind: "cmp", Ret: "incons", ThrowAt: -1}
	case 7:
		op.CB = &CB{Kind: "cmp", Ret: "asc", ThrowAt: r.Range(0, 3)}
	}
	in.Ops = append(in.Ops, op)
	return in
}

// ------------------------------------------------------------ huge lengths

func genBigCase(r *gen.Rand) Input {
	top := two32 - 1
	var rc Recv
	in := Input{Cat: "biglen"}
	L := top
	if r.Chance(3, 5) {
		lens := []V{vN(top), vN(-1), vN(top - 1), vN(two32 + top), vN(two31), vN(two31 + 1),
			vN(9223372036854777856), vN(1e20), vN(-9223372036854777856)} // beyond int64: ToUint32 is still exact modulo arithmetic
		lv := lens[r.Intn(len(lens))]
		switch float64(lv.N) {
		case top - 1:
			L = top - 1
		case two31:
			L = two31
		case two31 + 1:
			L = two31 + 1
		case 9223372036854777856:
			L = 2048
		case 1e20:
			L = 1661992960
		case -9223372036854777856:
			L = two32 - 2048
		}
		rc = Recv{Kind: "alike", E: genElems(r, r.Range(0, 2), 0, 1, false), Len: pV(lv)}
		for _, off := range []float64{1, 2, 3, 0, -1} {
			if r.Chance(1, 2) {
				rc.Extra = append(rc.Extra, KV{fmtNum(L - off), vS("x")})
			}
		}
		in.Recv = rc
	} else {
		rc = Recv{Kind: "array", E: genElems(r, r.Range(0, 3), 1, 4, true)}
		in.Recv = rc
		if r.Bool() {
			in.Ops = append(in.Ops, Op{Op: "set", Name: fmtNum(top - 1), Val: pV(vS("x"))})
			if r.Bool() {
				in.Ops = append(in.Ops, Op{Op: "set", Name: fmtNum(top - 2), Val: pV(vS("y"))})
			}
		} else {
			L = top - float64(r.Range(0, 2))
			in.Ops = append(in.Ops, Op{Op: "set", Name: "length", Val: pV(vN(L))})
		}
	}
	near := func() V {
		c := []float64{L - 1, L - 2, L - 3, L, L + 1, -1, -2, -3, -L, -L + 1, -L + 2, 2, 0, two32, two31}
		return vN(c[r.Intn(len(c))])
	}
	k := r.Range(1, 2)
	for j := 0; j < k; j++ {
		var op Op
		switch r.Intn(8) {
		case 0:
			op = Op{Op: "call", M: "push", Args: genItems(r, 0, 2)}
		case 1:
			op = Op{Op: "call", M: "pop"}
		case 2:
			op = Op{Op: "call", M: "indexOf", Args: []V{vS(r.Pick([]string{"x", "y", "zz"})), near()}}
		case 3:
			op = Op{Op: "call", M: "lastIndexOf", Args: []V{vS(r.Pick([]string{"x", "y"}))}}
			if r.Chance(2, 3) {
				op.Args = append(op.Args, near())
			}
		case 4:
			op = Op{Op: "call", M: "slice", Args: []V{near()}}
			if r.Bool() {
				op.Args = append(op.Args, near())
			}
		case 5:
			op = Op{Op: "call", M: "splice", Args: []V{near(), vN(float64(r.Range(0, 2)))}}
			op.Args = append(op.Args, genItems(r, 0, 2)...)
		case 6:
			op = Op{Op: "set", Name: fmtNum(L - float64(r.Range(0, 2))), Val: pV(vN(1))}
		case 7:
			op = Op{Op: "set", Name: "length", Val: pV(vN(L - float64(r.Range(0, 3))))}
		}
		in.Ops = append(in.Ops, op)
	}
	return in
}

func fmtNum(f float64) string { return fmt.Sprintf("%.0f", f) }

// ------------------------------------------------------------ top level

func generate(r *gen.Rand, i int) Input {
	switch r.Weighted([]int{34, 16, 6, 24, 12, 8}) {
	case 0:
		return genMethodCase(r)
	case 1:
		return genCanonCase(r)
	case 2:
		return genCtorCase(r)
	case 3:
		return genIterCase(r)
	case 4:
		return genSortCase(r)
	}
	return genBigCase(r)
}

// ------------------------------------------------------------ classification

func argClass(v V, n int) string {
	if v.K != "n" {
		if v.K == "s" {
			return "s"
		}
		return v.K
	}
	f, L := float64(v.N), float64(n)
	switch {
	case f != f:
		return "nan"
	case math.IsInf(f, 1):
		return "+inf"
	case math.IsInf(f, -1):
		return "-inf"
	case f == 0 && math.Signbit(f):
		return "-0"
	case f == 0:
		return "0"
	case f != math.Trunc(f):
		if f < 0 {
			return "-frac"
		}
		return "frac"
	case f >= two31:
		return ">=2^31"
	case f <= -two31:
		return "<=-2^31"
	case f < -L:
		return "<-len"
	case f == -L:
		return "-len"
	case f < 0:
		return "neg"
	case f < L-1:
		return "<len-1"
	case f == L-1:
		return "len-1"
	case f == L:
		return "len"
	case f == L+1:
		return "len+1"
	}
	return ">len"
}

func shapeMods(in *Input) []string {
	var out []string
	for _, op := range in.Ops {
		switch op.Op {
		case "freeze", "seal", "pe":
			out = append(out, op.Op)
		case "define":
			switch {
			case op.on() != "R" && op.D.Get != nil:
				out = append(out, "proto-accessor-index:"+op.on())
			case op.on() != "R":
				out = append(out, "proto-data-index:"+op.on())
			case op.Name == "length":
				out = append(out, "define-length")
			case op.D.Get != nil:
				out = append(out, "element-getter")
			case op.D.C != nil && !*op.D.C:
				out = append(out, "non-configurable-element")
			case op.D.W != nil && !*op.D.W:
				out = append(out, "non-writable-element")
			default:
				out = append(out, "define")
			}
		case "set":
			if op.on() != "R" {
				out = append(out, "proto-data-index:"+op.on())
			}
		}
	}
	return out
}

// classKey is the distinctness key: (operation, receiver shape class,
// argument class tuple) of the last op the model executed.
func classKey(in *Input, m *mrun) string {
	rc := in.Recv
	holes := 0
	for _, e := range rc.E {
		if e.K == "hole" {
			holes++
		}
	}
	lenClass := ""
	if rc.Kind == "alike" {
		if rc.Len == nil {
			lenClass = "nolen"
		} else {
			lenClass = argClass(*rc.Len, len(rc.E))
		}
	}
	var b strings.Builder
	fmt.Fprintf(&b, "%s|%s|n=%d|holes=%v|%s|%s|", in.Cat, rc.Kind, len(rc.E), holes > 0, lenClass, strings.Join(shapeMods(in), "+"))
	n := lenGuess(rc)
	last := m.curOp
	if last >= len(in.Ops) {
		last = len(in.Ops) - 1
	}
	for i := 0; i <= last && i < len(in.Ops); i++ {
		op := in.Ops[i]
		if i < last && (op.Op != "call") {
			continue
		}
		b.WriteString(opName(op) + "(")
		if op.CB != nil {
			b.WriteString(op.CB.Kind + ":" + op.CB.Ret)
			if op.CB.Mut != nil {
				b.WriteString("+" + op.CB.Mut.Op)
			}
			if op.CB.ThrowAt >= 0 {
				b.WriteString("+throw")
			}
			b.WriteString(";")
		}
		for _, a := range op.Args {
			b.WriteString(argClass(a, n) + ",")
		}
		if op.Name != "" {
			b.WriteString(op.Name)
		}
		if op.Val != nil {
			b.WriteString("=" + argClass(*op.Val, n))
		}
		b.WriteString(")")
	}
	return b.String()
}
