package c08

import (
	"encoding/json"
	"fmt"
	"sort"
	"strings"

	"github.com/robertkrimen/otto"

	"verif/internal/ox"
	"verif/internal/refarr"
	"verif/internal/run"
)

func init() {
	run.Register(&run.Check{
		ID: "C08",
		Rule: "a case is a receiver (array with holes / array-like / String wrapper / arguments / primitive, optionally frozen, sealed, non-extensible, with non-writable length, " +
			"accessor or non-configurable elements, or an inherited index on Array.prototype/Object.prototype) plus a history of 1-6 observed operations; every operation is executed on otto and on the " +
			"ES5.1 model and ALL of: return value, thrown error class, callback/getter/valueOf log, full receiver dump (every own property with value and attributes, extensibility) are compared. " +
			"A case is non-trivial when the model could decide it (inside its exact domain and step budget) and it is distinct by (operation, receiver shape class, argument class tuple)",
		Assumptions: []string{
			"oracle: internal/refarr, ES5.1 8.12/9/15.4 written from the specification text (no otto code, no strconv float formatting)",
			"ES5.1 errata / web divergences are not asserted beyond the envelope of both readings: splice(start) with deleteCount omitted (0 vs len-start), length of the array created by concat/slice/splice when it ends in holes, the type of the length pop() stores on a generic object (String per ES5.1 text vs Number)",
			"sort is checked by relation (permutation, holes deleted at the end, undefined after defined, ordered w.r.t. the comparator) and only where 15.4.4.11 defines the behaviour",
			"the [[Enumerable]] attribute of String wrapper index properties is masked (String exotic object: property C09)",
			"every loop is capped at 2^12 model steps; costlier cases are skipped before otto is run",
		},
		CaseTimeoutS: 10,
		Floor: func(tier string) int {
			if tier == "thorough" {
				return 100000
			}
			return 8000
		},
		Cases: func(tier string, seed uint64) int {
			if tier == "thorough" {
				return 1800000
			}
			return 90000
		},
		Exec:   func(c *run.Ctx, i int) { checkOne(c, generate(c.Rng, i)) },
		Replay: func(c *run.Ctx, raw json.RawMessage) { var in Input; mustUnmarshal(raw, &in); checkOne(c, in) },
	})
	registerMatchers()
}

func mustUnmarshal(raw json.RawMessage, v interface{}) {
	if err := json.Unmarshal(raw, v); err != nil {
		panic(err)
	}
}

// failIn is what c.Fail receives: the replayable Input plus (in-process only)
// what otto produced, for the deviation-model matchers.
type failIn struct {
	Input
	ottoEvents []string
	upTo       int // index of the first disagreeing event
	variant    int // erratum variant the disagreement was computed under
}

// ------------------------------------------------------------ driving otto

type host struct {
	events  []string
	log     []string
	reg     []regEnt
	base    map[string]map[string]bool
	sortLen int
}

type regEnt struct {
	name string
	v    otto.Value
}

func str(v otto.Value) string { s, _ := v.ToString(); return s }

func (h *host) install(vm *otto.Otto) {
	ret := func(s string) otto.Value { v, _ := otto.ToValue(s); return v }
	vm.Set("OUT", func(call otto.FunctionCall) otto.Value {
		h.events = append(h.events, "log:"+strings.Join(h.log, "|"))
		h.log = h.log[:0]
		h.events = append(h.events, str(call.Argument(0))+":"+str(call.Argument(1)))
		return otto.UndefinedValue()
	})
	vm.Set("L", func(call otto.FunctionCall) otto.Value {
		h.log = append(h.log, str(call.Argument(0)))
		return otto.UndefinedValue()
	})
	vm.Set("NUM", func(call otto.FunctionCall) otto.Value {
		f, _ := call.Argument(0).ToFloat()
		return ret(ox.Num(f))
	})
	vm.Set("QS", func(call otto.FunctionCall) otto.Value { return ret(ox.Str(str(call.Argument(0)))) })
	vm.Set("REG", func(call otto.FunctionCall) otto.Value {
		h.reg = append(h.reg, regEnt{str(call.Argument(0)), call.Argument(1)})
		return otto.UndefinedValue()
	})
	vm.Set("IDOF", func(call otto.FunctionCall) otto.Value {
		a := call.Argument(0)
		if a.IsObject() {
			for _, e := range h.reg {
				if e.v == a {
					return ret(e.name)
				}
			}
		}
		return ret("")
	})
	vm.Set("SJ", func(call otto.FunctionCall) otto.Value {
		parts := strings.Split(str(call.Argument(0)), "\x01")
		if len(parts) > 0 && parts[0] == "" {
			parts = parts[1:]
		}
		sort.Strings(parts)
		return ret(strings.Join(parts, ","))
	})
	vm.Set("BASE", func(call otto.FunctionCall) otto.Value {
		b := map[string]bool{}
		for _, k := range strings.Split(str(call.Argument(1)), "\x01") {
			b[k] = true
		}
		h.base[str(call.Argument(0))] = b
		return otto.UndefinedValue()
	})
	vm.Set("SETLEN", func(call otto.FunctionCall) otto.Value {
		n, _ := call.Argument(0).ToInteger()
		h.sortLen = int(n)
		return otto.UndefinedValue()
	})
	vm.Set("KEEP", func(call otto.FunctionCall) otto.Value {
		filt, k := str(call.Argument(0)), str(call.Argument(1))
		keep := true
		switch filt {
		case "":
		case "sort":
			idx, ok := refarr.ArrayIndex(k)
			keep = !(ok && int(idx) < h.sortLen)
		default:
			keep = k == "length" || !h.base[filt][k]
		}
		v, _ := otto.ToValue(keep)
		return v
	})
}

var preludeScript *otto.Script

// runOtto executes the script of an input on a fresh runtime.
func runOtto(in *Input, sortLen int) (events []string, out ox.Outcome, src string) {
	vm := otto.New()
	h := &host{base: map[string]map[string]bool{}}
	h.install(vm)
	if preludeScript == nil {
		var err error
		if preludeScript, err = vm.Compile("prelude.js", prelude); err != nil {
			panic("c08 prelude: " + err.Error())
		}
	}
	if po := ox.Run(vm, preludeScript); po.Err != nil || po.Panic != nil {
		return nil, po, "prelude"
	}
	var b strings.Builder
	b.WriteString(setupJS(in))
	proto := usesProto(in)
	for _, op := range in.Ops {
		b.WriteString(opJS(op, proto, sortLen))
		if op.Op == "call" && op.M == "sort" && !(in.Recv.Kind == "prim" && in.Recv.P.K != "s") {
			break // the sort observation ends the history (see mrun.prepareSort)
		}
	}
	src = b.String()
	out = ox.Run(vm, src)
	return h.events, out, src
}

// ------------------------------------------------------------ comparison

func siteOf(in *Input, opIdx int) string {
	if opIdx < 0 || opIdx >= len(in.Ops) {
		return "setup:" + in.Recv.Kind
	}
	op := in.Ops[opIdx]
	switch op.Op {
	case "call":
		return "Array.prototype." + op.M
	case "ctor":
		if op.New {
			return "new Array"
		}
		return "Array()"
	case "isArray":
		return "Array.isArray"
	case "set":
		return "assign:" + op.on()
	case "define":
		return "defineProperty:" + op.on()
	case "delete":
		return "delete:" + op.on()
	}
	return "Object." + op.Op + ":" + op.on()
}

// firstDiff returns the index of the first differing event (or -1).
func firstDiff(a, b []string) int {
	n := len(a)
	if len(b) < n {
		n = len(b)
	}
	for i := 0; i < n; i++ {
		if a[i] != b[i] {
			return i
		}
	}
	if len(a) != len(b) {
		return n
	}
	return -1
}

func at(xs []string, i int) string {
	if i < len(xs) {
		return xs[i]
	}
	return "<no event>"
}

func variantSets(touched int) []int {
	var out []int
	for v := 1; v < 8; v++ {
		if v&^touched == 0 {
			out = append(out, v)
		}
	}
	return out
}

func checkOne(c *run.Ctx, in Input) {
	m, status := runModel(&in, 0, 0)
	if status != "" {
		c.Feature("skipped:" + strings.SplitN(status, ":", 2)[0])
		c.Note("skip:" + status)
		return
	}
	// A case is also infeasible when a recorded deviation of the implementation
	// (or the other reading of an ES5.1 erratum) makes it exceed the budget:
	// e.g. splice() deleting 2^32-1 elements, map allocating 2^32-1 slots.
	touched := m.r.Touched
	if md, st := runModel(&in, 0, allDevs()); st == "" {
		touched |= md.r.Touched // e.g. splice reached only because this=undefined did not throw
	}
	for _, v := range append([]int{0}, variantSets(touched)...) {
		if _, st := runModel(&in, v, allDevs()|infeasibleDevs); st != "" {
			c.Feature("skipped:" + strings.SplitN(st, ":", 2)[0] + "-under-known-deviation")
			return
		}
	}
	c.Announce(in)
	got, out, _ := runOtto(&in, m.sortLen)
	if out.Panic != nil {
		c.Fail("panic", siteOf(&in, len(in.Ops)-1), &failIn{Input: in}, "no Go panic", fmt.Sprint(out.Panic), out.Stack)
		return
	}
	if out.Err != nil {
		c.Fail("mismatch", "script", &failIn{Input: in, ottoEvents: got}, "script completes", "uncaught: "+out.Err.Error(), "")
		return
	}
	want := m.events
	cmpTo := len(want)
	if m.sortAt >= 0 {
		cmpTo = m.sortAt
	}
	ok := true
	d := firstDiff(want[:cmpTo], clipTo(got, cmpTo, m.sortAt >= 0))
	if d >= 0 && touched != 0 {
		// A point where ES5.1 is known to be erroneous / divergent was reached:
		// accept the other reading(s) as well. If no reading agrees completely,
		// report against the reading under which the recorded deviations explain
		// most (ties: the reading that itself agrees longest).
		inf := 1 << 30
		score := func(mv *mrun) (int, int) {
			ct := len(mv.events)
			if mv.sortAt >= 0 {
				ct = mv.sortAt
			}
			ds := firstDiff(mv.events[:ct], clipTo(got, ct, mv.sortAt >= 0))
			if ds < 0 {
				return inf, inf
			}
			dd := ds
			if md, st := runModel(&in, mv.r.Variant, allDevs()); st == "" {
				cd := len(md.events)
				if md.sortAt >= 0 {
					cd = md.sortAt
				}
				if dd = firstDiff(md.events[:cd], clipTo(got, cd, md.sortAt >= 0)); dd < 0 {
					dd = inf
				}
			}
			return dd, ds
		}
		bd, bs := score(m)
		for _, v := range variantSets(touched) {
			m2, st2 := runModel(&in, v, 0)
			if st2 != "" {
				continue
			}
			if dd, ds := score(m2); dd > bd || (dd == bd && ds > bs) {
				m, bd, bs = m2, dd, ds
			}
		}
		want = m.events
		cmpTo = len(want)
		if m.sortAt >= 0 {
			cmpTo = m.sortAt
		}
		d = firstDiff(want[:cmpTo], clipTo(got, cmpTo, m.sortAt >= 0))
		if d < 0 && m.r.Variant != 0 {
			c.Feature(fmt.Sprintf("variant-accepted:%d", m.r.Variant))
		}
	}
	if d >= 0 {
		ok = false
		opIdx := -1
		if d < len(m.evOp) {
			opIdx = m.evOp[d]
		} else if len(in.Ops) > 0 {
			opIdx = len(in.Ops) - 1
		}
		detail := fmt.Sprintf("first disagreement at event %d (op %d)", d, opIdx)
		if opIdx >= 0 && opIdx < len(in.Ops) {
			b, _ := json.Marshal(in.Ops[opIdx])
			detail += " " + string(b)
		}
		if d > 0 {
			detail += " | previous event: " + at(got, d-1)
		}
		c.Fail("mismatch", siteOf(&in, opIdx), &failIn{Input: in, ottoEvents: got, upTo: d, variant: m.r.Variant}, at(want, d), at(got, d), detail)
		// Do not let a known deviation hide a later, different disagreement: with
		// every recorded deviation switched on, the model must explain the rest.
		if md, st := runModel(&in, m.r.Variant, allDevs()); st == "" {
			ct := len(md.events)
			if md.sortAt >= 0 {
				ct = md.sortAt
			}
			if d2 := firstDiff(md.events[:ct], clipTo(got, ct, md.sortAt >= 0)); d2 > d {
				op2 := -1
				if d2 < len(md.evOp) {
					op2 = md.evOp[d2]
				}
				c.Fail("mismatch", siteOf(&in, op2), &failIn{Input: in, ottoEvents: got, upTo: d2, variant: m.r.Variant}, at(md.events, d2), at(got, d2),
					fmt.Sprintf("second disagreement at event %d (op %d), not explained by the recorded deviations that explain event %d", d2, op2, d))
			}
		}
	}
	if ok && m.sortAt >= 0 {
		ok = checkSort(c, &in, m, got)
	}
	// evidence
	for i := 0; i <= m.curOp && i < len(in.Ops); i++ {
		c.Feature("op:" + opName(in.Ops[i]))
	}
	c.Eval(m.curOp + 1)
	c.Feature("cat:" + in.Cat)
	c.Feature("recv:" + in.Recv.Kind)
	c.Feature(fmt.Sprintf("ops:%d", len(in.Ops)))
	for _, k := range shapeMods(&in) {
		c.Feature("mod:" + k)
	}
	for _, e := range want {
		if strings.HasPrefix(e, "throw:") {
			c.Feature("outcome:" + e)
		}
	}
	c.Sample(in)
	c.Nontrivial(classKey(&in, m))
}

// clipTo bounds got to n events when a sort observation follows (the events
// after n belong to the relational oracle).
func clipTo(got []string, n int, clip bool) []string {
	if clip && len(got) > n {
		return got[:n]
	}
	return got
}

func opName(op Op) string {
	if op.Op == "call" {
		return op.M
	}
	if op.Op == "ctor" {
		if op.New {
			return "new Array"
		}
		return "Array()"
	}
	return op.Op
}

// ------------------------------------------------------------ sort oracle

func checkSort(c *run.Ctx, in *Input, m *mrun, got []string) bool {
	opIdx := len(in.Ops) - 1
	for i, op := range in.Ops {
		if op.Op == "call" && op.M == "sort" {
			opIdx = i
			break
		}
	}
	op := in.Ops[opIdx]
	fin := &failIn{Input: *in, ottoEvents: got, upTo: m.sortAt}
	fail := func(exp, act, detail string) bool {
		c.Fail("mismatch", "Array.prototype.sort", fin, exp, act, detail)
		return false
	}
	ev := got[m.sortAt:]
	// layout: log, ret|throw, n x (log, el), log, rest
	if len(ev) < 2 {
		return fail("sort observation", strings.Join(ev, " ; "), "missing events")
	}
	logs := strings.Split(strings.TrimPrefix(ev[0], "log:"), "|")
	if ev[0] == "log:" {
		logs = nil
	}
	outcome := ev[1]
	cmpCalls := 0
	defined := map[string]bool{}
	for _, e := range m.sortPre {
		if e.present && e.v.K != refarr.KUndef {
			defined[m.dumpVal(e.v, 0)] = true
		}
	}
	var otherLog []string
	for _, l := range logs {
		switch {
		case strings.HasPrefix(l, "cmp:"):
			cmpCalls++
			if m.sortOK || m.sortOnlyIncons {
				parts := strings.Split(strings.TrimPrefix(l, "cmp:"), ",")
				if len(parts) != 3 || !defined[parts[0]] || !defined[parts[1]] || parts[2] != "G" {
					return fail("comparefn called with (x, y) two defined elements and this=undefined (15.4.4.11 SortCompare 13.b)", l, "")
				}
			}
		case strings.HasPrefix(l, "ts:"):
		default:
			otherLog = append(otherLog, l)
		}
	}
	if m.sortCB != nil && m.sortCB.ThrowAt >= 0 && m.sortCB.Kind == "cmp" {
		c.Feature("sort:thrower")
		if cmpCalls > m.sortCB.ThrowAt && outcome != `throw:V:"boom"` {
			return fail(`throw:V:"boom" (exception of comparefn propagates)`, outcome, "")
		}
		return true
	}
	if !m.sortOK && !m.sortOnlyIncons {
		c.Feature("sort:implementation-defined:" + m.sortWhy)
		return true
	}
	if outcome != "ret:R" {
		return fail("ret:R", outcome, "sort returns obj")
	}
	if strings.Join(otherLog, "|") != strings.Join(m.sortLog, "|") {
		return fail("log:"+strings.Join(m.sortLog, "|"), "log:"+strings.Join(otherLog, "|"), "conversion log of length")
	}
	n := m.sortLen
	if len(ev) != 2+2*n+2 {
		return fail(fmt.Sprintf("%d element observations", n), strings.Join(ev, " ; "), "layout")
	}
	byDump := map[string][]refarr.Value{}
	npres := 0
	for _, e := range m.sortPre {
		if e.present {
			npres++
			d := m.dumpVal(e.v, 0)
			byDump[d] = append(byDump[d], e.v)
		}
	}
	var post []refarr.Value
	var postS []string
	for i := 0; i < n; i++ {
		e := strings.TrimPrefix(ev[2+2*i+1], "el:")
		postS = append(postS, e)
		if i < npres {
			if !strings.HasPrefix(e, "own:") {
				return fail(fmt.Sprintf("indices 0..%d present, %d..%d deleted", npres-1, npres, n-1), strings.Join(postS, " "), "holes must end up last")
			}
			d := strings.TrimPrefix(e, "own:")
			vs := byDump[d]
			if len(vs) == 0 {
				return fail("a permutation of the elements before the call", strings.Join(postS, " "), "element "+d+" not (or no longer) available")
			}
			post = append(post, vs[0])
			byDump[d] = vs[1:]
		} else if e != "hole" {
			return fail(fmt.Sprintf("indices 0..%d present, %d..%d deleted", npres-1, npres, n-1), strings.Join(postS, " "), "holes must end up last")
		}
	}
	if rest := ev[len(ev)-1]; rest != m.sortRest {
		return fail(m.sortRest, rest, "non-element properties must be unchanged")
	}
	if !m.sortOK {
		c.Feature("sort:inconsistent-comparator(permutation only)")
		return true
	}
	skipped := false
	func() {
		defer func() {
			if e := recover(); e != nil {
				if _, ok := e.(refarr.Unsupported); ok {
					skipped = true
					return
				}
				panic(e)
			}
		}()
		for i := 0; i+1 < len(post); i++ {
			if r := m.r.SortCompare(post[i], post[i+1], m.sortCmp); r > 0 {
				fail("SortCompare(a[j],a[k]) <= 0 for j<k", strings.Join(postS, " "), fmt.Sprintf("elements %d,%d out of order (comparator %s)", i, i+1, cmpName(op)))
				skipped = true
				return
			}
		}
	}()
	c.Feature("sort:ordered-check:" + cmpName(op))
	return !skipped
}

func cmpName(op Op) string {
	if op.CB == nil {
		return "default"
	}
	if op.CB.Kind == "val" {
		return "undefined"
	}
	return op.CB.Ret
}
