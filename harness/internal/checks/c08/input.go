// Package c08 monitors Array objects and the Array.prototype methods against
// the step-by-step ES5.1 15.4 model in internal/refarr.
package c08

import "verif/internal/gen"

// V is a value specification, rendered once as JavaScript source for otto and
// once as a refarr value for the model.
//
//	u null b n s     primitives
//	hole             an elision (array literals only)
//	o                a plain object {} with identity Tag
//	vo               {valueOf: function(){LOG("vo:Tag"); return Ret}}
//	vom              the same, but valueOf pushes 99 onto the receiver before it returns
//	ts               {toString: function(){LOG("ts:Tag"); return Ret}}
//	tl               {toLocaleString: function(){LOG("tl:Tag"); return Ret}}
//	arr              an anonymous nested array literal of E
//	alike            an anonymous array-like {0:..,length:n} of E (not spread by concat)
//	R                the receiver, T the thisArg object, fn a plain function
type V struct {
	K   string `json:"k"`
	N   gen.F  `json:"n"` // no omitempty: -0 must survive the round trip
	S   string `json:"s,omitempty"`
	B   bool   `json:"b,omitempty"`
	Tag string `json:"tag,omitempty"`
	Ret *V     `json:"ret,omitempty"`
	E   []V    `json:"e,omitempty"`
}

// KV is an extra named property of a receiver.
type KV struct {
	Name string `json:"name"`
	Val  V      `json:"val"`
}

// Recv describes how the receiver R is built.
type Recv struct {
	// Kind: array (literal with elisions), alike ({..., length: Len}), string
	// (new String(S)), args (arguments object of a parameterless function),
	// prim (primitive P used directly as this value).
	Kind  string `json:"kind"`
	E     []V    `json:"e,omitempty"`
	Len   *V     `json:"len,omitempty"` // alike only; nil = no length property
	S     string `json:"s,omitempty"`
	P     *V     `json:"p,omitempty"`
	Extra []KV   `json:"extra,omitempty"`
}

// Mut is a side effect a callback performs on its third argument (the
// receiver object) when its invocation counter equals At.
type Mut struct {
	At  int    `json:"at"`
	Op  string `json:"op"` // push | pop | del | setlen | set
	Idx int    `json:"idx,omitempty"`
	Val *V     `json:"val,omitempty"`
}

// CB is a callback / comparator from the fixed family. Each member is defined
// twice: as JavaScript source (js.go: cbJS) and as a Go closure over the model
// (model.go: cbModel).
type CB struct {
	// Kind: fn (iteration callback (v,i,o)), red (reduce callback (a,v,i,o)),
	// cmp (comparator (x,y)), val (a non-callable value NonFn is passed).
	Kind string `json:"kind"`
	// Ret for fn: u v gt1 par true false cnt i; for red: a v i cnt;
	// for cmp: asc desc zero incons strasc.
	Ret     string `json:"ret,omitempty"`
	Mut     *Mut   `json:"mut,omitempty"`
	ThrowAt int    `json:"throwAt"` // invocation index at which it throws "boom"; -1 never
	NonFn   *V     `json:"nonfn,omitempty"`
}

// DescSpec is a property descriptor literal.
type DescSpec struct {
	Value *V    `json:"value,omitempty"`
	Get   *V    `json:"get,omitempty"` // getter logging "get:<name>" and returning this value
	// GetDel: the getter first deletes this index of the receiver (when it is configurable): the order
	// of [[Get]] and [[HasProperty]] inside a method becomes observable
	GetDel *int `json:"getdel,omitempty"`
	Set   bool  `json:"set,omitempty"` // setter logging "set:<name>=<value>"
	W     *bool `json:"w,omitempty"`
	E     *bool `json:"e,omitempty"`
	C     *bool `json:"c,omitempty"`
}

// Op is one observed operation.
type Op struct {
	// Op: call (Array.prototype[M].call(R, [CB,] Args...)), set (On[Name]=Val),
	// define (Object.defineProperty(On, Name, D)), delete (delete On[Name]),
	// freeze | seal | pe (Object.freeze/seal/preventExtensions(On)),
	// ctor (Array(Args...) or new Array(Args...)), isArray (Array.isArray(Args[0])).
	Op   string    `json:"op"`
	On   string    `json:"on,omitempty"` // R (default) | AP | OP
	M    string    `json:"m,omitempty"`
	Args []V       `json:"args,omitempty"`
	CB   *CB       `json:"cb,omitempty"`
	Name string    `json:"name,omitempty"`
	Val  *V        `json:"val,omitempty"`
	D    *DescSpec `json:"d,omitempty"`
	New  bool      `json:"new,omitempty"`
}

// Input is one self-contained case: a receiver and a short history.
type Input struct {
	Cat  string `json:"cat"` // generator category (evidence only)
	Recv Recv   `json:"recv"`
	Ops  []Op   `json:"ops"`
}

func vU() V           { return V{K: "u"} }
func vN(n float64) V  { return V{K: "n", N: gen.F(n)} }
func vS(s string) V   { return V{K: "s", S: s} }
func vHole() V        { return V{K: "hole"} }
func pV(v V) *V       { return &v }
func pB(b bool) *bool { return &b }
func (o Op) on() string {
	if o.On == "" {
		return "R"
	}
	return o.On
}
