// devcmd is a private harness binary that links only the C08 check (useful
// while sibling check packages are mid-edit and cmd/ottocheck does not build).
//
//	devcmd case <seed> <idx> [nootto]     print one generated case
//	devcmd input '<json>'                 print one explicit input
package main

import (
	"fmt"
	"os"
	"strconv"

	"verif/internal/checks/c08"
	"verif/internal/run"
)

func main() {
	if len(os.Args) > 1 && os.Args[1] == "case" {
		seed, _ := strconv.ParseUint(os.Args[2], 10, 64)
		idx, _ := strconv.Atoi(os.Args[3])
		fmt.Print(c08.DebugCase(seed, idx, len(os.Args) < 5, ""))
		return
	}
	if len(os.Args) > 1 && os.Args[1] == "bench" {
		seed, _ := strconv.ParseUint(os.Args[2], 10, 64)
		n, _ := strconv.Atoi(os.Args[3])
		fmt.Print(c08.DebugBench(seed, n))
		return
	}
	if len(os.Args) > 1 && os.Args[1] == "input" {
		fmt.Print(c08.DebugCase(0, 0, len(os.Args) < 4, os.Args[2]))
		return
	}
	run.Main()
}
