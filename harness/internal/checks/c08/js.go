package c08

import (
	"fmt"
	"strings"

	"verif/internal/ox"
)

// prelude is the canonical dumper. It deliberately avoids JavaScript arrays
// and number/string conversions of the implementation under test for its own
// bookkeeping: numbers and strings are rendered by host functions (NUM, QS),
// identities are kept host-side (REG/IDOF), logs go through the host (L), key
// lists are sorted host-side (SJ).
const prelude = `
var G = this;
REG("G", G);
var OTS = Object.prototype.toString, GOPN = Object.getOwnPropertyNames, GOPD = Object.getOwnPropertyDescriptor, ISX = Object.isExtensible;
function CLS(o) { return OTS.call(o); }
function D(v, depth) {
  if (v === undefined) return "u";
  if (v === null) return "null";
  var t = typeof v;
  if (t === "boolean") return v ? "true" : "false";
  if (t === "number") return NUM(v);
  if (t === "string") return QS(v);
  var id = IDOF(v);
  if (id) return id;
  if (t === "function") return "fn";
  if (depth > 3) return "...";
  return DO(v, depth + 1, "");
}
function DD(d, depth, mask) {
  var f = (mask ? "?" : (d.enumerable ? "e" : "-")) + (d.configurable ? "c" : "-");
  if ("value" in d) return (d.writable ? "w" : "-") + f + " " + D(d.value, depth);
  return "A" + (d.get ? "g" : "-") + (d.set ? "s" : "-") + f;
}
function DO(o, depth, filt) {
  var names = GOPN(o), s = "", c = CLS(o), n = names.length;
  for (var i = 0; i < n; i++) {
    var k = names[i];
    if (!KEEP(filt, k)) continue;
    s += "\x01" + QS(k) + ":" + DD(GOPD(o, k), depth, c === "[object String]" && k !== "length");
  }
  return c + (ISX(o) ? "" : "!x") + "{" + SJ(s) + "}";
}
function ERR(e) { return (e instanceof Error) ? "E:" + e.name : "V:" + D(e, 0); }
function TH(t) {
  if (t === G) return "G";
  var id = IDOF(t);
  return id ? id : typeof t + ":" + CLS(t);
}
function OBJ(tag) { var o = {}; REG(tag, o); return o; }
function VOM(tag, ret) { var o = {valueOf: function () { L("vom:" + tag); Array.prototype.push.call(R, 99); return ret; }}; REG(tag, o); return o; }
function VO(tag, ret) { var o = {valueOf: function () { L("vo:" + tag); return ret; }}; REG(tag, o); return o; }
function TS(tag, ret) { var o = {toString: function () { L("ts:" + tag); return ret; }}; REG(tag, o); return o; }
function TL(tag, ret) { var o = {toLocaleString: function () { L("tl:" + tag); return ret; }}; REG(tag, o); return o; }
function ISO(v) { return (typeof v === "object" && v !== null) || typeof v === "function"; }
BASE("AP", GOPN(Array.prototype).join("\x01"));
BASE("OP", GOPN(Object.prototype).join("\x01"));
`

func walkV(v *V, f func(*V)) {
	if v == nil {
		return
	}
	f(v)
	walkV(v.Ret, f)
	for i := range v.E {
		walkV(&v.E[i], f)
	}
}

// walkInput visits every value specification of an input in a fixed order.
func walkInput(in *Input, f func(*V)) {
	for i := range in.Recv.E {
		walkV(&in.Recv.E[i], f)
	}
	walkV(in.Recv.Len, f)
	walkV(in.Recv.P, f)
	for i := range in.Recv.Extra {
		walkV(&in.Recv.Extra[i].Val, f)
	}
	for i := range in.Ops {
		op := &in.Ops[i]
		for j := range op.Args {
			walkV(&op.Args[j], f)
		}
		walkV(op.Val, f)
		if op.D != nil {
			walkV(op.D.Value, f)
			walkV(op.D.Get, f)
		}
		if op.CB != nil {
			walkV(op.CB.NonFn, f)
			if op.CB.Mut != nil {
				walkV(op.CB.Mut.Val, f)
			}
		}
	}
}

func isTagged(k string) bool { return k == "o" || k == "vo" || k == "ts" || k == "tl" || k == "vom" }

func usesProto(in *Input) bool {
	for _, op := range in.Ops {
		if op.on() != "R" {
			return true
		}
	}
	return false
}

func arrJS(es []V) string {
	var b strings.Builder
	b.WriteByte('[')
	for i, e := range es {
		if i > 0 {
			b.WriteByte(',')
		}
		if e.K != "hole" {
			b.WriteString(valJS(e))
		}
	}
	if len(es) > 0 && es[len(es)-1].K == "hole" {
		b.WriteByte(',')
	}
	b.WriteByte(']')
	return b.String()
}

func alikeJS(es []V, length *V, extra []KV) string {
	var parts []string
	for i, e := range es {
		if e.K != "hole" {
			parts = append(parts, fmt.Sprintf("%q:%s", fmt.Sprint(i), valJS(e)))
		}
	}
	if length != nil {
		parts = append(parts, `"length":`+valJS(*length))
	}
	for _, kv := range extra {
		parts = append(parts, ox.JSStr(kv.Name)+":"+valJS(kv.Val))
	}
	return "({" + strings.Join(parts, ",") + "})"
}

func valJS(v V) string {
	switch v.K {
	case "u":
		return "undefined"
	case "null":
		return "null"
	case "b":
		if v.B {
			return "true"
		}
		return "false"
	case "n":
		return ox.JSNum(float64(v.N))
	case "s":
		return ox.JSStr(v.S)
	case "o", "vo", "ts", "tl", "vom":
		return v.Tag
	case "arr":
		return arrJS(v.E)
	case "alike":
		ln := vN(float64(len(v.E)))
		return alikeJS(v.E, &ln, nil)
	case "R":
		return "R"
	case "T":
		return "T"
	case "fn":
		return "(function(){})"
	}
	panic("valJS: unknown kind " + v.K)
}

func mutJS(m *Mut) string {
	if m == nil {
		return ""
	}
	var act string
	switch m.Op {
	case "push":
		act = "Array.prototype.push.call(o," + valJS(*m.Val) + ")"
	case "pop":
		act = "Array.prototype.pop.call(o)"
	case "del":
		act = fmt.Sprintf("delete o[%d]", m.Idx)
	case "setlen":
		act = fmt.Sprintf("o.length=%d", m.Idx)
	case "set":
		act = fmt.Sprintf("o[%d]=%s", m.Idx, valJS(*m.Val))
	default:
		panic("mutJS: " + m.Op)
	}
	return fmt.Sprintf("if(n===%d){%s;}", m.At, act)
}

// cbJS renders a member of the callback family as JavaScript source. The Go
// twin of every member is cbModel in model.go.
func cbJS(cb *CB) string {
	thr := ""
	if cb.ThrowAt >= 0 {
		thr = fmt.Sprintf(`if(n===%d){throw "boom";}`, cb.ThrowAt)
	}
	switch cb.Kind {
	case "val":
		return valJS(*cb.NonFn)
	case "fn":
		ret := map[string]string{"u": "undefined", "v": "v", "gt1": `(typeof v==="number"&&v>1)`, "par": "(i%2===0)",
			"true": "true", "false": "false", "cnt": "n", "i": "i"}[cb.Ret]
		if ret == "" {
			panic("cbJS fn ret " + cb.Ret)
		}
		return `(function(){var c=0;return function(v,i,o){var n=c++;L("cb:"+D(v,0)+","+typeof i+","+D(i,0)+","+TH(o)+","+TH(this));` +
			mutJS(cb.Mut) + thr + `return ` + ret + `;};})()`
	case "red":
		ret := map[string]string{"a": "a", "v": "v", "i": "i", "cnt": "n"}[cb.Ret]
		if ret == "" {
			panic("cbJS red ret " + cb.Ret)
		}
		return `(function(){var c=0;return function(a,v,i,o){var n=c++;L("cb:"+D(a,0)+","+D(v,0)+","+typeof i+","+D(i,0)+","+TH(o)+","+TH(this));` +
			mutJS(cb.Mut) + thr + `return ` + ret + `;};})()`
	case "cmp":
		ret := map[string]string{"asc": "(x<y?-1:(x>y?1:0))", "desc": "(x<y?1:(x>y?-1:0))", "zero": "0",
			"incons": "((n%3)-1)", "strasc": `(x<y?"-1":(x>y?"1":"0"))`}[cb.Ret]
		if ret == "" {
			panic("cbJS cmp ret " + cb.Ret)
		}
		return `(function(){var c=0;return function(x,y){var n=c++;L("cmp:"+D(x,0)+","+D(y,0)+","+TH(this));` + thr + `return ` + ret + `;};})()`
	}
	panic("cbJS kind " + cb.Kind)
}

func targetJS(on string) string {
	switch on {
	case "AP":
		return "Array.prototype"
	case "OP":
		return "Object.prototype"
	}
	return "R"
}

func descJS(name string, d *DescSpec) string {
	var parts []string
	if d.Value != nil {
		parts = append(parts, "value:"+valJS(*d.Value))
	}
	if d.Get != nil {
		del := ""
		if d.GetDel != nil {
			del = fmt.Sprintf("delete R[%d];", *d.GetDel)
		}
		parts = append(parts, fmt.Sprintf(`get:function(){L("get:"+%s);%sreturn %s;}`, ox.JSStr(name), del, valJS(*d.Get)))
	}
	if d.Set {
		parts = append(parts, fmt.Sprintf(`set:function(v){L("set:"+%s+"="+D(v,0));}`, ox.JSStr(name)))
	}
	flag := func(n string, b *bool) {
		if b != nil {
			parts = append(parts, fmt.Sprintf("%s:%v", n, *b))
		}
	}
	flag("writable", d.W)
	flag("enumerable", d.E)
	flag("configurable", d.C)
	return "{" + strings.Join(parts, ",") + "}"
}

// opJS renders one op. sortLen is the element range for the sort observation.
func opJS(op Op, proto bool, sortLen int) string {
	var b strings.Builder
	tgt := targetJS(op.on())
	try := func(body string) {
		b.WriteString("try{" + body + "}catch(e){OUT(\"throw\",ERR(e));}\n")
	}
	switch op.Op {
	case "call":
		var args []string
		if op.CB != nil {
			args = append(args, cbJS(op.CB))
		}
		for _, a := range op.Args {
			args = append(args, valJS(a))
		}
		call := "Array.prototype." + op.M + ".call(" + strings.Join(append([]string{"R"}, args...), ",") + ")"
		try("var r=" + call + ";OUT(\"ret\",D(r,0));")
		if op.M == "sort" {
			fmt.Fprintf(&b, "if(ISO(R)){SETLEN(%d);for(var i=0;i<%d;i++){OUT(\"el\",(i in R)?(R.hasOwnProperty(i)?\"own:\":\"inh:\")+D(R[i],0):\"hole\");}OUT(\"rest\",DO(R,0,\"sort\"));}\n", sortLen, sortLen)
			return b.String()
		}
	case "set":
		try(tgt + "[" + ox.JSStr(op.Name) + "]=" + valJS(*op.Val) + ";OUT(\"ret\",\"ok\");")
	case "define":
		try("Object.defineProperty(" + tgt + "," + ox.JSStr(op.Name) + "," + descJS(op.Name, op.D) + ");OUT(\"ret\",\"ok\");")
	case "delete":
		try("OUT(\"ret\",D(delete " + tgt + "[" + ox.JSStr(op.Name) + "],0));")
	case "freeze":
		try("Object.freeze(" + tgt + ");OUT(\"ret\",\"ok\");")
	case "seal":
		try("Object.seal(" + tgt + ");OUT(\"ret\",\"ok\");")
	case "pe":
		try("Object.preventExtensions(" + tgt + ");OUT(\"ret\",\"ok\");")
	case "ctor":
		var args []string
		for _, a := range op.Args {
			args = append(args, valJS(a))
		}
		kw := ""
		if op.New {
			kw = "new "
		}
		try("var r=" + kw + "Array(" + strings.Join(args, ",") + ");OUT(\"ret\",D(r,0));")
	case "isArray":
		var args []string
		for _, a := range op.Args {
			args = append(args, valJS(a))
		}
		try("OUT(\"ret\",D(Array.isArray(" + strings.Join(args, ",") + "),0));")
	default:
		panic("opJS: " + op.Op)
	}
	b.WriteString("if(ISO(R))OUT(\"R\",DO(R,0,\"\"));\n")
	if proto {
		b.WriteString("OUT(\"AP\",DO(Array.prototype,0,\"AP\"));OUT(\"OP\",DO(Object.prototype,0,\"OP\"));\n")
	}
	return b.String()
}

// setupJS renders the declarations of tagged objects, T and the receiver.
func setupJS(in *Input) string {
	var b strings.Builder
	seen := map[string]bool{}
	walkInput(in, func(v *V) {
		if !isTagged(v.K) || seen[v.Tag] {
			return
		}
		seen[v.Tag] = true
		switch v.K {
		case "o":
			fmt.Fprintf(&b, "var %s=OBJ(%q);\n", v.Tag, v.Tag)
		case "vo":
			fmt.Fprintf(&b, "var %s=VO(%q,%s);\n", v.Tag, v.Tag, valJS(*v.Ret))
		case "vom":
			fmt.Fprintf(&b, "var %s=VOM(%q,%s);\n", v.Tag, v.Tag, valJS(*v.Ret))
		case "ts":
			fmt.Fprintf(&b, "var %s=TS(%q,%s);\n", v.Tag, v.Tag, valJS(*v.Ret))
		case "tl":
			fmt.Fprintf(&b, "var %s=TL(%q,%s);\n", v.Tag, v.Tag, valJS(*v.Ret))
		}
	})
	b.WriteString("var T=OBJ(\"T\");\n")
	rc := in.Recv
	switch rc.Kind {
	case "array":
		b.WriteString("var R=" + arrJS(rc.E) + ";\n")
		for _, kv := range rc.Extra {
			b.WriteString("R[" + ox.JSStr(kv.Name) + "]=" + valJS(kv.Val) + ";\n")
		}
	case "alike":
		b.WriteString("var R=" + alikeJS(rc.E, rc.Len, rc.Extra) + ";\n")
	case "string":
		b.WriteString("var R=new String(" + ox.JSStr(rc.S) + ");\n")
		for _, kv := range rc.Extra {
			b.WriteString("R[" + ox.JSStr(kv.Name) + "]=" + valJS(kv.Val) + ";\n")
		}
	case "args":
		var a []string
		for _, e := range rc.E {
			a = append(a, valJS(e))
		}
		b.WriteString("var R=(function(){return arguments;})(" + strings.Join(a, ",") + ");\n")
		for _, kv := range rc.Extra {
			b.WriteString("R[" + ox.JSStr(kv.Name) + "]=" + valJS(kv.Val) + ";\n")
		}
	case "prim":
		b.WriteString("var R=" + valJS(*rc.P) + ";\n")
	default:
		panic("setupJS recv kind " + rc.Kind)
	}
	b.WriteString("if(ISO(R)){REG(\"R\",R);OUT(\"R\",DO(R,0,\"\"));}\n")
	return b.String()
}
