package c05

func registerMatchers() {}
