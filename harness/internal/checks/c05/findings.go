package c05

import (
	"math"
	"math/big"
	"strings"

	"verif/internal/refjs"
	"verif/internal/run"
)

// bigIntKindDigits is the deviation model of KF-C05-go-int64-exact-digits: a
// number injected through Otto.Set as a Go int/int64/uint/uint64 beyond 2^53
// keeps its integer kind inside otto and is converted to text with all its
// decimal digits instead of the 9.8.1 shortest form. A failing line is
// attributed only if replacing the 9.8.1 text of that operand by its exact
// integer digits in the expected line gives exactly otto's line.
func bigIntKindDigits(f *run.Failure) bool {
	in, ok := f.In.(Input)
	if !ok || f.Kind != "mismatch" {
		return false
	}
	exp := f.Expected
	changed := false
	for _, v := range []Val{in.A, in.B} {
		switch v.Go {
		case "int", "int64", "uint", "uint64":
		default:
			continue
		}
		x := float64(v.F)
		if math.Abs(x) <= 9007199254740992 || math.IsInf(x, 0) || x != x {
			continue
		}
		spec := refjs.NumberToString(x)
		exact := new(big.Float).SetFloat64(x).Text('f', 0)
		if strings.Contains(exp, spec) {
			exp = strings.ReplaceAll(exp, spec, exact)
			changed = true
		}
	}
	return changed && exp == f.Actual
}

func registerMatchers() {
	run.RegisterMatcher("c05.dev.goInt64ExactDigits", bigIntKindDigits)
}
