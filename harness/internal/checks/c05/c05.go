// Package c05 monitors type conversion and operators (ES5 clauses 9 and 11)
// over a dense boundary set of operand pairs. Each case is a small program
// (built as a gt tree) applying every operator to one operand pair; the
// reference model interprets the same tree, and the host-call traces —
// including the order of valueOf/toString side effects — are compared line by
// line.
package c05

import (
	"encoding/json"
	"fmt"
	"math"
	"strings"

	"github.com/robertkrimen/otto"

	"verif/internal/gen"
	. "verif/internal/gt"
	"verif/internal/ox"
	"verif/internal/refjs"
	"verif/internal/run"
)

// Val describes one operand.
type Val struct {
	K  string `json:"k"` // num | str | bool | null | undef | obj | arr | fn | date
	F  gen.F  `json:"f,omitempty"`
	S  string `json:"s,omitempty"`
	B  bool   `json:"b,omitempty"`
	VO string `json:"vo,omitempty"` // obj: valueOf behaviour: n:<num> | s:<str> | obj | throw | absent | undef | null | b:true | acc:<one of these> (accessor with a logging getter) | inst:<prim> (returns an object after installing the other method)
	TS string `json:"ts,omitempty"` // obj: toString behaviour
	// Go: inject through Otto.Set with this Go kind instead of a literal
	Go string `json:"go,omitempty"`
}

// Input is one self-contained case.
type Input struct {
	A, B Val
	Ops  []string `json:"ops,omitempty"` // restrict to these operators (replay of one failure)
}

var numBoundary []float64
var strBoundary = []string{"", " ", "\t\n 12  ", "0x1F", "0X1f", "-0x1", "+0x1", "1e3", "1e", ".5", "5.", ".", "+.5", "-", "+", "Infinity", "-Infinity", "+Infinity", "infinity", "inf", "NaN", "nan", "1_0", "0b1", "0o7", "010", "1,2", "1 2",
	"2147483647", "2147483648", "4294967295", "4294967296", "9007199254740992", "9007199254740993", "-1", "-0", "0", "1", "10", "9", "a", "b", "ab", "A", "é", "\U00010000", "\uffff", " 1\ufeff", "\u20281", "1\u0000", "true", "null", "undefined", "[object Object]", "1.5", "-1.5", "1e21", "1e-7", "12px", "0x", "0xg", "1e1000", "-1e1000"}

func init() {
	add := func(f float64) { numBoundary = append(numBoundary, f, -f) }
	for _, f := range []float64{0, 1, 0.5, 1.5, 2.5, 2, 3, 7, 10, 31, 32, 33, 63, 64, 100, 255, 256, 1e21, 1e-7, 1e-6, 123456789, 0.1, 1 / 3.0, math.MaxFloat64, math.SmallestNonzeroFloat64, 2.2250738585072014e-308, math.Inf(1)} {
		add(f)
	}
	for _, k := range []int{8, 15, 16, 31, 32, 33, 52, 53, 54, 63, 64, 65, 1023} {
		p := math.Ldexp(1, k)
		add(p)
		add(p - 1)
		add(p + 1)
		add(math.Nextafter(p, 0))
		add(math.Nextafter(p, math.Inf(1)))
	}
	add(2147483647.5)
	add(4294967295.5)
	add(2684354560) // > 2^31, < 2^32
	add(6442450944) // > 2^32
	add(9223372036854777856)
	numBoundary = append(numBoundary, math.NaN())
	universe = allVals()
	run.Register(&run.Check{
		ID:   "C05",
		Rule: "each case applies all 23 binary operators (and the unary/logical/conditional forms) to one ordered operand pair from the boundary set (IEEE specials, powers of two and neighbours up to 2^1023, values beyond 2^31/2^32/2^53/2^63, numeric/malformed strings incl. every white-space kind, booleans, null, undefined, objects with scripted valueOf/toString incl. throwing and object-returning ones, arrays, functions are excluded); operands arrive as literals or through Otto.Set with every Go numeric kind; a case is non-trivial when the pair is not (number literal, number literal) with both small integers; distinct by (class(a), class(b)) cell and exact pair",
		Assumptions: []string{
			"oracle: internal/refjs clauses 9 and 11 (same interpreter as C01) on the tree that was rendered for otto",
			"decimal->double of numeric strings and number->string digits inside the model use strconv (the independent big-number oracle is C06's refnum)",
			"Date operands (string-hint ToPrimitive) are covered through objects whose toString/valueOf are scripted; real Date objects are left to C12",
		},
		Floor: func(tier string) int {
			if tier == "thorough" {
				return 100000
			}
			return 5000
		},
		Cases:  cases,
		Exec:   func(c *run.Ctx, i int) { checkOne(c, generate(c.Rng, c.Tier, i)) },
		Replay: func(c *run.Ctx, raw json.RawMessage) { var in Input; must(json.Unmarshal(raw, &in)); checkOne(c, in) },
	})
	registerMatchers()
}

func must(err error) {
	if err != nil {
		panic(err)
	}
}

var otherVals = []Val{
	{K: "bool", B: true}, {K: "bool", B: false}, {K: "null"}, {K: "undef"},
	{K: "obj", VO: "n:7", TS: "s:str"},
	{K: "obj", VO: "s:12", TS: "n:3"},
	{K: "obj", VO: "obj", TS: "s:5"},
	{K: "obj", VO: "obj", TS: "obj"},
	{K: "obj", VO: "throw", TS: "s:x"},
	{K: "obj", VO: "n:1", TS: "throw"},
	{K: "obj", VO: "absent", TS: "s: 2 "},
	{K: "obj", VO: "absent", TS: "absent"},
	{K: "obj", VO: "undef", TS: "s:t"},
	{K: "obj", VO: "null", TS: "s:t"},
	{K: "obj", VO: "b:true", TS: "s:t"},
	{K: "obj", VO: "n:NaN", TS: "s:t"},
	{K: "obj", VO: "n:-0", TS: "s:t"},
	{K: "obj", VO: "s:", TS: "s:t"},
	// 8.12.8 looks each method up only when its step is reached
	{K: "obj", VO: "acc:n:7", TS: "acc:s:str"},
	{K: "obj", VO: "acc:obj", TS: "acc:s:9"},
	{K: "obj", VO: "inst:n:24", TS: "obj"},
	{K: "obj", VO: "obj", TS: "inst:s:7"},
	{K: "arr", S: ""}, {K: "arr", S: "5"}, {K: "arr", S: "1,2"},
	{K: "fn"},
	// objects of the fixed prelude (see Build): operands for which instanceof and in do
	// not end in a TypeError
	{K: "ref", S: "PF"}, {K: "ref", S: "pfi"}, {K: "ref", S: "pfp"}, {K: "ref", S: "PG"}, {K: "ref", S: "pgi"}, {K: "ref", S: "keyobj"}, {K: "ref", S: "bareproto"},
	// bound functions: [[HasInstance]] is the target's (15.3.4.5.3)
	{K: "ref", S: "PFb"}, {K: "ref", S: "PGb"},
}

var goKinds = []string{"float64", "float32", "int", "int8", "int16", "int32", "int64", "uint", "uint8", "uint16", "uint32", "uint64", "string"}

func allVals() []Val {
	var vs []Val
	for _, f := range numBoundary {
		vs = append(vs, Val{K: "num", F: gen.F(f)})
	}
	for _, s := range strBoundary {
		vs = append(vs, Val{K: "str", S: s})
	}
	return append(vs, otherVals...)
}

var universe []Val

func cases(tier string, seed uint64) int {
	n := len(universe)
	if tier == "thorough" {
		return n*n + 2000000
	}
	return len(otherVals)*len(otherVals) + n*n/3 + 6000
}

func generate(r *gen.Rand, tier string, i int) Input {
	n := len(universe)
	full := n * n
	if tier != "thorough" {
		// quick: the whole (object-like x object-like) block always, because its
		// cells are all different mechanisms, then a third of the full product
		m := len(otherVals)
		if i < m*m {
			return Input{A: otherVals[i/m], B: otherVals[i%m]}
		}
		i -= m * m
		full = n * n / 3
	}
	if i < full {
		var k int
		if tier == "thorough" {
			k = i
		} else {
			// a PRNG-chosen third of the full product (different third per seed)
			k = (i*3 + r.Intn(3)) % (n * n)
		}
		return Input{A: universe[k/n], B: universe[k%n]}
	}
	// remaining cases: Go-kind injection and random doubles
	a, b := universe[r.Intn(n)], universe[r.Intn(n)]
	pickGo := func(v Val) Val {
		switch v.K {
		case "num":
			v.Go = goKinds[r.Intn(len(goKinds)-1)]
			if !fits(float64(v.F), v.Go) {
				v.Go = "float64"
			}
		case "str":
			v.Go = "string"
		}
		return v
	}
	switch r.Intn(4) {
	case 0:
		a = pickGo(a)
	case 1:
		b = pickGo(b)
	case 2:
		a, b = pickGo(a), pickGo(b)
	default:
		a = Val{K: "num", F: gen.F(r.Bits())}
		if r.Bool() {
			b = Val{K: "num", F: gen.F(r.Bits())}
		}
	}
	return Input{A: a, B: b}
}

// fits reports whether f is exactly representable in the Go kind.
func fits(f float64, kind string) bool {
	if f != f || math.IsInf(f, 0) {
		return kind == "float64" || kind == "float32"
	}
	if f == 0 && math.Signbit(f) {
		return kind == "float64" || kind == "float32"
	}
	in := func(lo, hi float64) bool { return f == math.Trunc(f) && f >= lo && f <= hi }
	switch kind {
	case "float64":
		return true
	case "float32":
		return float64(float32(f)) == f
	case "int", "int64":
		return in(-9223372036854775808, 9223372036854774784)
	case "int8":
		return in(-128, 127)
	case "int16":
		return in(-32768, 32767)
	case "int32":
		return in(-2147483648, 2147483647)
	case "uint", "uint64":
		return in(0, 18446744073709549568)
	case "uint8":
		return in(0, 255)
	case "uint16":
		return in(0, 65535)
	case "uint32":
		return in(0, 4294967295)
	}
	return false
}

func goValue(v Val) interface{} {
	f := float64(v.F)
	switch v.Go {
	case "float64":
		return f
	case "float32":
		return float32(f)
	case "int":
		return int(f)
	case "int8":
		return int8(f)
	case "int16":
		return int16(f)
	case "int32":
		return int32(f)
	case "int64":
		return int64(f)
	case "uint":
		return uint(f)
	case "uint8":
		return uint8(f)
	case "uint16":
		return uint16(f)
	case "uint32":
		return uint32(f)
	case "uint64":
		return uint64(f)
	case "string":
		return v.S
	}
	panic("bad go kind")
}

func class(v Val) string {
	switch v.K {
	case "num":
		f := float64(v.F)
		a := math.Abs(f)
		switch {
		case f != f:
			return "nan"
		case math.IsInf(f, 0):
			return "inf"
		case f == 0:
			if math.Signbit(f) {
				return "-0"
			}
			return "+0"
		case a < 1:
			return "frac<1"
		case f != math.Trunc(f):
			return "frac"
		case a < 2147483648:
			return "int<2^31"
		case a < 4294967296:
			return "int<2^32"
		case a <= 9007199254740992:
			return "int<=2^53"
		case a < 9223372036854775808:
			return "int<2^63"
		}
		return "int>=2^63"
	case "str":
		n := refjs.StringToNumber(v.S)
		if n != n {
			return "str-nan"
		}
		if strings.TrimSpace(v.S) != v.S || v.S == "" {
			return "str-ws-num"
		}
		return "str-num"
	case "obj":
		return "obj:" + strings.SplitN(v.VO, ":", 2)[0] + "/" + strings.SplitN(v.TS, ":", 2)[0]
	case "ref":
		return "ref:" + v.S
	}
	return v.K
}

// ---------------------------------------------------------------- tree building

func primNode(spec string) Node {
	k, rest, _ := strings.Cut(spec, ":")
	switch k {
	case "n":
		switch rest {
		case "NaN":
			return N(math.NaN())
		case "-0":
			return N(math.Copysign(0, -1))
		}
		var f float64
		fmt.Sscan(rest, &f)
		return N(f)
	case "s":
		return S(rest)
	case "b":
		return B(rest == "true")
	case "undef":
		return Undef()
	case "null":
		return &Null{}
	case "obj":
		return ObjL()
	}
	panic("bad prim spec " + spec)
}

func convMethod(tag, name, spec string) (Prop, bool) {
	if spec == "absent" {
		return Prop{}, false
	}
	other := "toString"
	if name == "toString" {
		other = "valueOf"
	}
	switch {
	case strings.HasPrefix(spec, "acc:"):
		// the method is an accessor property: 8.12.8 reads it ([[Get]]) exactly when the
		// step that calls it is reached, so the getter's log line fixes when and whether
		p, _ := convMethod(tag, name, spec[4:])
		return Getter(name, Log(S(tag+"."+name+" get")), Ret(p.Value)), true
	case strings.HasPrefix(spec, "inst:"):
		// returns an object (so 8.12.8 goes on to the other method) after installing that
		// other method on the receiver; the installed method removes itself again, so every
		// conversion of the operand starts from the same state
		inner := FnE("", nil, Log(S(tag+"."+other+"*")), ES(Un("delete", Dot(&This{}, other))), Ret(primNode(spec[5:])))
		return P(name, FnE("", nil, Log(S(tag+"."+name)), ES(Asg(Dot(&This{}, other), inner)), Ret(ObjL()))), true
	}
	body := []Node{Log(S(tag + "." + name))}
	if spec == "throw" {
		body = append(body, Thr(NewE(Id("RangeError"), S("conv"))))
	} else {
		body = append(body, Ret(primNode(spec)))
	}
	return P(name, FnE("", nil, body...)), true
}

func strNode(s string) Node {
	// ASCII raw, other BMP characters as \uXXXX escapes, astral characters as
	// raw UTF-8 (so the operand does not depend on surrogate-pair escapes)
	raw := `"`
	for _, c := range s {
		switch {
		case c == '"' || c == '\\':
			raw += `\` + string(c)
		case c >= 0x20 && c < 0x7f:
			raw += string(c)
		case c < 0x10000:
			raw += fmt.Sprintf("\\u%04X", c)
		default:
			raw += string(c)
		}
	}
	return &Str{V: s, Raw: raw + `"`}
}

func valNode(v Val, tag string) Node {
	if v.Go != "" {
		return Id("$" + tag)
	}
	switch v.K {
	case "num":
		return N(float64(v.F))
	case "str":
		return strNode(v.S)
	case "bool":
		return B(v.B)
	case "null":
		return &Null{}
	case "undef":
		return Undef()
	case "obj":
		var ps []Prop
		if p, ok := convMethod(tag, "valueOf", v.VO); ok {
			ps = append(ps, p)
		}
		if p, ok := convMethod(tag, "toString", v.TS); ok {
			ps = append(ps, p)
		}
		return ObjL(ps...)
	case "arr":
		if v.S == "" {
			return Arr()
		}
		var el []Node
		for _, p := range strings.Split(v.S, ",") {
			var f float64
			fmt.Sscan(p, &f)
			el = append(el, N(f))
		}
		return Arr(el...)
	case "fn":
		return FnE("", nil)
	case "ref":
		return Id(v.S)
	}
	panic("bad val kind " + v.K)
}

var unaryOps = []string{"-", "+", "~", "!", "typeof", "void"}

// Build returns the program for a case and the operator of each logged line group.
func Build(in Input) *Program {
	a, b := Id("a"), Id("b")
	// fixed prelude: constructors with instances, a constructor whose prototype is
	// an instance of another, the prototype objects themselves, an object keyed by
	// the strings that ToString yields for the primitive operands. The functions
	// carry their own toString so that converting them never reaches the
	// implementation-defined Function.prototype.toString.
	named := func(name string) Node {
		return ES(Asg(Dot(Id(name), "toString"), FnE("", nil, Ret(S(name)))))
	}
	body := []Node{
		FnD("PF", nil), named("PF"), V("pfi", NewE(Id("PF"))), V("pfp", Dot(Id("PF"), "prototype")),
		FnD("PG", nil), named("PG"), ES(Asg(Dot(Id("PG"), "prototype"), Id("pfi"))), V("pgi", NewE(Id("PG"))),
		V("bareproto", CallE(Dot(Id("Object"), "create"), &Null{})),
		V("PFb", CallE(Dot(Id("PF"), "bind"), &Null{})), named("PFb"), V("PGb", CallE(Dot(Id("PG"), "bind"), Id("keyobj"), N(1))), named("PGb"),
		V("keyobj", ObjL(P("1", N(1)), P("a", N(2)), P("", N(3)), P("NaN", N(4)), P("undefined", N(5)), P("null", N(6)), P("true", N(7)), P("12", N(8)), P("Infinity", N(9)), P("-1", N(10)), P("0", N(11)), P("1e+21", N(12)), P("str", N(13)), P("PF", N(14)))),
		V("a", valNode(in.A, "a")), V("b", valNode(in.B, "b")),
	}
	want := func(op string) bool {
		if len(in.Ops) == 0 {
			return true
		}
		for _, o := range in.Ops {
			if o == op {
				return true
			}
		}
		return false
	}
	wrap := func(op string, e Node) {
		if !want(op) {
			return
		}
		body = append(body, TryC(Blk(Log(S(op), e)), "e", Blk(Log(S(op+" threw"), Dot(Id("e"), "name"))), nil))
	}
	for _, op := range BinOps {
		wrap(op, Bin(op, a, b))
	}
	for _, op := range unaryOps {
		wrap("u"+op, Un(op, a))
	}
	wrap("?:", Tern(a, N(1), N(2)))
	wrap("Number", CallN("Number", a))
	wrap("String", CallN("String", a))
	wrap("Boolean", CallN("Boolean", a))
	wrap("+=", Seq(AsgOp("+=", Id("a"), b), a))
	return &Program{Body: body}
}

var vm *otto.Otto
var lg *ox.Logger
var gclass string

func theVM() *otto.Otto {
	if vm == nil {
		vm = otto.New()
		lg = &ox.Logger{}
		lg.Install(vm, "log")
		if v, err := vm.Run("this"); err == nil {
			gclass = v.Class()
		}
	}
	return vm
}

func checkOne(c *run.Ctx, in Input) {
	prog := Build(in)
	src, evals := RenderStyle(prog, Style{})
	v := theVM()
	lg.Events = nil
	c.Announce(in)

	ref := refjs.New()
	ref.Global.Class = gclass
	for tag, val := range map[string]Val{"a": in.A, "b": in.B} {
		if val.Go != "" {
			gv := goValue(val)
			v.Set("$"+tag, gv)
			var rv refjs.Value
			if val.K == "str" {
				rv = val.S
			} else {
				rv = float64(val.F)
			}
			ref.DefineOwnProperty(ref.Global, "$"+tag, refjs.DataDesc(rv, true, true, true), false)
		}
	}
	exp := ref.Run(prog, evals)
	if exp.Aborted != "" {
		if strings.HasPrefix(exp.Aborted, "implementation-defined") {
			c.Skip(exp.Aborted)
			return
		}
		c.Inconclusive("reference model: " + exp.Aborted)
		return
	}
	out := ox.Run(v, src)
	if out.Panic != nil {
		c.Fail("panic", "operators", in, "no Go panic", fmt.Sprint(out.Panic), out.Stack+"\n"+src)
		vm = nil
		return
	}
	if out.Err != nil {
		c.Fail("mismatch", "program", in, "program completes", "error: "+out.Err.Error(), src)
		vm = nil
		return
	}
	got := lg.Events
	// compare line by line, attributing each difference to its operator
	gi := 0
	reported := map[string]bool{}
	for ei := 0; ei < len(exp.Log); ei++ {
		e := exp.Log[ei]
		g := ""
		if gi < len(got) {
			g = got[gi]
		}
		gi++
		c.Eval(1)
		if e == g {
			continue
		}
		op := opOf(exp.Log, ei)
		if !reported[op] {
			reported[op] = true
			one := in
			one.Ops = []string{strings.TrimPrefix(op, "op:")}
			c.Fail("mismatch", op, one, e, g, fmt.Sprintf("a=%s b=%s", describe(in.A), describe(in.B)))
		}
		// resynchronise on the next operator header in both logs
		ei, gi = resync(exp.Log, got, ei, gi)
	}
	ca, cb := class(in.A), class(in.B)
	c.Feature("a:" + ca)
	if in.A.Go != "" {
		c.Feature("go-kind:" + in.A.Go)
	}
	if in.B.Go != "" {
		c.Feature("go-kind:" + in.B.Go)
	}
	small := func(v Val) bool {
		return v.K == "num" && math.Abs(float64(v.F)) < 256 && float64(v.F) == math.Trunc(float64(v.F))
	}
	if !(small(in.A) && small(in.B)) {
		b, _ := json.Marshal(in)
		c.Nontrivial(ca + "|" + cb + "|" + string(b))
	}
	if c.Index%2003 == 0 {
		c.Sample(map[string]interface{}{"a": in.A, "b": in.B, "first_lines": head(exp.Log, 6)})
	}
}

func head(xs []string, n int) []string {
	if len(xs) > n {
		return xs[:n]
	}
	return xs
}

func describe(v Val) string {
	b, _ := json.Marshal(v)
	return string(b)
}

var opHeaders = map[string]bool{}

func init() {
	for _, op := range BinOps {
		opHeaders[op] = true
	}
	for _, op := range unaryOps {
		opHeaders["u"+op] = true
	}
	for _, op := range []string{"?:", "Number", "String", "Boolean", "+="} {
		opHeaders[op] = true
	}
}

// lineOp extracts the operator a log line belongs to, if the line is an
// operator result line: s:"<op>",... or s:"<op> threw",...
func lineOp(l string) string {
	if !strings.HasPrefix(l, `s:"`) {
		return ""
	}
	rest := l[3:]
	i := strings.Index(rest, `"`)
	if i < 0 {
		return ""
	}
	op := strings.TrimSuffix(rest[:i], " threw")
	op = strings.ReplaceAll(op, `<`, "<")
	if opHeaders[op] {
		return op
	}
	return ""
}

// opOf finds the operator whose evaluation produced line i (conversion logs
// precede the result line of their operator).
func opOf(log []string, i int) string {
	for j := i; j < len(log); j++ {
		if op := lineOp(log[j]); op != "" {
			return "op:" + op
		}
	}
	return "op:?"
}

// resync advances both cursors past the result line of the current operator.
func resync(exp, got []string, ei, gi int) (int, int) {
	for ei < len(exp) && lineOp(exp[ei]) == "" {
		ei++
	}
	gi--
	for gi < len(got) && lineOp(got[gi]) == "" {
		gi++
	}
	return ei, gi + 1
}
