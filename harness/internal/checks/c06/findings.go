package c06

import (
	"errors"
	"math"
	"math/big"
	"regexp"
	"strconv"
	"strings"

	"verif/internal/refnum"
	"verif/internal/run"
)

// Matchers for the known findings of C06. Every matcher is a DEVIATION MODEL:
// it recomputes what the known defect yields for the failing input and matches
// only when (a) the defect's trigger is present in the input, (b) the observed
// value is exactly the defect's prediction and (c) that prediction differs from
// the specification. Digits in the predictions come from the oracle (refnum),
// so a wrong digit at the same site still alarms. The text->number models
// re-enact otto's current algorithm and therefore do use strconv - that is the
// defect being modelled, never the oracle.

func registerMatchers() {
	reg := func(name string, m func(in Input, f *run.Failure) bool) {
		run.RegisterMatcher(name, func(f *run.Failure) bool {
			in, ok := f.In.(Input)
			if !ok || f.Kind != "mismatch" {
				return false
			}
			return m(in, f) && f.Actual != f.Expected
		})
	}
	reg("c06.tostring-threshold", matchThreshold)
	reg("c06.int64-kind", matchInt64Kind)
	reg("c06.radix-overflow", matchRadixOverflow)
	reg("c06.radix-fraction", matchRadixFraction)
	reg("c06.tofixed-half-even", matchToFixedTie)
	reg("c06.tofixed-negzero", matchToFixedNegZero)
	reg("c06.toexp-padding", func(in Input, f *run.Failure) bool { return matchFormat(in, f, "exp", "layout") })
	reg("c06.toexp-half-even", func(in Input, f *run.Failure) bool { return matchFormat(in, f, "exp", "tie") })
	reg("c06.toexp-no-upper-bound", func(in Input, f *run.Failure) bool { return matchFormat(in, f, "exp", "range") })
	reg("c06.toprec-go-layout", func(in Input, f *run.Failure) bool { return matchFormat(in, f, "prec", "layout") })
	reg("c06.toprec-half-even", func(in Input, f *run.Failure) bool { return matchFormat(in, f, "prec", "tie") })
	reg("c06.toprec-no-upper-bound", func(in Input, f *run.Failure) bool { return matchFormat(in, f, "prec", "range") })
	reg("c06.format-nonfinite", func(in Input, f *run.Failure) bool {
		return matchFormat(in, f, "exp", "nonfinite") || matchFormat(in, f, "prec", "nonfinite")
	})
	reg("c06.format-negzero", func(in Input, f *run.Failure) bool {
		return matchFormat(in, f, "exp", "negzero") || matchFormat(in, f, "prec", "negzero")
	})
	reg("c06.tonumber-go-grammar", func(in Input, f *run.Failure) bool { return matchToNumber(in, f, "go-grammar") })
	reg("c06.tonumber-hex-overflow", func(in Input, f *run.Failure) bool { return matchToNumber(in, f, "hex-overflow") })
	reg("c06.parsefloat-go-grammar", func(in Input, f *run.Failure) bool { return matchParseFloat(in, f, "go-grammar") })
	reg("c06.parsefloat-infinity-veto", func(in Input, f *run.Failure) bool { return matchParseFloat(in, f, "veto") })
	reg("c06.parsefloat-overflow-shrinks", func(in Input, f *run.Failure) bool { return matchParseFloat(in, f, "overflow") })
	reg("c06.parseint-negzero", func(in Input, f *run.Failure) bool { return matchParseInt(in, f, "negzero") })
	reg("c06.parseint-overflow-accumulates", func(in Input, f *run.Failure) bool { return matchParseInt(in, f, "accumulate") })
	reg("c06.literal-hex-accumulates", func(in Input, f *run.Failure) bool { return matchLiteral(in, f, "hex") })
	reg("c06.literal-octal-overflow", func(in Input, f *run.Failure) bool { return matchLiteral(in, f, "octal") })
}

var two63 = math.Ldexp(1, 63)

// ------------------------------------------------------------ ToString

// matchThreshold: floatToString decides the 9.8.1 layout with
// math.Log10(|x|) >= 21 / < -6, whose rounding error misplaces values just
// below 1e21 and just below 1e-6: same (oracle) digits, the layout that the
// rounded logarithm selects.
func matchThreshold(in Input, f *run.Failure) bool {
	x := float64(in.X)
	switch in.Op {
	case "tostr", "radix", "prec", "fixed":
	case "lit": // String(<literal>)
		l := refnum.ScanLiteral(in.S)
		if f.Site != "NumericLiteral/String(value)" || !l.OK {
			return false
		}
		x = l.Value
	case "pint": // String(parseInt(..))
		if f.Site != "parseInt/String(result)" {
			return false
		}
		x, _ = refnum.ParseInt(in.S, in.Arg.Num())
	default:
		return false
	}
	if !refnum.Finite(x) || x == 0 || f.Expected != encStr(refnum.ToString(x)) {
		return false
	}
	sign := ""
	if x < 0 {
		sign = "-"
	}
	d, n, _ := refnum.Shortest(math.Abs(x))
	// the defect, re-enacted: the layout is chosen from the rounded logarithm
	model := refnum.FixedLayout(d, n)
	if lg := math.Log10(math.Abs(x)); lg >= 21 || lg < -6 {
		model = refnum.ExpLayout(d, n)
	}
	return f.Actual == encStr(sign+model)
}

func fitsInt64(v *big.Int) bool { return v.IsInt64() }

// matchInt64Kind: integer literals and parseInt results that fit int64 are
// kept as Go int64 values; ToString prints all their digits instead of the
// digits of the (rounded) double.
func matchInt64Kind(in Input, f *run.Failure) bool {
	var I *big.Int
	switch {
	case f.Site == "parseInt/String(result)" && in.Op == "pint":
		exp, info := refnum.ParseInt(in.S, in.Arg.Num())
		if exp != exp || info.Digits == "" {
			return false
		}
		I = new(big.Int)
		for _, c := range info.Digits {
			I.Mul(I, big.NewInt(int64(info.Radix)))
			I.Add(I, big.NewInt(int64(strings.IndexRune("0123456789abcdefghijklmnopqrstuvwxyz", toLower(c)))))
		}
		if !fitsInt64(I) { // otto parses the magnitude, then negates
			return false
		}
		if exp < 0 || (exp == 0 && math.Signbit(exp)) {
			I.Neg(I)
		}
	case f.Site == "NumericLiteral/String(value)" && in.Op == "lit":
		I = literalInteger(in.S)
		if I == nil || !fitsInt64(I) {
			return false
		}
	case in.Op == "tostr" || in.Op == "radix" || in.Op == "prec":
		x := float64(in.X)
		if (in.Inj != "exact" && in.Inj != "hex") || !refnum.IsInteger(x) || math.Abs(x) >= two63 {
			return false
		}
		if f.Expected != encStr(refnum.ToString(x)) {
			return false
		}
		I = refnum.BigInt(x)
	default:
		return false
	}
	if new(big.Int).Abs(I).Cmp(new(big.Int).Lsh(big.NewInt(1), 53)) <= 0 {
		return false
	}
	return f.Actual == encStr(I.Text(10))
}

func toLower(c rune) rune {
	if c >= 'A' && c <= 'Z' {
		return c + 32
	}
	return c
}

// literalInteger returns the exact value of source text that is a pure
// integer literal (decimal digits, 0x hex, legacy 0-octal), else nil.
func literalInteger(text string) *big.Int {
	l := refnum.ScanLiteral(text)
	if !l.OK || l.Len != len([]rune(text)) {
		return nil
	}
	v := new(big.Int)
	var ok bool
	switch l.Kind {
	case "hex":
		_, ok = v.SetString(text[2:], 16)
	case "octal":
		_, ok = v.SetString(text[1:], 8)
	default:
		if strings.ContainsAny(text, ".eE") {
			return nil
		}
		_, ok = v.SetString(text, 10)
	}
	if !ok {
		return nil
	}
	return v
}

// ------------------------------------------------------------ toString(radix)

func radixOf(in Input) (int, bool) {
	if in.Op != "radix" || !in.Arg.Defined() {
		return 10, in.Op == "radix"
	}
	R := refnum.ToInteger(in.Arg.Num())
	if R < 2 || R > 36 {
		return 0, false
	}
	return int(R), true
}

// matchRadixOverflow: numberToStringRadix converts through int64(float); for
// |x| >= 2^63 that conversion yields MinInt64 (amd64), whatever x is.
func matchRadixOverflow(in Input, f *run.Failure) bool {
	R, ok := radixOf(in)
	x := float64(in.X)
	if !ok || R == 10 || f.Site != "Number.prototype.toString(radix)" || !refnum.Finite(x) || math.Abs(x) < two63 {
		return false
	}
	return f.Actual == encStr("-"+refnum.IntText(new(big.Int).Lsh(big.NewInt(1), 63), R))
}

// matchRadixFraction: the same int64 conversion drops the fraction.
func matchRadixFraction(in Input, f *run.Failure) bool {
	R, ok := radixOf(in)
	x := float64(in.X)
	if !ok || R == 10 || f.Site != "Number.prototype.toString(radix)/fraction" || !refnum.Finite(x) || math.Abs(x) >= two63 {
		return false
	}
	return f.Actual == encStr(refnum.IntText(refnum.BigInt(math.Trunc(x)), R))
}

// ------------------------------------------------------------ toFixed

func fixedDigits(in Input) (int, bool) {
	if in.Op != "fixed" {
		return 0, false
	}
	p := refnum.ToInteger(in.Arg.Num())
	if p < 0 || p > 20 {
		return 0, false
	}
	return int(p), true
}

// matchToFixedTie: strconv rounds exact decimal ties to even; 15.7.4.5 step
// 8.a says "pick the larger n".
func matchToFixedTie(in Input, f *run.Failure) bool {
	p, ok := fixedDigits(in)
	x := float64(in.X)
	if !ok || !refnum.Finite(x) || math.Abs(x) >= 1e21 || !refnum.IsTieScaled(x, p) {
		return false
	}
	return f.Actual == encStr(refnum.ToFixedMode(x, p, true))
}

// matchToFixedNegZero: strconv prints the sign of -0; 15.7.4.5 step 6 only
// treats x < 0 as negative.
func matchToFixedNegZero(in Input, f *run.Failure) bool {
	p, ok := fixedDigits(in)
	x := float64(in.X)
	if !ok || x != 0 || !math.Signbit(x) {
		return false
	}
	return f.Actual == encStr("-"+refnum.ToFixed(0, p))
}

// ------------------------------------------------------------ toExponential / toPrecision

func goExpSuffix(e int) string {
	s := "+"
	if e < 0 {
		s, e = "-", -e
	}
	d := strconv.Itoa(e)
	if len(d) < 2 {
		d = "0" + d
	}
	return "e" + s + d
}

func mantissa(d string) string {
	if len(d) > 1 {
		return d[:1] + "." + d[1:]
	}
	return d
}

// goFmtE is the layout of strconv.FormatFloat(x, 'e', prec, 64) applied to the
// oracle's digits (ties to even, as strconv rounds); prec < 0 = shortest.
func goFmtE(x float64, prec int) string {
	sign := ""
	if math.Signbit(x) {
		sign = "-"
	}
	switch {
	case math.IsInf(x, 1):
		return "+Inf"
	case math.IsInf(x, -1):
		return "-Inf"
	case x == 0:
		if prec <= 0 {
			return sign + "0e+00"
		}
		return sign + "0." + strings.Repeat("0", prec) + "e+00"
	}
	var d string
	var e int
	if prec < 0 {
		var n int
		d, n, _ = refnum.Shortest(math.Abs(x))
		e = n - 1
	} else {
		d, e = refnum.DigitsExpMode(math.Abs(x), prec, true)
	}
	return sign + mantissa(d) + goExpSuffix(e)
}

// goFmtG is the layout of strconv.FormatFloat(x, 'g', prec, 64) on the
// oracle's digits: trailing zeros dropped, %e when exp < -4 || exp >= eprc.
func goFmtG(x float64, prec int) string {
	sign := ""
	if math.Signbit(x) {
		sign = "-"
	}
	switch {
	case math.IsInf(x, 1):
		return "+Inf"
	case math.IsInf(x, -1):
		return "-Inf"
	case x == 0:
		return sign + "0"
	}
	var d string
	var e int
	shortest := prec < 0
	if shortest {
		var n int
		d, n, _ = refnum.Shortest(math.Abs(x))
		e = n - 1
		prec = len(d)
	} else {
		d, e = refnum.DigitsExpMode(math.Abs(x), prec-1, true)
	}
	d = strings.TrimRight(d, "0")
	if d == "" {
		d = "0"
	}
	nd, dp := len(d), e+1
	eprc := prec
	if eprc > nd && nd >= dp {
		eprc = nd
	}
	if shortest {
		eprc = 6
	}
	if e < -4 || e >= eprc {
		return sign + mantissa(d) + goExpSuffix(e)
	}
	return sign + refnum.FixedLayout(d, dp)
}

// ottoFormat predicts otto's toExponential/toPrecision observation and names
// the deviation that is responsible ("" = none expected).
func ottoFormat(op string, x float64, arg *Arg) (obs string, cause string) {
	if x != x {
		return encStr("NaN"), ""
	}
	p := refnum.ToInteger(arg.Num())
	prec := -1
	if op == "exp" {
		if arg.Defined() {
			if p < 0 {
				if math.IsInf(x, 0) {
					return "throw:RangeError", "nonfinite" // 15.7.4.6 step 6 precedes step 7
				}
				return "throw:RangeError", ""
			}
			if p < two63 {
				prec = int(p)
			}
		}
		obs = encStr(goFmtE(x, prec))
	} else {
		if !arg.Defined() {
			return "", "" // ToString path: not modelled here
		}
		if p < 1 {
			if math.IsInf(x, 0) {
				return "throw:RangeError", "nonfinite" // 15.7.4.7 step 7 precedes step 8
			}
			return "throw:RangeError", ""
		}
		if p < two63 {
			prec = int(p)
		}
		obs = encStr(goFmtG(x, prec))
	}
	hi := 20.0
	if op == "prec" {
		hi = 21
	}
	switch {
	case math.IsInf(x, 0):
		cause = "nonfinite"
	case arg.Defined() && p > hi:
		cause = "range"
	case x == 0 && math.Signbit(x):
		cause = "negzero"
	default:
		cause = "layout"
		if arg.Defined() {
			f := int(p)
			if op == "prec" {
				f--
			}
			if x != 0 && refnum.IsTieDigits(x, f) {
				up, _ := refnum.DigitsExpMode(math.Abs(x), f, false)
				ev, _ := refnum.DigitsExpMode(math.Abs(x), f, true)
				if up != ev {
					cause = "tie"
				}
			}
		}
	}
	return obs, cause
}

func matchFormat(in Input, f *run.Failure, op, cause string) bool {
	if in.Op != op {
		return false
	}
	if a := in.Arg; a != nil && a.K == "num" && float64(a.N) > 100000 && float64(a.N) < two63 {
		return false // never generated (would format that many digits)
	}
	x := float64(in.X)
	if obs, c := ottoFormat(op, x, in.Arg); c == cause && obs != "" && f.Actual == obs {
		return true
	}
	if x == 0 && math.Signbit(x) && cause != "negzero" {
		// a tree in which only the -0 defect is repaired shows the other
		// deviations on +0
		obs, c := ottoFormat(op, 0, in.Arg)
		return c == cause && obs != "" && f.Actual == obs
	}
	return false
}

// ------------------------------------------------------------ ToNumber(String)

const ottoTrim = "\u0009\u000A\u000B\u000C\u000D\u0020\u00A0\u1680\u180E\u2000\u2001\u2002\u2003\u2004\u2005\u2006\u2007\u2008\u2009\u200A\u2028\u2029\u202F\u205F\u3000\uFEFF"

var reHexPrefix = regexp.MustCompile(`^(?:0[xX])`)

// ottoParseNumber re-enacts value_number.go parseNumber (the defect model).
func ottoParseNumber(value string) float64 {
	value = strings.Trim(value, ottoTrim)
	if value == "" {
		return 0
	}
	if strings.ContainsRune(value, '.') || !reHexPrefix.MatchString(value) {
		number, err := strconv.ParseFloat(value, 64)
		if err != nil && !errors.Is(err, strconv.ErrRange) {
			return math.NaN()
		}
		return number
	}
	number, err := strconv.ParseInt(value, 0, 64)
	if err != nil {
		return math.NaN()
	}
	return float64(number)
}

var (
	reInfWord  = regexp.MustCompile(`(?i)^[+-]?(inf|infinity)$`)
	reHexFloat = regexp.MustCompile(`(?i)^[+-]?0x[0-9a-f_.]*p[+-]?[0-9_]+$`)
)

func matchToNumber(in Input, f *run.Failure, cause string) bool {
	if in.Op != "tonum" || f.Site != "ToNumber(String)" {
		return false
	}
	t := strings.Trim(in.S, ottoTrim)
	exp, info := refnum.StringToNumber(in.S)
	model := ottoParseNumber(in.S)
	if f.Actual != encNum(model) || f.Expected != encNum(exp) {
		return false
	}
	switch cause {
	case "go-grammar": // Go's float grammar: digit-separating '_', inf/infinity in any case, hex floats
		return exp != exp && (strings.Contains(t, "_") || reInfWord.MatchString(t) || reHexFloat.MatchString(t))
	case "hex-overflow": // strconv.ParseInt(.., 64) range error -> NaN
		return info.Kind == "hex" && exp >= two63 && model != model
	}
	return false
}

// ------------------------------------------------------------ parseFloat

var (
	rePFBad   = regexp.MustCompile(`[\+\-]?(?:[Ii]nf$|infinity)`)
	rePFValid = regexp.MustCompile(`[0-9eE\+\-\.]|Infinity`)
)

// ottoParseFloat re-enacts builtin.go builtinGlobalParseFloat (the defect model).
func ottoParseFloat(s string) float64 {
	input := strings.Trim(s, ottoTrim)
	if rePFBad.MatchString(input) {
		return math.NaN()
	}
	value, err := strconv.ParseFloat(input, 64)
	if err != nil {
		for end := len(input); end > 0; end-- {
			val := input[0:end]
			if !rePFValid.MatchString(val) {
				return math.NaN()
			}
			value, err = strconv.ParseFloat(val, 64)
			if err == nil {
				break
			}
		}
		if err != nil {
			return math.NaN()
		}
	}
	return value
}

var reGoWordPrefix = regexp.MustCompile(`(?i)^[+-]?(inf|nan)`)
var reHexFloatPrefix = regexp.MustCompile(`(?i)^[+-]?0x[0-9a-f_.]*p[+-]?[0-9]`)

func matchParseFloat(in Input, f *run.Failure, cause string) bool {
	if in.Op != "pfloat" || f.Site != "parseFloat" {
		return false
	}
	exp := refnum.ParseFloat(in.S)
	model := ottoParseFloat(in.S)
	if f.Actual != encNum(model) || f.Expected != encNum(exp) {
		return false
	}
	t := strings.Trim(in.S, ottoTrim)
	veto := rePFBad.MatchString(t)
	switch cause {
	case "veto": // the unanchored "infinity"/"inf$" veto turns a valid prefix into NaN
		return veto && exp == exp && model != model
	case "overflow": // ErrRange is treated as a syntax error: the text is shortened until it fits
		return !veto && math.IsInf(exp, 0) && !math.IsInf(model, 0) && model == model && !strings.HasPrefix(strings.TrimLeft(t, "+-"), "Infinity") && !strings.Contains(t, "_")
	case "go-grammar": // Go's float grammar leaks: '_' separators, INF/Infinity in any case, hex floats
		if veto || (math.IsInf(exp, 0) && model == model && !math.IsInf(model, 0) && !strings.Contains(t, "_")) {
			return false
		}
		return strings.Contains(t, "_") || (exp != exp && reGoWordPrefix.MatchString(t)) || reHexFloatPrefix.MatchString(t)
	}
	return false
}

// ------------------------------------------------------------ parseInt

// ottoParseInt re-enacts builtin.go builtinGlobalParseInt for an
// already-string input and the ToNumber of the radix argument. isInt reports
// the int64 result path.
func ottoParseInt(s string, radixNum float64) (val float64, isInt bool) {
	input := strings.Trim(s, ottoTrim)
	if len(input) == 0 {
		return math.NaN(), false
	}
	radix := int(refnum.ToInt32(radixNum))
	negative := false
	switch input[0] {
	case '+':
		input = input[1:]
	case '-':
		negative = true
		input = input[1:]
	}
	strip := true
	if radix == 0 {
		radix = 10
	} else {
		if radix < 2 || radix > 36 {
			return math.NaN(), false
		} else if radix != 16 {
			strip = false
		}
	}
	switch len(input) {
	case 0:
		return math.NaN(), false
	case 1:
	default:
		if strip && input[0] == '0' && (input[1] == 'x' || input[1] == 'X') {
			input = input[2:]
			radix = 16
		}
	}
	dv := func(chr rune) int {
		switch {
		case '0' <= chr && chr <= '9':
			return int(chr - '0')
		case 'a' <= chr && chr <= 'z':
			return int(chr - 'a' + 10)
		case 'A' <= chr && chr <= 'Z':
			return int(chr - 'A' + 10)
		}
		return 36
	}
	index := 0
	for ; index < len(input); index++ {
		if dv(rune(input[index])) >= radix {
			break
		}
	}
	input = input[0:index]
	value, err := strconv.ParseInt(input, radix, 64)
	if err != nil {
		if errors.Is(err, strconv.ErrRange) {
			base := float64(radix)
			var v float64
			for _, chr := range input {
				v = v*base + float64(dv(chr))
			}
			if negative {
				v *= -1
			}
			return v, false
		}
		return math.NaN(), false
	}
	if negative {
		value *= -1
	}
	return float64(value), true
}

func matchParseInt(in Input, f *run.Failure, cause string) bool {
	if in.Op != "pint" || f.Site != "parseInt" {
		return false
	}
	exp, _ := refnum.ParseInt(in.S, in.Arg.Num())
	model, isInt := ottoParseInt(in.S, in.Arg.Num())
	if f.Actual != encNum(model) || f.Expected != encNum(exp) {
		return false
	}
	switch cause {
	case "negzero": // int64 result cannot carry the sign of -0
		return isInt && exp == 0 && math.Signbit(exp) && model == 0 && !math.Signbit(model)
	case "accumulate": // magnitude >= 2^63: value = value*base + digit in float64 rounds at every step
		return !isInt && model == model && math.Abs(exp) >= two63
	}
	return false
}

// ------------------------------------------------------------ numeric literals

func matchLiteral(in Input, f *run.Failure, cause string) bool {
	if in.Op != "lit" || f.Site != "NumericLiteral" {
		return false
	}
	I := literalInteger(in.S)
	if I == nil || fitsInt64(I) {
		return false
	}
	l := refnum.ScanLiteral(in.S)
	switch cause {
	case "hex": // parseNumberLiteral: value = value*16 + digit in float64 rounds at every step
		if l.Kind != "hex" {
			return false
		}
		var v float64
		for _, c := range in.S[2:] {
			v = v*16 + float64(strings.IndexRune("0123456789abcdef", toLower(c)))
		}
		return f.Actual == encNum(v)
	case "octal": // ParseInt range error falls through to ParseFloat: the digits are read as decimal
		if l.Kind != "octal" {
			return false
		}
		v, _ := refnum.StringToNumber(in.S)
		return f.Actual == encNum(v)
	}
	return false
}
