// Package c06 monitors Number <-> text conversions against internal/refnum
// (ES5.1 9.8.1, 15.7.4.2/5/6/7, 9.3.1, 15.1.2.2/3, 7.8.3).
package c06

import (
	"encoding/json"
	"fmt"
	"math"
	"strings"

	"github.com/robertkrimen/otto"

	"verif/internal/gen"
	"verif/internal/ox"
	"verif/internal/refnum"
	"verif/internal/run"
)

// Input is one self-contained case.
type Input struct {
	Op   string `json:"op"`             // tostr | radix | fixed | exp | prec | tonum | pfloat | pint | lit
	X    gen.F  `json:"x"`              // the double (number -> text ops)
	Inj  string `json:"inj,omitempty"`  // how X reaches otto: "" = vm.Set(float64); short|exact|hex|expo = literal text
	Arg  *Arg   `json:"arg,omitempty"`  // digits / radix argument
	S    string `json:"s,omitempty"`    // the text (text -> number ops, literal source)
	SInj string `json:"sinj,omitempty"` // how S reaches otto: "" = vm.Set(string); lit = JS string literal
	Cls  string `json:"cls,omitempty"`  // generator class (label only)
}

func init() {
	run.Register(&run.Check{
		ID:   "C06",
		Rule: "cases are (operation, double or text, argument) from boundary-directed generators (random bit patterns, powers of ten/two +-ulps, layout thresholds 1e21/1e-6/1e-7, exact decimal ties, integers around 2^31..2^64, subnormals; digit arguments 0..21 and out-of-range/odd-typed ones; radix 2..36 and invalid; grammar-generated StrNumericLiteral/StrDecimalLiteral/NumericLiteral members, exact midpoints between adjacent doubles, near-miss mutations, every kind of white space); a case is non-trivial when it is a number->text case with a finite non-zero double or a non-default argument, or a text->number case whose text is a grammar member, a near-miss mutation or a hostile string (never pure noise); distinct by (operation, exact input)",
		Assumptions: []string{
			"oracle: internal/refnum (math/big exact arithmetic written from ES5.1; no strconv/fmt float code); unit-tested on spec facts and differentially against strconv in its own go test",
			"Number.prototype.toString(radix != 10) of a non-integer is implementation-dependent in ES5.1: only the weak law 'the result is a radix-R numeral whose exact value rounds to x' is checked there",
			"parseInt with radix not in {2,4,8,10,16,32} and more than 20 significant digits may be approximated (15.1.2.2 step 13): such inputs are not compared",
			"the property text requires correctly rounded results, so the ES5.1 permission to ignore digits after the 20th (9.3.1, 7.8.3, parseInt radix 10) and to extend toFixed/toExponential/toPrecision beyond their argument ranges is NOT granted by the oracle; a failure inside such a permission says so in its detail",
			"U+180E (Zs until Unicode 6.2, Cf later) is not generated; B.1.1 legacy octal literals may be accepted or rejected, but if accepted must have the octal value; strict-mode code is out of scope (otto documents that it has no strict mode)",
		},
		Floor: func(tier string) int {
			if tier == "thorough" {
				return 1000000
			}
			return 50000
		},
		Cases: func(tier string, seed uint64) int {
			if tier == "thorough" {
				return 30000000
			}
			return 120000
		},
		Exec:   func(c *run.Ctx, i int) { checkOne(c, generate(c.Rng, i)) },
		Replay: func(c *run.Ctx, raw json.RawMessage) { var in Input; mustUnmarshal(raw, &in); checkOne(c, in) },
	})
	registerMatchers()
}

func mustUnmarshal(raw json.RawMessage, v interface{}) {
	if err := json.Unmarshal(raw, v); err != nil {
		panic(err)
	}
}

// ------------------------------------------------------------ case generation

func sigDigitsOf(x float64) (sig int, frac int) {
	s := refnum.ExactDecimal(x)
	if i := strings.IndexByte(s, '.'); i >= 0 {
		frac = len(s) - i - 1
		s = s[:i] + s[i+1:]
	}
	s = strings.TrimLeft(s, "0")
	s = strings.TrimRight(s, "0")
	return len(s), frac
}

func generate(r *gen.Rand, i int) Input {
	op := []string{"tostr", "radix", "fixed", "exp", "prec", "tonum", "pfloat", "pint", "lit"}[r.Weighted([]int{5, 3, 4, 3, 3, 6, 3, 4, 3})]
	in := Input{Op: op}
	switch op {
	case "tostr", "radix", "fixed", "exp", "prec":
		x, cls := genDouble(r)
		in.Cls = cls
		switch op {
		case "radix":
			in.Arg = genRadixArg(r)
			if r.Chance(2, 3) && refnum.Finite(x) && !refnum.IsInteger(x) {
				// ES5 defines radix conversion exactly for integers: bias towards them
				x = math.Trunc(x)
				if x == 0 {
					x = float64(r.Range(1, 1<<20))
				}
				in.Cls += "/trunc"
			}
		case "fixed", "exp", "prec":
			in.Arg = genDigitsArg(r)
			if (cls == "tie-frac" || cls == "tie-int" || cls == "short-dec") && r.Chance(2, 3) {
				sig, frac := sigDigitsOf(x)
				switch op {
				case "fixed":
					if frac >= 1 && frac <= 21 {
						in.Arg = numArg(float64(frac - 1))
					}
				case "exp":
					if sig >= 2 && sig <= 22 {
						in.Arg = numArg(float64(sig - 2))
					}
				case "prec":
					if sig >= 2 && sig <= 22 {
						in.Arg = numArg(float64(sig - 1))
					}
				}
			}
		}
		x = signed(r, x)
		in.X = gen.F(x)
		if refnum.Finite(x) && x != 0 && r.Chance(2, 5) {
			forms := []string{"short", "exact", "expo"}
			if refnum.IsInteger(x) && math.Abs(x) < 1e24 {
				forms = append(forms, "hex")
			}
			in.Inj = forms[r.Intn(len(forms))]
		}
	case "tonum":
		in.S, in.Cls = genNumericString(r)
	case "pfloat":
		in.S, in.Cls = genParseFloatString(r)
	case "pint":
		in.S, in.Arg, in.Cls = genParseIntCase(r)
	case "lit":
		for {
			in.S, in.Cls = genLiteralText(r)
			if _, ok := evalLiteralExpr(in.S); ok {
				break
			}
		}
	}
	if in.S != "" && r.Bool() {
		in.SInj = "lit"
	}
	return in
}

// literalText renders finite x != 0 as NumericLiteral source in the given form.
func literalText(x float64, form string) string {
	a := math.Abs(x)
	var t string
	switch form {
	case "short":
		t = refnum.ToString(a)
	case "exact":
		t = refnum.ExactDecimal(a)
	case "expo":
		d, n, _ := refnum.Shortest(a)
		t = refnum.ExpLayout(d, n)
	case "hex":
		t = "0x" + refnum.IntText(refnum.BigInt(a), 16)
	default:
		panic("form " + form)
	}
	if x < 0 {
		return "(-" + t + ")"
	}
	return t
}

// ------------------------------------------------------------ literal expressions

// evalLiteralExpr is the oracle for source text made of numeric literals,
// identifiers that do not resolve, ".name" member accesses and single binary
// +/- operators: exactly what mutations of a numeric literal over the
// alphabet [0-9.eExX_a-f+-] can produce. ok=false: outside that fragment
// (not generated). Results: "n:<num>", "undefined", "throw:<Class>".
func evalLiteralExpr(text string) (result string, ok bool) {
	type val struct {
		kind string // num | undef | throw
		n    float64
		cls  string
	}
	s := []rune(text)
	if len(s) == 0 {
		return "", false
	}
	isIDStart := func(c rune) bool { return c == '$' || c == '_' || (c >= 'a' && c <= 'z') || (c >= 'A' && c <= 'Z') }
	isIDPart := func(c rune) bool { return isIDStart(c) || (c >= '0' && c <= '9') }
	i := 0
	var vals []val
	var ops []rune
	for {
		// operand
		if i >= len(s) {
			return "", false // trailing operator
		}
		var v val
		switch {
		case isIDStart(s[i]):
			j := i
			for j < len(s) && isIDPart(s[j]) {
				j++
			}
			i = j
			v = val{kind: "throw", cls: "ReferenceError"}
		case (s[i] >= '0' && s[i] <= '9') || s[i] == '.':
			l := refnum.ScanLiteral(string(s[i:]))
			if !l.OK {
				return "throw:SyntaxError", true
			}
			i += l.Len
			v = val{kind: "num", n: l.Value}
		default:
			return "", false
		}
		// member accesses
		for i < len(s) && s[i] == '.' {
			if i+1 >= len(s) || !isIDStart(s[i+1]) {
				return "throw:SyntaxError", true
			}
			j := i + 1
			for j < len(s) && isIDPart(s[j]) {
				j++
			}
			i = j
			switch v.kind {
			case "num":
				v = val{kind: "undef"}
			case "undef":
				v = val{kind: "throw", cls: "TypeError"}
			}
		}
		vals = append(vals, v)
		if i >= len(s) {
			break
		}
		if s[i] != '+' && s[i] != '-' {
			return "", false
		}
		if i+1 < len(s) && (s[i+1] == '+' || s[i+1] == '-') {
			return "", false // ++ -- and unary operators are outside the fragment
		}
		ops = append(ops, s[i])
		i++
	}
	num := func(v val) float64 {
		if v.kind == "undef" {
			return math.NaN()
		}
		return v.n
	}
	acc := vals[0]
	if acc.kind == "throw" {
		return "throw:" + acc.cls, true
	}
	for k, op := range ops {
		rhs := vals[k+1]
		if rhs.kind == "throw" {
			return "throw:" + rhs.cls, true
		}
		if op == '+' {
			acc = val{kind: "num", n: num(acc) + num(rhs)}
		} else {
			acc = val{kind: "num", n: num(acc) - num(rhs)}
		}
	}
	if acc.kind == "undef" {
		return "undefined", true
	}
	return "n:" + ox.Num(acc.n), true
}

// ------------------------------------------------------------ driving otto

var vm *otto.Otto
var logger *ox.Logger

func theVM() *otto.Otto {
	if vm == nil {
		vm = otto.New()
		logger = &ox.Logger{}
		logger.Install(vm, "log")
	}
	return vm
}

func argSrc(v *otto.Otto, a *Arg) string {
	if a == nil {
		return ""
	}
	switch a.K {
	case "none":
		return ""
	case "undef":
		return "undefined"
	case "num":
		v.Set("$a", float64(a.N))
		return "$a"
	case "str":
		return ox.JSStr(a.S)
	case "null":
		return "null"
	case "true":
		return "true"
	}
	panic("arg kind " + a.K)
}

func encStr(s string) string  { return "s:" + ox.Str(s) }
func encNum(x float64) string { return "n:" + ox.Num(x) }

// norm maps the logged form of a caught exception back to "throw:Class".
func norm(ev string) string {
	if strings.HasPrefix(ev, `s:"throw:`) {
		return "throw:" + strings.TrimSuffix(strings.TrimPrefix(ev, `s:"throw:`), `"`)
	}
	return ev
}

// unquote returns the Go string of an `s:"..."` encoding when it is pure
// printable ASCII (all number formatting results are), ok=false otherwise.
func unquote(ev string) (string, bool) {
	if !strings.HasPrefix(ev, `s:"`) || !strings.HasSuffix(ev, `"`) {
		return "", false
	}
	body := ev[3 : len(ev)-1]
	if strings.ContainsAny(body, `\"`) {
		return "", false
	}
	return body, true
}

func magClass(x float64) string {
	switch {
	case x != x:
		return "NaN"
	case math.IsInf(x, 0):
		return "Inf"
	case x == 0:
		return "zero"
	}
	a := math.Abs(x)
	switch {
	case a < 2.2250738585072014e-308:
		return "subnormal"
	case a < 1e-7:
		return "<1e-7"
	case a < 1e-6:
		return "[1e-7,1e-6)"
	case a < 1:
		return "[1e-6,1)"
	case a < 1<<53:
		return "[1,2^53)"
	case a < 1e21:
		return "[2^53,1e21)"
	}
	return ">=1e21"
}

func checkOne(c *run.Ctx, in Input) {
	v := theVM()
	logger.Events = nil
	c.Announce(in)
	fail := func(site, exp, act, detail string) { c.Fail("mismatch", site, in, exp, act, detail) }
	runJS := func(src string, want int) bool {
		logger.Events = nil
		out := ox.Run(v, src)
		if out.Panic != nil {
			c.Fail("panic", "C06:"+in.Op, in, "no Go panic", fmt.Sprint(out.Panic), out.Stack)
			vm = nil
			return false
		}
		if out.Err != nil || len(logger.Events) != want {
			fail("C06:"+in.Op, fmt.Sprintf("script completes with %d observations", want), fmt.Sprintf("err=%v events=%d", out.Err, len(logger.Events)), src)
			return false
		}
		for i := range logger.Events {
			logger.Events[i] = norm(logger.Events[i])
		}
		return true
	}
	c.Feature("op:" + in.Op)
	if in.Cls != "" {
		c.Feature("cls:" + in.Op + ":" + in.Cls)
	}
	keyb, _ := json.Marshal(in)
	key := string(keyb)

	switch in.Op {
	case "tostr", "radix", "fixed", "exp", "prec":
		x := float64(in.X)
		// --- injection of x
		pre := ""
		if in.Inj == "" {
			v.Set("$x", x)
			c.Feature("inject:set")
		} else {
			text := literalText(x, in.Inj)
			c.Feature("inject:literal-" + in.Inj)
			if !runJS("var $x = "+text+"; log($x);", 1) {
				return
			}
			c.Eval(1)
			if e := encNum(x); logger.Events[0] != e {
				fail("NumericLiteral", e, logger.Events[0], "literal text "+clipS(text))
				return
			}
			pre = ""
		}
		c.Feature("mag:" + magClass(x))
		nontrivial := refnum.Finite(x) && x != 0
		switch in.Op {
		case "tostr":
			if !runJS(pre+`log(String($x));log($x+"");log($x.toString());log($x.toString(10));log(""+$x);log(Number(String($x)));log(+($x+""));`, 7) {
				return
			}
			c.Eval(7)
			exp := refnum.ToString(x)
			e := encStr(exp)
			routes := []string{"String(x)", `x+""`, "x.toString()", "x.toString(10)", `""+x`}
			bad := map[string][]string{}
			for k, rt := range routes {
				if logger.Events[k] != e {
					bad[logger.Events[k]] = append(bad[logger.Events[k]], rt)
				}
			}
			for act, rts := range bad {
				// 9.8.1: the last digit is "not necessarily uniquely determined"
				if s, ok := unquote(act); ok && len(rts) > 0 {
					admitted := false
					for _, alt := range refnum.ToStringAll(x) {
						if alt == s {
							admitted = true
						}
					}
					if admitted {
						c.Note("tostring-admissible-but-not-closest-digit")
						continue
					}
				}
				fail("ToString(Number)", e, act, "routes: "+strings.Join(rts, ", "))
			}
			// model-free round trip: Number(String(x)) === x (String(-0) is "0")
			rt := x
			if x == 0 {
				rt = 0
			}
			for k := 5; k < 7; k++ {
				if e := encNum(rt); logger.Events[k] != e {
					fail("Number(String(x))", e, logger.Events[k], "round trip via "+logger.Events[0])
				}
			}
			if refnum.Finite(x) && x != 0 {
				_, n, _ := refnum.Shortest(math.Abs(x))
				c.Feature(fmt.Sprintf("tostr:n=%s", nBand(n)))
				c.Feature(fmt.Sprintf("tostr:k=%d", len(digitsOnly(exp))))
			}
		case "radix":
			a := argSrc(v, in.Arg)
			if !runJS(pre+`try{log($x.toString(`+a+`))}catch(e){log("throw:"+e.name)}`, 1) {
				return
			}
			c.Eval(1)
			site := "Number.prototype.toString(radix)"
			R := 10.0
			if in.Arg.Defined() {
				R = refnum.ToInteger(in.Arg.Num())
			}
			c.Feature("radix-arg:" + in.Arg.label())
			if R < 2 || R > 36 {
				c.Feature("radix:invalid")
				if logger.Events[0] != "throw:RangeError" {
					fail(site, "throw:RangeError", logger.Events[0], "15.7.4.2: radix not an integer in 2..36")
				}
				break
			}
			c.Feature(fmt.Sprintf("radix:%d", int(R)))
			if exp, ok := refnum.ToStringRadix(x, int(R)); ok {
				if e := encStr(exp); logger.Events[0] != e {
					fail(site, e, logger.Events[0], "")
				}
				c.Feature("radix:exact-case")
			} else {
				// non-integer, radix != 10: implementation-dependent; weak law only
				c.Feature("radix:fraction-weak-law")
				okWeak := false
				if s, ok := unquote(logger.Events[0]); ok {
					neg, r := refnum.RadixValue(s, int(R))
					if r != nil && neg == (x < 0) && refnum.RoundRat(r) == math.Abs(x) {
						okWeak = true
					}
				}
				if !okWeak {
					fail(site+"/fraction", "a radix-"+fmt.Sprint(int(R))+" numeral whose exact value rounds to x (15.7.4.2, generalisation of 9.8.1)", logger.Events[0], "")
				}
			}
		case "fixed", "exp", "prec":
			method := map[string]string{"fixed": "toFixed", "exp": "toExponential", "prec": "toPrecision"}[in.Op]
			a := argSrc(v, in.Arg)
			if !runJS(pre+`try{log($x.`+method+`(`+a+`))}catch(e){log("throw:"+e.name)}`, 1) {
				return
			}
			c.Eval(1)
			site := "Number.prototype." + method
			exp, note := formatOracle(in.Op, x, in.Arg)
			c.Feature(in.Op + "-arg:" + in.Arg.label())
			c.Feature(in.Op + ":" + note)
			if logger.Events[0] != exp {
				fail(site, exp, logger.Events[0], note)
			}
			if in.Arg.Defined() || in.Op == "fixed" {
				nontrivial = nontrivial || note != "ok"
			}
		}
		c.Sample(in)
		if nontrivial {
			c.Nontrivial(key)
		}

	case "tonum", "pfloat", "pint", "lit":
		if in.Op != "lit" {
			if in.SInj == "lit" {
				if !runJS("var $s = "+ox.JSStr(in.S)+";", 0) {
					return
				}
				c.Feature("inject:string-literal")
			} else {
				v.Set("$s", in.S)
				c.Feature("inject:string-set")
			}
		}
		switch in.Op {
		case "tonum":
			if !runJS(`log(Number($s));log(+$s);log($s-0);log($s*1);log(new Number($s).valueOf());`, 5) {
				return
			}
			c.Eval(5)
			exp, info := refnum.StringToNumber(in.S)
			e := encNum(exp)
			c.Feature("tonum:kind=" + info.Kind)
			detail := ""
			if info.SigDigits > 20 {
				detail = "more than 20 significant digits: ES5 9.3.1 would also admit the 20-digit truncation (+1); the property requires exact rounding"
				c.Feature("tonum:>20-significant-digits")
			}
			bad := map[string][]string{}
			for k, rt := range []string{"Number(s)", "+s", "s-0", "s*1", "new Number(s).valueOf()"} {
				if logger.Events[k] != e {
					bad[logger.Events[k]] = append(bad[logger.Events[k]], rt)
				}
			}
			for act, rts := range bad {
				fail("ToNumber(String)", e, act, strings.TrimSpace(detail+" routes: "+strings.Join(rts, ", ")))
			}
			c.Feature("tonum:result=" + magClass(exp))
		case "pfloat":
			if !runJS(`log(parseFloat($s));`, 1) {
				return
			}
			c.Eval(1)
			exp := refnum.ParseFloat(in.S)
			if e := encNum(exp); logger.Events[0] != e {
				fail("parseFloat", e, logger.Events[0], "")
			}
			c.Feature("pfloat:result=" + magClass(exp))
		case "pint":
			call := "parseInt($s)"
			if in.Arg != nil && in.Arg.K != "none" {
				call = "parseInt($s," + argSrc(v, in.Arg) + ")"
			}
			if !runJS(`var $r=`+call+`;log($r);log(String($r));`, 2) {
				return
			}
			c.Eval(2)
			exp, info := refnum.ParseInt(in.S, in.Arg.Num())
			c.Feature(fmt.Sprintf("pint:radix=%d", info.Radix))
			c.Feature("pint-arg:" + in.Arg.label())
			if exp == exp && !info.Exact {
				c.Note("pint-approximation-permitted-not-compared")
				c.Feature("pint:not-compared(>20 digits, radix not 2^k/10)")
				break
			}
			detail := ""
			if info.HasAlt {
				detail = "radix 10, more than 20 significant digits: 15.1.2.2 step 13 would also admit " + ox.Num(info.Alt)
				c.Feature("pint:>20-significant-digits")
			}
			if e := encNum(exp); logger.Events[0] != e {
				fail("parseInt", e, logger.Events[0], detail)
			} else if e := encStr(refnum.ToString(exp)); logger.Events[1] != e {
				// the value converts to the right double at the API boundary but
				// does not behave as that double inside the interpreter
				fail("parseInt/String(result)", e, logger.Events[1], "String(parseInt(s)) must be ToString of the double")
			}
			c.Feature("pint:result=" + magClass(exp))
		case "lit":
			exp, ok := evalLiteralExpr(in.S)
			if !ok {
				c.Inconclusive("literal text outside the modelled fragment: " + clipS(in.S))
				return
			}
			lit := refnum.ScanLiteral(in.S)
			pure := lit.OK && lit.Len == len([]rune(in.S))
			octal := pure && lit.Kind == "octal"
			// route 1: the text compiled as part of a program
			src := "log(" + in.S + "\n);"
			got1 := ""
			if _, err := v.Compile("", src); err != nil {
				got1 = "throw:SyntaxError"
			} else {
				logger.Events = nil
				out := ox.Run(v, src)
				switch {
				case out.Panic != nil:
					c.Fail("panic", "NumericLiteral", in, "no Go panic", fmt.Sprint(out.Panic), out.Stack)
					vm = nil
					return
				case out.Err != nil:
					got1 = "throw:" + ox.ErrClass(out.Err)
				case len(logger.Events) == 1:
					got1 = logger.Events[0]
				default:
					got1 = fmt.Sprintf("events=%d", len(logger.Events))
				}
			}
			// route 2: eval of the text
			v.Set("$s", in.S)
			if !runJS(`try{log(eval($s))}catch(e){log("throw:"+e.name)}`, 1) {
				return
			}
			got2 := logger.Events[0]
			c.Eval(2)
			for _, g := range []struct{ route, got string }{{"program", got1}, {"eval", got2}} {
				if g.got == exp {
					continue
				}
				if octal && g.got == "throw:SyntaxError" {
					c.Feature("lit:legacy-octal-rejected")
					continue
				}
				d := "route " + g.route
				if pure && lit.SigDig > 20 {
					d += "; more than 20 significant digits: ES5 7.8.3 would also admit the 20-digit truncation (+1); the property requires exact rounding"
				}
				fail("NumericLiteral", exp, g.got, d)
			}
			c.Feature("lit:expect=" + litClass(exp))
			if pure {
				c.Feature("lit:kind=" + lit.Kind)
				// the literal's value must behave as the double inside the interpreter
				if got1 == exp {
					if !runJS("log(String("+in.S+"\n));", 1) {
						return
					}
					c.Eval(1)
					if e := encStr(refnum.ToString(lit.Value)); logger.Events[0] != e {
						fail("NumericLiteral/String(value)", e, logger.Events[0], "String(<literal>) must be ToString of the literal's Number value")
					}
				}
			}
		}
		c.Sample(in)
		c.Nontrivial(key)
	}
}

func litClass(exp string) string {
	switch {
	case strings.HasPrefix(exp, "throw:"):
		return strings.TrimPrefix(exp, "throw:")
	case exp == "undefined":
		return "undefined"
	}
	return "number"
}

func clipS(s string) string {
	if len(s) > 120 {
		return s[:120] + "..."
	}
	return s
}

func digitsOnly(s string) string {
	if i := strings.IndexByte(s, 'e'); i >= 0 {
		s = s[:i]
	}
	var b []byte
	for i := 0; i < len(s); i++ {
		if s[i] >= '0' && s[i] <= '9' {
			b = append(b, s[i])
		}
	}
	t := strings.TrimLeft(string(b), "0")
	return strings.TrimRight(t, "0")
}

func nBand(n int) string {
	switch {
	case n < -6:
		return "<-6"
	case n == -6:
		return "-6"
	case n == -5:
		return "-5"
	case n <= 0:
		return "-4..0"
	case n <= 20:
		return "1..20"
	case n == 21:
		return "21"
	case n == 22:
		return "22"
	}
	return ">22"
}

// formatOracle applies the argument handling of 15.7.4.5/6/7 in the spec's
// step order and returns the expected observation and a coverage label.
func formatOracle(op string, x float64, arg *Arg) (string, string) {
	f := refnum.ToInteger(arg.Num())
	switch op {
	case "fixed":
		if f < 0 || f > 20 {
			return "throw:RangeError", "range-error"
		}
		lbl := "ok"
		if refnum.Finite(x) && math.Abs(x) < 1e21 && refnum.IsTieScaled(x, int(f)) {
			lbl = "tie"
		}
		return encStr(refnum.ToFixed(x, int(f))), lbl
	case "exp":
		if x != x {
			return encStr("NaN"), "nan"
		}
		if math.IsInf(x, 0) {
			return encStr(refnum.ToExponential(x, 0, true)), "infinity"
		}
		if arg.Defined() && (f < 0 || f > 20) {
			return "throw:RangeError", "range-error"
		}
		lbl := "ok"
		if !arg.Defined() {
			lbl = "ok-undefined-digits"
		} else if refnum.IsTieDigits(x, int(f)) {
			lbl = "tie"
		}
		return encStr(refnum.ToExponential(x, int(f), !arg.Defined())), lbl
	case "prec":
		if !arg.Defined() {
			return encStr(refnum.ToString(x)), "ok-undefined-precision"
		}
		if x != x {
			return encStr("NaN"), "nan"
		}
		if math.IsInf(x, 0) {
			return encStr(refnum.ToPrecision(x, 1)), "infinity"
		}
		if f < 1 || f > 21 {
			return "throw:RangeError", "range-error"
		}
		lbl := "ok"
		if refnum.IsTieDigits(x, int(f)-1) {
			lbl = "tie"
		}
		return encStr(refnum.ToPrecision(x, int(f))), lbl
	}
	panic("op " + op)
}
