package c06

import (
	"math"
	"testing"

	"verif/internal/gen"
)

func TestEvalLiteralExpr(t *testing.T) {
	cases := []struct {
		s, want string
		ok      bool
	}{
		{"1", "n:1", true}, {"5.", "n:5", true}, {".5", "n:0.5", true}, {"0x1F", "n:31", true}, {"010", "n:8", true},
		{"1..e5", "undefined", true}, {"1.5.e", "undefined", true}, {"1.e5.e5.e5", "throw:TypeError", true},
		{"1_0", "throw:SyntaxError", true}, {"1e", "throw:SyntaxError", true}, {"1e+", "throw:SyntaxError", true}, {"0x", "throw:SyntaxError", true},
		{".", "throw:SyntaxError", true}, {"5..", "throw:SyntaxError", true}, {"1.5.2", "throw:SyntaxError", true}, {"08", "throw:SyntaxError", true},
		{"0xe+1", "n:15", true}, {"0x1e+1", "n:31", true}, {"1e+1", "n:10", true}, {"1.+5", "n:6", true}, {"1.5+.5", "n:2", true},
		{"e+5", "throw:ReferenceError", true}, {"x", "throw:ReferenceError", true}, {"1+e", "throw:ReferenceError", true},
		{"1..x+1", "n:NaN", true}, {"1..x.y+e", "throw:TypeError", true}, {"e+1..x.y", "throw:ReferenceError", true},
		{"1++5", "", false}, {"1+", "", false}, {"+1", "", false}, {"", "", false}, {"1 2", "", false},
	}
	for _, c := range cases {
		got, ok := evalLiteralExpr(c.s)
		if ok != c.ok || (ok && got != c.want) {
			t.Errorf("evalLiteralExpr(%q) = %q,%v want %q,%v", c.s, got, ok, c.want, c.ok)
		}
	}
}

func TestDeviationLayouts(t *testing.T) {
	// the Go layouts used by the deviation models, pinned on values the
	// repository's own tests assert
	if got := goFmtE(451, 2); got != "4.51e+02" {
		t.Errorf("goFmtE(451,2) = %q", got)
	}
	if got := goFmtE(77.1234, -1); got != "7.71234e+01" {
		t.Errorf("goFmtE shortest = %q", got)
	}
	if got := goFmtG(451, 1); got != "5e+02" {
		t.Errorf("goFmtG(451,1) = %q", got)
	}
	if got := goFmtG(0.463647609000806116, 10); got != "0.463647609" {
		t.Errorf("goFmtG(atan,10) = %q", got)
	}
	if got := goFmtG(5.123456, 5); got != "5.1235" {
		t.Errorf("goFmtG(5.123456,5) = %q", got)
	}
	if got := goFmtG(0.00001, 2); got != "1e-05" {
		t.Errorf("goFmtG(1e-5,2) = %q", got)
	}
	if got := goFmtG(math.Inf(-1), 3); got != "-Inf" {
		t.Errorf("goFmtG(-Inf) = %q", got)
	}
}

func TestGenerateDeterministic(t *testing.T) {
	for i := 0; i < 2000; i++ {
		a := generate(gen.New(1, "C06", i), i)
		b := generate(gen.New(1, "C06", i), i)
		if a.Op != b.Op || a.S != b.S || math.Float64bits(float64(a.X)) != math.Float64bits(float64(b.X)) {
			t.Fatalf("case %d not a pure function of the PRNG", i)
		}
	}
}
