package c06

import (
	"math"
	"math/big"
	"strings"

	"verif/internal/gen"
	"verif/internal/refnum"
)

// ------------------------------------------------------------ doubles

func pow10d(k int) float64 {
	if k >= 0 {
		return refnum.RoundRat(new(big.Rat).SetInt(refnum.Pow10(k)))
	}
	return refnum.RoundRat(new(big.Rat).SetFrac(big.NewInt(1), refnum.Pow10(-k)))
}

func ulps(x float64, n int) float64 {
	for ; n > 0; n-- {
		x = math.Nextafter(x, math.Inf(1))
	}
	for ; n < 0; n++ {
		x = math.Nextafter(x, 0)
	}
	return x
}

var fixedDoubles = []float64{
	999999999999999900000, 123456789012345680000, 1e21, 1e-6, 1e-7, 9.999999999999999e-7, 9.99999999999999e-7, 1.0000000000000002e-6,
	1.005, 1.45, 8.345, 0.1, 0.2, 0.30000000000000004, 123.456, 0.000001234, 4.35, 77.1234, 12345.6789, 1.23e-20, 2.34, 5.123456, 451, 0.5, 2.5, 1.125,
	25, 35, 0.00001, 0.463647609000806116, 1e20, 99.99, 99.95, 9.5, 9.95, 0.95, 0.05, 0.15, 0.25, 0.35, 1e23, 5e-324, 1.7976931348623157e308, 2.2250738585072014e-308,
	2.225073858507201e-308, 4294967295, 4294967296, 2147483648, 9007199254740991, 9007199254740992, 9007199254740994, 9223372036854775808, 18446744073709551616,
	9223372036854774784, 1e15, 1e16, 1e17, 123456789, 1000000000000000128, 0.7999999999999999, 1 / 3.0, 2 / 3.0, 100, 1e100, 1e-100,
}

// genDouble returns a non-negative-or-special double and its class label.
func genDouble(r *gen.Rand) (float64, string) {
	switch r.Weighted([]int{6, 4, 3, 5, 3, 5, 4, 2, 1, 3, 3}) {
	case 0: // random bit pattern (positive, finite)
		for {
			x := math.Float64frombits(r.Uint64() &^ (1 << 63))
			if refnum.Finite(x) {
				return x, "bits"
			}
		}
	case 1: // powers of ten and neighbours
		k := r.Range(-324, 308)
		if r.Chance(1, 2) {
			k = r.Range(-25, 25)
		}
		x := ulps(pow10d(k), r.Range(-2, 2))
		return x, "pow10"
	case 2: // powers of two and neighbours
		k := r.Range(-1074, 1023)
		if r.Chance(1, 2) {
			k = r.Range(-70, 70)
		}
		x := math.Ldexp(1, k)
		d := r.Range(-1, 1)
		if !(x == 5e-324 && d < 0) {
			x = ulps(x, d)
		}
		return x, "pow2"
	case 3: // layout thresholds 1e21, 1e-6, 1e-7 and their surroundings
		switch r.Intn(6) {
		case 0:
			return ulps(1e21, r.Range(-40, 40)), "threshold"
		case 1:
			return ulps(1e-6, r.Range(-40, 40)), "threshold"
		case 2:
			return ulps(1e-7, r.Range(-40, 40)), "threshold"
		case 3: // [1e20,1e22)
			return 1e20 * (1 + 99*r.Float64()), "threshold"
		case 4: // [1e-8,1e-5)
			return 1e-8 * (1 + 999*r.Float64()), "threshold"
		}
		// few-digit values right around the thresholds
		d := float64(r.Range(1, 9999))
		e := []float64{1e17, 1e18, 1e19, 1e20, 1e-9, 1e-10, 1e-11, 1e-12}[r.Intn(8)]
		return d * e, "threshold"
	case 4: // exact decimal ties: odd * 2^-b (b fractional digits ending in 5)
		b := r.Range(1, 12)
		if r.Chance(1, 4) {
			b = r.Range(1, 21)
		}
		j := uint64(r.Intn(1<<uint(b+3+r.Intn(8))))*2 + 1
		return math.Ldexp(float64(j), -b), "tie-frac"
	case 5: // integers
		switch r.Intn(5) {
		case 0:
			return float64(r.Range(0, 100000)), "int-small"
		case 1:
			return float64(r.Uint64() >> uint(11+r.Intn(53))), "int53"
		case 2:
			c := []float64{1 << 31, 1 << 32, 1 << 53, 1 << 62, 1 << 63, 18446744073709551616, 1e21, 1e15}[r.Intn(8)]
			return ulps(c, r.Range(-3, 3)), "int-edge"
		case 3: // integer ties for toExponential/toPrecision: (2n+1)*5*10^q
			n := uint64(r.Intn(100000))
			v := float64((2*n + 1) * 5)
			for q := r.Intn(4); q > 0; q-- {
				v *= 10
			}
			return v, "tie-int"
		}
		return math.Trunc(math.Ldexp(1+r.Float64(), r.Range(53, 90))), "int-large"
	case 6: // short decimals k/10^d
		d := r.Range(1, 6)
		v := float64(r.Range(1, 99999)) / math.Pow(10, float64(d))
		if r.Chance(1, 3) { // ...5 endings: look like ties but are not
			v = (float64(r.Range(0, 9999))*10 + 5) / math.Pow(10, float64(d))
		}
		return v, "short-dec"
	case 7: // subnormals and the normal boundary
		switch r.Intn(4) {
		case 0:
			return math.Float64frombits(uint64(r.Range(1, 50))), "subnormal"
		case 1:
			return math.Float64frombits(1<<52 - uint64(r.Range(0, 3))), "subnormal"
		case 2:
			return math.Float64frombits(1<<52 + uint64(r.Range(0, 3))), "subnormal"
		}
		return math.Float64frombits(r.Uint64() >> 12), "subnormal"
	case 8: // specials
		return []float64{math.NaN(), math.Inf(1), 0}[r.Intn(3)], "special"
	case 9:
		return fixedDoubles[r.Intn(len(fixedDoubles))], "fixed-list"
	}
	// near MaxFloat64 / moderate magnitudes
	if r.Chance(1, 4) {
		return ulps(math.MaxFloat64, -r.Intn(4)), "max"
	}
	return math.Ldexp(r.Float64()+0.5, r.Range(-60, 80)), "moderate"
}

func signed(r *gen.Rand, x float64) float64 {
	if r.Chance(1, 3) {
		return -x // includes -0 and -Infinity
	}
	return x
}

// ------------------------------------------------------------ arguments

// Arg is a JavaScript argument value.
type Arg struct {
	K string `json:"k"` // none | undef | num | str | null | true
	N gen.F  `json:"n,omitempty"`
	S string `json:"s,omitempty"`
}

func numArg(v float64) *Arg { return &Arg{K: "num", N: gen.F(v)} }

// Defined reports whether the argument is not undefined.
func (a *Arg) Defined() bool { return a != nil && a.K != "none" && a.K != "undef" }

// Num is ToNumber of the argument.
func (a *Arg) Num() float64 {
	if a == nil {
		return math.NaN()
	}
	switch a.K {
	case "num":
		return float64(a.N)
	case "str":
		v, _ := refnum.StringToNumber(a.S)
		return v
	case "null":
		return 0
	case "true":
		return 1
	}
	return math.NaN()
}

func (a *Arg) label() string {
	if a == nil {
		return "none"
	}
	return a.K
}

var oddArgs = []*Arg{
	{K: "none"}, {K: "undef"}, {K: "null"}, {K: "true"},
	{K: "str", S: "3"}, {K: "str", S: " 7 "}, {K: "str", S: "abc"}, {K: "str", S: "0x10"}, {K: "str", S: ""}, {K: "str", S: "1e1"},
}

// genDigitsArg: argument for toFixed/toExponential/toPrecision. Finite
// arguments in (3000, 2^63) are deliberately absent: otto has no upper bound
// check in toExponential/toPrecision and formats that many digits
// (toPrecision(4294967296) allocates gigabytes and runs for minutes), which
// would only stall the run; the missing RangeError is observed at 21..3000 (results stay below the 4000-character report clip).
func genDigitsArg(r *gen.Rand) *Arg {
	switch r.Weighted([]int{10, 3, 2}) {
	case 0:
		return numArg(float64(r.Range(0, 21)))
	case 1:
		v := []float64{-1, 21, 22, 100, 101, -0.5, -0.9, 20.9, 21.5, 0.5, 1.1, math.NaN(), math.Inf(1), math.Inf(-1), 1e21, 1e300, -4294967295, math.Copysign(0, -1), -2, 50, 1000, 3000}
		return numArg(v[r.Intn(len(v))])
	}
	return oddArgs[r.Intn(len(oddArgs))]
}

func genRadixArg(r *gen.Rand) *Arg {
	switch r.Weighted([]int{12, 3, 2}) {
	case 0:
		return numArg(float64(r.Range(2, 36)))
	case 1:
		v := []float64{0, 1, 37, -2, 2.9, 36.5, 1.9, 36.999, math.NaN(), math.Inf(1), math.Inf(-1), 4294967298, 4294967296 + 16, -16, 10, 16, 2, 36, 100, math.Copysign(0, -1)}
		return numArg(v[r.Intn(len(v))])
	}
	odd := []*Arg{{K: "none"}, {K: "undef"}, {K: "null"}, {K: "true"}, {K: "str", S: "16"}, {K: "str", S: " 2 "}, {K: "str", S: "abc"}, {K: "str", S: "0x10"}, {K: "str", S: ""}}
	return odd[r.Intn(len(odd))]
}

// ------------------------------------------------------------ strings

var wsChars = []rune{0x09, 0x0A, 0x0B, 0x0C, 0x0D, 0x20, 0xA0, 0x1680, 0x2000, 0x2001, 0x2002, 0x2003, 0x2004, 0x2005, 0x2006, 0x2007, 0x2008, 0x2009, 0x200A, 0x2028, 0x2029, 0x202F, 0x205F, 0x3000, 0xFEFF}

// look like white space but are not StrWhiteSpaceChar
var notWsChars = []rune{0x200B, 0x0085, 0x0000, 0x001F, 0x001C, 0x200C, 0x2060, 0x00AD, 0x0008}

func genWS(r *gen.Rand) string {
	n := r.Range(1, 3)
	var b []rune
	for i := 0; i < n; i++ {
		b = append(b, wsChars[r.Intn(len(wsChars))])
	}
	return string(b)
}

func digitsN(r *gen.Rand, n int, radix int) string {
	b := make([]byte, n)
	for i := range b {
		b[i] = "0123456789abcdefghijklmnopqrstuvwxyz"[r.Intn(radix)]
		if radix > 10 && r.Bool() && b[i] >= 'a' {
			b[i] -= 32
		}
	}
	return string(b)
}

func genLen(r *gen.Rand) int {
	switch r.Weighted([]int{8, 6, 3, 1}) {
	case 0:
		return r.Range(1, 6)
	case 1:
		return r.Range(14, 22)
	case 2:
		return r.Range(22, 45)
	}
	return r.Range(100, 800)
}

// genDecimalBody generates a member of StrUnsignedDecimalLiteral (no
// Infinity) or, with literal=true, of 7.8.3 DecimalLiteral.
func genDecimalBody(r *gen.Rand, literal bool) string {
	var s string
	ip := digitsN(r, genLen(r), 10)
	if literal {
		ip = strings.TrimLeft(ip, "0")
		if ip == "" {
			ip = "0"
		}
	} else if r.Chance(1, 8) {
		ip = strings.Repeat("0", r.Range(1, 3)) + ip
	}
	switch r.Intn(5) {
	case 0, 1:
		s = ip
	case 2:
		s = ip + "." + digitsN(r, genLen(r), 10)
	case 3:
		s = ip + "."
	case 4:
		s = "." + digitsN(r, genLen(r), 10)
	}
	if r.Chance(2, 5) {
		e := "e"
		if r.Bool() {
			e = "E"
		}
		if r.Chance(1, 2) {
			e += []string{"+", "-"}[r.Intn(2)]
		}
		var ex int
		switch r.Intn(4) {
		case 0:
			ex = r.Range(0, 30)
		case 1:
			ex = r.Range(280, 340)
		case 2:
			ex = r.Range(0, 400)
		case 3:
			ex = r.Range(0, 99999)
		}
		es := big.NewInt(int64(ex)).Text(10)
		if r.Chance(1, 10) {
			es = "00" + es
		}
		if r.Chance(1, 40) {
			es = digitsN(r, 25, 10)
		}
		s += e + es
	}
	return s
}

// midpointDecimal is the exact decimal expansion of the midpoint between x
// and the next double above (x finite >= 0).
func midpointDecimal(x float64) string {
	m, e := refnum.Decompose(x)
	mi := new(big.Int).SetUint64(m)
	mi.Lsh(mi, 1)
	mi.Add(mi, big.NewInt(1))
	e-- // (2m+1) * 2^(e-1)
	if e >= 0 {
		return mi.Lsh(mi, uint(e)).Text(10)
	}
	f := -e
	mi.Mul(mi, new(big.Int).Exp(big.NewInt(5), big.NewInt(int64(f)), nil))
	s := mi.Text(10)
	if len(s) <= f {
		s = strings.Repeat("0", f-len(s)+1) + s
	}
	return s[:len(s)-f] + "." + strings.TrimRight(s[len(s)-f:], "0")
}

// bump returns the decimal string with its last digit moved up or down by
// one unit in the last place (string arithmetic; s has no exponent).
func bump(s string, up bool) string {
	b := []byte(s)
	for i := len(b) - 1; i >= 0; i-- {
		if b[i] == '.' {
			continue
		}
		if up {
			if b[i] == '9' {
				b[i] = '0'
				continue
			}
			b[i]++
			return string(b)
		}
		if b[i] == '0' {
			b[i] = '9'
			continue
		}
		b[i]--
		return string(b)
	}
	if up {
		return "1" + string(b)
	}
	return s
}

// genRoundingString: decimal strings that stress correct rounding: exact
// expansions, shortest forms and exact midpoints (+- one unit far out).
func genRoundingString(r *gen.Rand) (string, string) {
	x, _ := genDouble(r)
	if !refnum.Finite(x) {
		x = 1.5
	}
	switch r.Intn(5) {
	case 0:
		return refnum.ToString(x), "shortest"
	case 1:
		return refnum.ExactDecimal(x), "exact"
	}
	if x == math.MaxFloat64 && r.Bool() {
		x = ulps(x, -1)
	}
	mid := midpointDecimal(x)
	switch r.Intn(4) {
	case 0:
		return mid, "midpoint"
	case 1:
		return bump(mid, true), "midpoint+"
	case 2:
		return bump(mid, false), "midpoint-"
	}
	return mid + strings.Repeat("0", r.Range(1, 30)) + "1", "midpoint+tail"
}

var hostileStrings = []string{
	"1_0", "inf", "Inf", "INF", "infinity", "INFINITY", "Infinit", "+inf", "-inf", "+Inf", "-Infinity", "+Infinity", "Infinityx", "Infinity1", "InfinityInfinity", " Infinity ",
	"0x", "0X", "0b1", "0B1", "0o7", "0O7", "0x1_0", "0x_1", "0x1.8p1", "0x.8p1", "0x1p3", "0x1P-2", "0x1.0", "1e", "1e+", "1e-", "e5", "E5", ".", "+.5", "-.", "+", "-", "--1", "+-1", "-+1", "1e1.5", "1.2.3", "1,5", "1 2", "1 e5", "1e 5", "nan", "NaN", "NAN", "+NaN",
	"0x-1", "-0x10", "+0x10", "0xg", "0xG1", "1e1000", "-1e1000", "1e-1000", "1e309", "1e308", "1.8e308", "010", "0010", "08", "0.0", "-0", "+0", "-0.0", "-0e5", "1d", "1f", "1e5f", "1L", "1n", "1px", "12abc",
	"0x8000000000000000", "0xffffffffffffffff", "0x10000000000000001", "0x7fffffffffffffff", "0x20000000000001", "0x20000000000003", "0xFFFFFFFFFFFFF8000001", "0x1fffffffffffff", "0X0", "0x00000000000000000001",
	"\u0661\u0662", "\uff11\uff12", "1e\u0663", "\u2212" + "1", "1\u2009000", "1'000", "1__0", "_1", "1_", "1_.5", "1._5", "1e_5", "1e5_0", "0_1", "00_1",
	"9007199254740993", "9007199254740992.5", "9007199254740993.000000000000000000001", "0.1e1", "5.e-1", ".5E+1", "+5.", "5.e", ".e5", "1ee5", "1e++5", "1e5e5", "1e5.", "..5", "5..", "0..5",
	"1e21", "1e-7", "123456789012345678901234567890", "0.000000000000000000000000000001", "4.9406564584124654e-324", "2.4703282292062327e-324", "2.4703282292062328e-324", "1.7976931348623158e308", "1.7976931348623159e308", "2.2250738585072011e-308",
	"", " ", "\t\n", "true", "null", "undefined", "[object Object]", "1;", "(1)", "1/2", "0.1+0.2", "$1", "#1", "1%", "\"1\"", "'1'",
	"1infinity", "5 inf", "5inf", "1 Inf", "2e5inf", "1.5infinity",
}

const mutAlphabet = "0123456789.eE+-xX_ Infinitya"

func mutate(r *gen.Rand, s string, alphabet string) string {
	rs := []rune(s)
	al := []rune(alphabet)
	n := 1
	if r.Chance(1, 5) {
		n = 2
	}
	for ; n > 0; n-- {
		pos := 0
		if len(rs) > 0 {
			pos = r.Intn(len(rs) + 1)
		}
		switch r.Intn(4) {
		case 0: // insert
			c := al[r.Intn(len(al))]
			rs = append(rs[:pos], append([]rune{c}, rs[pos:]...)...)
		case 1: // delete
			if pos < len(rs) {
				rs = append(rs[:pos], rs[pos+1:]...)
			}
		case 2: // duplicate
			if pos < len(rs) {
				rs = append(rs[:pos], append([]rune{rs[pos]}, rs[pos:]...)...)
			}
		case 3: // replace
			if pos < len(rs) {
				rs[pos] = al[r.Intn(len(al))]
			}
		}
	}
	return string(rs)
}

// genNumericString generates an argument for Number()/parseFloat and a class label.
func genNumericString(r *gen.Rand) (string, string) {
	var s, cls string
	switch r.Weighted([]int{8, 6, 3, 5, 2}) {
	case 0:
		s, cls = genDecimalBody(r, false), "grammar-decimal"
		if r.Chance(1, 3) {
			s = []string{"+", "-"}[r.Intn(2)] + s
		}
	case 1:
		s, cls = genRoundingString(r)
		cls = "rounding-" + cls
		if r.Chance(1, 4) {
			s = "-" + s
		}
	case 2:
		n := r.Range(1, 20)
		if r.Chance(1, 3) {
			n = r.Range(13, 17) // around 2^53 .. 2^64
		}
		s, cls = []string{"0x", "0X"}[r.Intn(2)]+digitsN(r, n, 16), "grammar-hex"
	case 3:
		return hostileStrings[r.Intn(len(hostileStrings))], "hostile"
	case 4:
		s, cls = []string{"Infinity", "+Infinity", "-Infinity"}[r.Intn(3)], "grammar-infinity"
	}
	if r.Chance(1, 4) { // near-miss mutation
		s = mutate(r, s, mutAlphabet)
		cls = "mutated-" + cls
	}
	switch r.Intn(8) { // white space wrapping
	case 0:
		s = genWS(r) + s
		cls += "+ws"
	case 1:
		s = s + genWS(r)
		cls += "+ws"
	case 2:
		s = genWS(r) + s + genWS(r)
		cls += "+ws"
	case 3:
		if r.Chance(1, 3) {
			c := string(notWsChars[r.Intn(len(notWsChars))])
			if r.Bool() {
				s = c + s
			} else {
				s = s + c
			}
			cls += "+notws"
		}
	case 4:
		if r.Chance(1, 6) { // white space inside
			rs := []rune(s)
			if len(rs) > 1 {
				p := r.Range(1, len(rs)-1)
				s = string(rs[:p]) + genWS(r) + string(rs[p:])
				cls += "+innerws"
			}
		}
	}
	return s, cls
}

// genParseFloatString adds trailing junk to numeric strings.
func genParseFloatString(r *gen.Rand) (string, string) {
	s, cls := genNumericString(r)
	if r.Chance(1, 3) {
		junk := []string{"x", "abc", "e", "e+", ".", "..", ".5", "_0", " 1", "px", "Infinity", "infinity", "inf", "-1", "+", "e5", "E", "p3", "\u00a0", "\u200b", ",5", "f", "n", "1"}
		s += junk[r.Intn(len(junk))]
		cls += "+junk"
	}
	return s, cls
}

// genParseIntCase generates (string, radix argument, class).
func genParseIntCase(r *gen.Rand) (string, *Arg, string) {
	var arg *Arg
	radix := 10
	switch r.Weighted([]int{5, 8, 3, 2}) {
	case 0:
		arg = []*Arg{nil, {K: "none"}, {K: "undef"}, numArg(0), numArg(10), numArg(math.NaN())}[r.Intn(6)]
	case 1:
		radix = r.Range(2, 36)
		if r.Chance(1, 2) {
			radix = []int{2, 4, 8, 10, 16, 32, 36}[r.Intn(7)]
		}
		arg = numArg(float64(radix))
	case 2: // radix forms that go through ToInt32
		c := []struct {
			v float64
			r int
		}{{16.9, 16}, {4294967296 + 16, 16}, {-4294967296 + 8, 8}, {2.5, 2}, {36.99, 36}, {4294967296 * 4294967296, 10}, {math.Inf(1), 10}, {math.Inf(-1), 10}, {math.Copysign(0, -1), 10}, {0.9, 10}}[r.Intn(10)]
		arg, radix = numArg(c.v), c.r
	case 3: // invalid
		v := []float64{1, 37, -1, -16, 100, 4294967297, 1.9}
		arg, radix = numArg(v[r.Intn(len(v))]), 0
		if r.Chance(1, 4) {
			arg = []*Arg{{K: "str", S: "16"}, {K: "null"}, {K: "true"}, {K: "str", S: "abc"}, {K: "str", S: "0x10"}}[r.Intn(5)]
			radix = map[string]int{"16": 16, "": 10, "abc": 10, "0x10": 16}[arg.S]
			if arg.K == "true" {
				radix = 0
			}
		}
	}
	gr := radix // radix used to generate digits
	if gr == 0 {
		gr = 10
	}
	cls := "digits"
	var body string
	hexPrefix := false
	switch r.Weighted([]int{6, 4, 3, 2, 2}) {
	case 0:
		body = digitsN(r, r.Range(1, 12), gr)
	case 1: // long: exact for power-of-two radixes and 10; <= 20 digits otherwise
		n := r.Range(13, 80)
		switch gr {
		case 2, 4, 8, 16, 32:
			n = r.Range(50/bitsPer(gr), 80/bitsPer(gr)+2)
		case 10:
			n = r.Range(15, 21)
			if r.Chance(1, 6) {
				n = r.Range(22, 40)
			}
		default:
			n = r.Range(10, 20)
		}
		body = strings.TrimLeft(digitsN(r, n, gr), "0")
		if body == "" {
			body = "1"
		}
		cls = "long"
	case 2: // around 2^53 / 2^63 / 2^64 in the radix
		base := []*big.Int{new(big.Int).Lsh(big.NewInt(1), 53), new(big.Int).Lsh(big.NewInt(1), 63), new(big.Int).Lsh(big.NewInt(1), 64), new(big.Int).Lsh(big.NewInt(1), 31), new(big.Int).Lsh(big.NewInt(1), 32)}[r.Intn(5)]
		v := new(big.Int).Add(base, big.NewInt(int64(r.Range(-3000, 3000))))
		body = refnum.IntText(v, gr)
		cls = "edge"
	case 3:
		body = strings.Repeat("0", r.Range(1, 3)) + digitsN(r, r.Range(0, 5), gr)
		cls = "zeros"
	case 4:
		hexPrefix = true
		body = []string{"0x", "0X"}[r.Intn(2)] + digitsN(r, r.Range(0, 18), 16)
		cls = "hexprefix"
	}
	_ = hexPrefix
	s := body
	if r.Chance(1, 3) {
		s = []string{"-", "+"}[r.Intn(2)] + s
	}
	if r.Chance(1, 3) {
		junk := []string{"x", ".5", "e5", "_0", " 1", "z", "Z", "g", "8", "9", "2", "\u00a0", "\u0661", "n", "-", "."}
		s += junk[r.Intn(len(junk))]
		cls += "+junk"
	}
	if r.Chance(1, 6) {
		s = mutate(r, s, "0123456789xX+-_ .azAZ")
		cls = "mutated-" + cls
	}
	if r.Chance(1, 4) {
		s = genWS(r) + s
		cls += "+ws"
	}
	if r.Chance(1, 8) {
		s = s + genWS(r)
	}
	if r.Chance(1, 30) {
		s = string(notWsChars[r.Intn(len(notWsChars))]) + s
		cls += "+notws"
	}
	if r.Chance(1, 25) {
		s = hostileStrings[r.Intn(len(hostileStrings))]
		cls = "hostile"
	}
	return s, arg, cls
}

func bitsPer(radix int) int {
	switch radix {
	case 2:
		return 1
	case 4:
		return 2
	case 8:
		return 3
	case 16:
		return 4
	}
	return 5
}

// genLiteralText generates source text for the NumericLiteral route.
func genLiteralText(r *gen.Rand) (string, string) {
	var s, cls string
	switch r.Weighted([]int{8, 4, 3, 4, 3}) {
	case 0:
		s, cls = genDecimalBody(r, true), "decimal"
	case 1:
		n := r.Range(1, 20)
		if r.Chance(1, 3) {
			n = r.Range(13, 17)
		}
		s, cls = []string{"0x", "0X"}[r.Intn(2)]+digitsN(r, n, 16), "hex"
	case 2:
		s, cls = "0"+digitsN(r, r.Range(1, 24), 8), "octal"
		if r.Chance(1, 5) {
			s, cls = "0"+digitsN(r, r.Range(1, 6), 10), "octal-or-illegal"
		}
	case 3:
		s, cls = genRoundingString(r)
		cls = "rounding-" + cls
	case 4:
		lits := []string{"1_0", "0x", "0X", "0b1", "0o7", "1e", "1e+", "1e-", ".", "5.", ".5", "5..", "..5", "1..e5", "1.e5", "1.e", "1.5.e", "1.5.2", "0x1g", "0x1.8", "0x1.e", "1a", "1e5f", "0e5", "0.e5", "00", "00.5", "08", "09.5", "010", "0777", "0778", "07.5", "0x1_0", "1__0",
			"9007199254740993", "9223372036854775807", "9223372036854775808", "18446744073709551616", "0x8000000000000000", "0xffffffffffffffff", "0x20000000000001", "0x20000000000003", "0xFFFFFFFFFFFFF8000001", "0x7fffffffffffffff",
			"1e400", "1e-400", "1e308", "1.8e308", "1E5", "1e+5", "1e-5", "1e05", "0.0", "0.", ".0", "1e1e1", "1.5e5.e5", "0x10.x", "1_", "_1", "1.e5.e5.e5", "5.e5.x", "0xe+1", "0xe-1", "1e+x", "0x1e+1", "1.+5", "1.5+.5", "e+5", "x", "1+e", "1..x.y+e", "e+1..x.y",
			"1000000000000000000000", "999999999999999999999", "100000000000000000000000000000", "4.9406564584124654e-324", "2.4703282292062327e-324", "2.4703282292062328e-324", "1.7976931348623158e308", "1.7976931348623159e308"}
		return lits[r.Intn(len(lits))], "hostile"
	}
	if r.Chance(1, 4) {
		s = mutate(r, s, "0123456789.eExX_abf")
		// '+'/'-' only directly after an exponent marker (elsewhere they are operators)
		cls = "mutated-" + cls
	}
	return s, cls
}
