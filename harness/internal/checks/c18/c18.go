// Package c18 monitors interrupt delivery and abnormal exits. The step hook is
// the product's own mechanism: a function sent on Otto.Interrupt that re-sends
// itself is invoked at every polling point of the interpreter, so "inject at
// step k" is a panic raised inside that function at its k-th invocation. The
// oracle is logical (step-indexed against a dry run of the same program), not
// wall-clock, except for the promptness cases, which use a control runtime.
package c18

import (
	"encoding/json"
	"fmt"
	"strings"
	"time"

	"github.com/robertkrimen/otto"

	"verif/internal/gen"
	"verif/internal/gt"
	"verif/internal/ox"
	"verif/internal/pgen"
	"verif/internal/run"
)

// Input is one self-contained case.
type Input struct {
	Kind  string `json:"kind"` // inject | hostpanic | exit | prompt | limit
	Src   string `json:"src,omitempty"`
	K     int    `json:"k,omitempty"`     // inject: polling step; hostpanic: host call number
	All   bool   `json:"all,omitempty"`   // inject/hostpanic: every k of the program
	Limit int    `json:"limit,omitempty"` // limit cases
	Depth int    `json:"depth,omitempty"`
	Shape string `json:"shape,omitempty"`
}

type sentinel struct{ id int }

func init() {
	run.Register(&run.Check{
		ID:    "C18",
		Level: "fault_enumeration",
		Rule:  "inject cases: a generated program (plus a fixed suffix that runs callbacks inside forEach/map/sort/replace/JSON.parse reviver/getter/toString, with, eval, labelled loops, try/finally) is dry-run with a self-re-arming interrupt function to number its N polling steps; then for every k (all k when N <= 300, else 300 stratified) a fresh runtime is interrupted by a panic at step k and checked: Run unwinds with exactly that panic, the host-call trace and the global $fuel counter equal the dry-run prefix at step k, scope depth and pending labels are zero, a fixed probe script still gives its known result; hostpanic cases do the same for a panic raised by the host function at its j-th call; exit cases: uncaught exception and stack-limit RangeError; prompt cases: poll-free loop shapes armed from another goroutine with a control runtime; limit cases: plain nesting depth d around limit L must succeed iff d < L. Non-trivial = injections that landed while a try, labelled statement, with, eval or native callback was active (recorded by markers), distinct by (program, k)",
		Assumptions: []string{
			"step numbering is the interpreter's own polling order; the dry run and the injected run execute the same deterministic program, so step k denotes the same point",
			"promptness verdicts use a 10 s watchdog only together with a control runtime armed at the same instant (violation only if the control was interrupted and the target was not)",
			"the stack limit counts execution contexts including the global one: limit L admits L-1 nested plain function calls (pinned by Test_stackLimit); native-mediated shapes are only required to fail with a catchable RangeError (C02)",
		},
		Floor: func(tier string) int {
			if tier == "thorough" {
				return 100000
			}
			return 2000
		},
		Cases: func(tier string, seed uint64) int {
			if tier == "thorough" {
				return 15000
			}
			return 400
		},
		CaseTimeoutS: 300,
		Exec:         exec,
		Replay: func(c *run.Ctx, raw json.RawMessage) {
			var in Input
			if err := json.Unmarshal(raw, &in); err != nil {
				panic(err)
			}
			checkOne(c, in)
		},
	})
	registerMatchers()
}

const suffix = `
;(function(){
  var acc = [];
  [3,1,2].forEach(function(x){ M("cb"); acc.push(x); log("forEach", x); M("/cb") });
  log("map", [1,2].map(function(x){ M("cb"); var r = x * 2; M("/cb"); return r }).join());
  log("sort", [3,1,2].sort(function(a,b){ M("cb"); var r = a - b; M("/cb"); return r }).join());
  log("replace", "aXbX".replace(/X/g, function(m){ M("cb"); log("rep", m); M("/cb"); return "-" }));
  log("reviver", JSON.stringify(JSON.parse('{"a":[1,2],"b":3}', function(k, v){ M("cb"); M("/cb"); return typeof v === "number" ? v + 1 : v })));
  var o = { get g(){ M("cb"); log("getter"); M("/cb"); return 7 }, toString: function(){ M("cb"); log("toString"); M("/cb"); return "S" } };
  log("coerce", o.g + o);
  with ({w: 1}) { M("with"); log("with", w); M("/with") }
  log("eval", eval("M('eval'); var ev = 0; for (var q = 0; q < 2; q++) { ev += q } M('/eval'); ev"));
  OUT: for (var i = 0; i < 2; i++) { M("label"); for (var j = 0; j < 2; j++) { if (j == 1) continue OUT; log("ij", i, j) } M("/label") }
  try { M("try"); try { throw new Error("x") } finally { log("finally-1") } } catch (e) { log("caught", e.message) } finally { M("/try"); log("finally-2") }
  function rec(n){ return n ? n + rec(n - 1) : 0 }
  log("rec", rec(8));
})();
`

const probe = `(function(){ var r=[]; L: for (var i=0;i<3;i++){ for(;;){ if(i==1) continue L; break; } r.push(i) } function f(n){return n?n+f(n-1):0} try { throw 1 } catch(e){ r.push(e) } finally { r.push("f") } var c=(function(){var n=0;return function(){return ++n}})(); c(); return r.join() + "|" + f(10) + "|" + c() })()`

const probeWant = "0,2,1,f|55|2"

func program(r *gen.Rand) string {
	g := pgen.NewG(r)
	p := g.Program()
	src, _ := gt.RenderStyle(p, gt.Style{})
	return src + suffix
}

// runtime under observation
type obs struct {
	vm      *otto.Otto
	events  []string
	markers []string // active region markers (try/with/eval/label/cb)
	steps   int
	calls   int
}

func newObs() *obs {
	o := &obs{vm: otto.New()}
	o.vm.Set("log", func(call otto.FunctionCall) otto.Value {
		o.calls++
		parts := make([]string, len(call.ArgumentList))
		for i, a := range call.ArgumentList {
			parts[i] = ox.Enc(a)
		}
		o.events = append(o.events, strings.Join(parts, ","))
		return otto.UndefinedValue()
	})
	o.vm.Set("M", func(call otto.FunctionCall) otto.Value {
		m := call.Argument(0).String()
		if strings.HasPrefix(m, "/") {
			if n := len(o.markers); n > 0 {
				o.markers = o.markers[:n-1]
			}
		} else {
			o.markers = append(o.markers, m)
		}
		return otto.UndefinedValue()
	})
	return o
}

func (o *obs) fuel() string {
	v, err := o.vm.Get("$fuel")
	if err != nil {
		return "err"
	}
	return ox.Enc(v)
}

type stepRec struct {
	events int
	fuel   string
	region string
}

// dryRun numbers the polling steps of src.
func dryRun(src string) (recs []stepRec, out ox.Outcome, trace []string) {
	o := newObs()
	o.vm.Interrupt = make(chan func(), 1)
	var tick func()
	tick = func() {
		o.steps++
		recs = append(recs, stepRec{events: len(o.events), fuel: o.fuel(), region: strings.Join(o.markers, ">")})
		select {
		case o.vm.Interrupt <- tick:
		default:
		}
	}
	o.vm.Interrupt <- tick
	out = ox.Run(o.vm, src)
	return recs, out, o.events
}

func postChecks(c *run.Ctx, in Input, o *obs, site string) {
	if d, l := otto.VerifRest(o.vm); d != 0 || l != 0 {
		c.Fail("mismatch", site+":rest", in, "scope depth 0, pending labels 0", fmt.Sprintf("scope depth %d, pending labels %d", d, l), "")
	}
	o.vm.Interrupt = nil
	p := ox.Run(o.vm, probe)
	if p.Panic != nil || p.Err != nil || p.Val.String() != probeWant {
		c.Fail("mismatch", site+":follow-up", in, probeWant, p.String(), "probe script after the abnormal exit")
	}
	if d, l := otto.VerifRest(o.vm); d != 0 || l != 0 {
		c.Fail("mismatch", site+":rest-after-probe", in, "scope depth 0, pending labels 0", fmt.Sprintf("scope depth %d, pending labels %d", d, l), "")
	}
}

func injectAt(c *run.Ctx, in Input, recs []stepRec, dryTrace []string, k int) {
	one := Input{Kind: "inject", Src: in.Src, K: k}
	o := newObs()
	s := &sentinel{k}
	o.vm.Interrupt = make(chan func(), 1)
	fired := false
	var tick func()
	tick = func() {
		o.steps++
		if o.steps == k {
			fired = true
			panic(s)
		}
		select {
		case o.vm.Interrupt <- tick:
		default:
		}
	}
	o.vm.Interrupt <- tick
	out := ox.Run(o.vm, in.Src)
	c.Eval(1)
	rec := recs[k-1]
	switch {
	case !fired:
		c.Fail("mismatch", "inject:not-delivered", one, fmt.Sprintf("interrupt function invoked at polling step %d", k), fmt.Sprintf("run ended after %d steps: %s", o.steps, out), "")
		return
	case out.Panic == nil:
		c.Fail("mismatch", "inject:swallowed", one, "Run unwinds with the interrupt function's panic", "Run returned: "+out.String(), "region="+rec.region)
	case out.Panic != interface{}(s):
		c.Fail("mismatch", "inject:other-panic", one, "the sentinel panic value", fmt.Sprintf("%T %v", out.Panic, out.Panic), "region="+rec.region)
	}
	// the script did not continue: trace and effects are exactly the dry-run prefix
	want := strings.Join(dryTrace[:rec.events], " | ")
	got := strings.Join(o.events, " | ")
	if got != want {
		c.Fail("mismatch", "inject:continued", one, want, got, "host calls after the injection step; region="+rec.region)
	}
	if f := o.fuel(); f != rec.fuel {
		c.Fail("mismatch", "inject:effects", one, "$fuel="+rec.fuel, "$fuel="+f, "global state at the injection step; region="+rec.region)
	}
	postChecks(c, one, o, "inject")
	if rec.region != "" {
		c.Nontrivial(fmt.Sprintf("%x|%d", gen.HashString(in.Src), k))
		c.Feature("region:" + rec.region[strings.LastIndex(rec.region, ">")+1:])
	}
}

func checkInject(c *run.Ctx, in Input) {
	recs, out, dryTrace := dryRun(in.Src)
	if out.Panic != nil {
		c.Fail("panic", "dry-run", in, "value or error", fmt.Sprint(out.Panic), out.Stack)
		return
	}
	n := len(recs)
	c.FeatureN("polling-steps", n)
	if n == 0 {
		c.Inconclusive("no polling step observed")
		return
	}
	if !in.All {
		if in.K >= 1 && in.K <= n {
			injectAt(c, in, recs, dryTrace, in.K)
		}
		return
	}
	step := 1
	if n > 300 {
		step = n / 300
	}
	for k := 1 + c.Rng.Intn(step); k <= n; k += step {
		injectAt(c, in, recs, dryTrace, k)
	}
	c.Sample(map[string]interface{}{"kind": "inject", "polling_steps": n, "host_calls": len(dryTrace), "src_tail": in.Src[max(0, len(in.Src)-200):]})
}

// host function panic at its j-th call
func checkHostPanic(c *run.Ctx, in Input) {
	_, out, dryTrace := dryRun(in.Src)
	if out.Panic != nil {
		return
	}
	n := len(dryTrace)
	js := []int{in.K}
	if in.All {
		js = nil
		step := 1
		if n > 60 {
			step = n / 60
		}
		for j := 1 + c.Rng.Intn(step); j <= n; j += step {
			js = append(js, j)
		}
	}
	for _, j := range js {
		if j < 1 || j > n {
			continue
		}
		one := Input{Kind: "hostpanic", Src: in.Src, K: j}
		o := newObs()
		s := &sentinel{j}
		calls := 0
		o.vm.Set("log", func(call otto.FunctionCall) otto.Value {
			calls++
			if calls == j {
				panic(s)
			}
			parts := make([]string, len(call.ArgumentList))
			for i, a := range call.ArgumentList {
				parts[i] = ox.Enc(a)
			}
			o.events = append(o.events, strings.Join(parts, ","))
			return otto.UndefinedValue()
		})
		out := ox.Run(o.vm, in.Src)
		c.Eval(1)
		if out.Panic != interface{}(s) {
			c.Fail("mismatch", "hostpanic:swallowed", one, "Run unwinds with the host function's panic", out.String(), "")
		}
		want := strings.Join(dryTrace[:j-1], " | ")
		if got := strings.Join(o.events, " | "); got != want {
			c.Fail("mismatch", "hostpanic:continued", one, want, got, "host calls after the panicking call")
		}
		postChecks(c, one, o, "hostpanic")
		c.Nontrivial(fmt.Sprintf("hp|%x|%d", gen.HashString(in.Src), j))
	}
}

var exitScripts = []string{
	`function f(){ L: for(;;){ try { throw new TypeError("t") } finally { log("fin") } } } f()`,
	`var o = {get g(){ throw 42 }}; with (o) { A: { B: while (true) { g } } }`,
	`[1,2].forEach(function(x){ eval("(function(){ null.x })()") })`,
	`function r(){ return r() } try { r() } finally { log("unwound") }`,
	`"x".replace(/x/, function(){ throw new RangeError("r") })`,
	`JSON.parse('[1]', function(){ undefinedFunction() })`,
	`new (function C(){ this.a = nope })()`,
	`(function(){ try { throw 1 } catch (e) { throw e + 1 } })()`,
}

func checkExit(c *run.Ctx, in Input) {
	o := newObs()
	if in.Limit > 0 {
		o.vm.SetStackDepthLimit(in.Limit)
	}
	out := ox.Run(o.vm, in.Src)
	c.Eval(1)
	if out.Panic != nil {
		c.Fail("panic", "exit", in, "error", fmt.Sprint(out.Panic), out.Stack)
		return
	}
	if out.Err == nil {
		c.Fail("mismatch", "exit", in, "an uncaught exception", out.String(), "")
	}
	o.vm.SetStackDepthLimit(0)
	postChecks(c, in, o, "exit")
	c.Nontrivial("exit|" + in.Src + fmt.Sprint(in.Limit))
}

var promptShapes = []string{
	`for(;;);`, `for(;;){}`, `while(1);`, `while(true){}`, `do;while(1)`, `do{}while(true)`, `L: for(;;) continue L;`, `for(;;){ continue }`,
	`[1].forEach(function(){ for(;;); })`, `"a".replace(/a/, function(){ while(1); })`, `({get g(){ for(;;); }}).g`, `eval("for(;;);")`, `with({}) for(;;);`,
	`switch(1){ case 1: for(;;); }`, `try { for(;;); } finally {}`, `function f(){ for(;;); } f()`, `var i = 0; for(;;) i++`, `for(;;) { try { continue } finally { } }`,
	`JSON.parse('[1]', function(){ for(;;){} })`, `[2,1].sort(function(){ while(true){} })`, `(function f(){ for(;;) if (false) break })()`,
	// the loop runs inside a conversion that a built-in performs through Go's fmt (console.log arguments, the text of a
	// TypeError): fmt recovers panics of String methods, so the halt must not be raised under it
	`console.log({toString: function(){ for(;;){} }}); for(;;){}`,
	`try { [1].forEach({toString: function(){ for(;;){} }}) } catch (e) {} for(;;){}`,
	`try { Function.prototype.call.call({toString: function(){ for(;;){} }}) } catch (e) {} for(;;){}`,
	// no node is evaluated: built-ins calling built-ins (2^40 native calls at depth 41)
	`var a = [1, 1], c = Boolean; for (var i = 0; i < 40; i++) c = Array.prototype.every.bind(a, c); c()`,
}

// checkPrompt: an armed interrupt is delivered in every loop shape.
func checkPrompt(c *run.Ctx, in Input) {
	type res struct {
		interrupted bool
		out         ox.Outcome
	}
	start := func(src string) (*otto.Otto, chan res) {
		vm := otto.New()
		vm.Interrupt = make(chan func(), 1)
		ch := make(chan res, 1)
		go func() {
			out := ox.Run(vm, src)
			_, ok := out.Panic.(*sentinel)
			ch <- res{ok, out}
		}()
		return vm, ch
	}
	target, tch := start(in.Src)
	control, cch := start(`var x = 0; while (true) { x++ }`)
	time.Sleep(30 * time.Millisecond)
	s := &sentinel{0}
	target.Interrupt <- func() { panic(s) }
	control.Interrupt <- func() { panic(s) }
	c.Eval(1)
	var tr, cr *res
	deadline := time.After(10 * time.Second)
	for tr == nil || cr == nil {
		select {
		case r := <-tch:
			tr = &r
		case r := <-cch:
			cr = &r
		case <-deadline:
			switch {
			case cr != nil && cr.interrupted && tr == nil:
				c.Fail("mismatch", "prompt:not-delivered", in, "interrupt function invoked while the script loops", "not invoked within the window in which the control runtime was interrupted", "")
			default:
				c.Inconclusive("promptness watchdog fired without a live control")
			}
			return
		}
	}
	if !tr.interrupted {
		c.Fail("mismatch", "prompt:not-unwound", in, "Run unwinds with the interrupt panic", tr.out.String(), "")
	}
	if d, l := otto.VerifRest(target); d != 0 || l != 0 {
		c.Fail("mismatch", "prompt:rest", in, "scope depth 0, pending labels 0", fmt.Sprintf("scope depth %d, pending labels %d", d, l), "")
	}
	c.Nontrivial("prompt|" + in.Src)
	c.Feature("prompt-shape")
}

var limitShapes = map[string]string{
	"plain":  "function f(n){ return n <= 1 ? 1 : 1 + f(n - 1) } f(D)",
	"method": "var o = { m: function(n){ return n <= 1 ? 1 : 1 + this.m(n - 1) } }; o.m(D)",
	"new":    "function F(n){ this.d = n <= 1 ? 1 : 1 + new F(n - 1).d } new F(D).d",
	"expr":   "var f = function g(n){ return n <= 1 ? 1 : 1 + g(n - 1) }; f(D)",
	// the innermost level is a direct eval whose code makes no call: it counts like a call (10.4.2 enters a context)
	"evalleaf": "function f(n){ return n <= 2 ? eval('1 + 1') : 1 + f(n - 1) } f(D)",
	"evalnest": "function f(n){ return n <= 3 ? eval('eval(\\'2 + 1\\')') : 1 + f(n - 1) } f(D)",
	"mutual": "function a(n){ return n <= 1 ? 1 : 1 + b(n - 1) } function b(n){ return n <= 1 ? 1 : 1 + a(n - 1) } a(D)",
}

// checkLimit: limit L admits exactly L-1 nested plain calls.
func checkLimit(c *run.Ctx, in Input) {
	vm := otto.New()
	vm.SetStackDepthLimit(in.Limit)
	src := strings.ReplaceAll(limitShapes[in.Shape], "D", fmt.Sprint(in.Depth))
	out := ox.Run(vm, src)
	c.Eval(1)
	if out.Panic != nil {
		c.Fail("panic", "limit", in, "value or RangeError", fmt.Sprint(out.Panic), out.Stack)
		return
	}
	wantOK := in.Depth < in.Limit
	switch {
	case wantOK && (out.Err != nil || out.Val.String() != fmt.Sprint(in.Depth)):
		c.Fail("mismatch", "limit:"+in.Shape, in, fmt.Sprintf("depth %d admitted under limit %d (result %d)", in.Depth, in.Limit, in.Depth), out.String(), src)
	case !wantOK && (out.Err == nil || ox.ErrClass(out.Err) != "RangeError"):
		c.Fail("mismatch", "limit:"+in.Shape, in, fmt.Sprintf("RangeError: depth %d exceeds limit %d", in.Depth, in.Limit), out.String(), src)
	}
	if d, l := otto.VerifRest(vm); d != 0 || l != 0 {
		c.Fail("mismatch", "limit:rest", in, "scope depth 0, pending labels 0", fmt.Sprintf("scope depth %d, pending labels %d", d, l), "")
	}
	// the full limit is available again
	again := ox.Run(vm, strings.ReplaceAll(limitShapes["plain"], "D", fmt.Sprint(in.Limit-1)))
	if in.Limit >= 2 && (again.Err != nil || again.Panic != nil) {
		c.Fail("mismatch", "limit:after", in, "full depth available after the RangeError", again.String(), "")
	}
	c.Nontrivial(fmt.Sprintf("limit|%s|%d|%d", in.Shape, in.Limit, in.Depth))
}

// checkLimitCall: a host function calls back through the Go API (Otto.Call or
// Value.Call) from depth d under limit L and returns normally whether the call
// was admitted or refused with a RangeError. Whatever the outcome, every script
// frame continues with its own variables, nothing is left on the scope stack
// and the full limit is available afterwards.
func checkLimitCall(c *run.Ctx, in Input) {
	vm := otto.New()
	vm.SetStackDepthLimit(in.Limit)
	refusals, admitted := 0, 0
	vm.Set("host", func(call otto.FunctionCall) otto.Value {
		var v otto.Value
		var err error
		if in.Shape == "otto" {
			v, err = call.Otto.Call("leaf", nil)
		} else {
			v, err = call.Argument(0).Call(otto.UndefinedValue())
		}
		if err != nil {
			if ox.ErrClass(err) != "RangeError" {
				panic(call.Otto.MakeCustomError("Error", "call back failed with "+err.Error()))
			}
			refusals++
			r, _ := otto.ToValue("refused")
			return r
		}
		admitted++
		return v
	})
	src := strings.ReplaceAll("function leaf(){ return 'leaf' } function f(n){ var mine = 'L' + n; if (n <= 0) { var got = host(leaf); return (mine === 'L0' && (got === 'leaf' || got === 'refused')) ? 0 : NaN } var r = 1 + f(n - 1); return mine === 'L' + n ? r : NaN } f(D)", "D", fmt.Sprint(in.Depth))
	out := ox.Run(vm, src)
	c.Eval(1)
	switch {
	case out.Panic != nil:
		c.Fail("panic", "limitcall:"+in.Shape, in, "value or RangeError", fmt.Sprint(out.Panic), out.Stack)
		return
	case out.Err != nil && ox.ErrClass(out.Err) != "RangeError":
		c.Fail("mismatch", "limitcall:"+in.Shape, in, "value or RangeError", out.String(), src)
	case out.Err == nil && out.Val.String() != fmt.Sprint(in.Depth):
		c.Fail("mismatch", "limitcall:"+in.Shape, in, fmt.Sprintf("every frame continues in its own execution context: %d", in.Depth), out.String(), src)
	}
	if d, l := otto.VerifRest(vm); d != 0 || l != 0 {
		c.Fail("mismatch", "limitcall:rest", in, "scope depth 0, pending labels 0", fmt.Sprintf("scope depth %d, pending labels %d", d, l), "")
	}
	again := ox.Run(vm, strings.ReplaceAll(limitShapes["plain"], "D", fmt.Sprint(in.Limit-1)))
	if in.Limit >= 2 && (again.Err != nil || again.Panic != nil) {
		c.Fail("mismatch", "limitcall:after", in, "full depth available afterwards", again.String(), "")
	}
	switch {
	case refusals > 0:
		c.Feature("limitcall:refused-in-host")
	case admitted > 0:
		c.Feature("limitcall:admitted")
	default:
		c.Feature("limitcall:host-not-reached")
	}
	c.Nontrivial(fmt.Sprintf("limitcall|%s|%d|%d", in.Shape, in.Limit, in.Depth))
}

func checkOne(c *run.Ctx, in Input) {
	c.Announce(in)
	switch in.Kind {
	case "limitcall":
		checkLimitCall(c, in)
	case "inject":
		checkInject(c, in)
	case "hostpanic":
		checkHostPanic(c, in)
	case "exit":
		checkExit(c, in)
	case "prompt":
		checkPrompt(c, in)
	case "limit":
		checkLimit(c, in)
	}
	c.Feature("kind:" + in.Kind)
}

func exec(c *run.Ctx, i int) {
	r := c.Rng
	switch {
	case i%10 < 6:
		checkOne(c, Input{Kind: "inject", Src: program(r), All: true})
	case i%10 < 8:
		checkOne(c, Input{Kind: "hostpanic", Src: program(r), All: true})
	case i%10 == 8:
		for _, s := range exitScripts {
			checkOne(c, Input{Kind: "exit", Src: s, Limit: 100})
		}
		checkOne(c, Input{Kind: "exit", Src: "function r(){ return r() } r()", Limit: []int{1, 2, 5, 50}[r.Intn(4)]})
		shapes := []string{"plain", "method", "new", "expr", "mutual"}
		for _, L := range []int{1, 2, 3, 4, 5, 6, 10, 50, 200} {
			for d := L - 2; d <= L+2; d++ {
				if d >= 1 {
					checkOne(c, Input{Kind: "limit", Limit: L, Depth: d, Shape: shapes[r.Intn(len(shapes))]})
					if sh := []string{"evalleaf", "evalnest"}[r.Intn(2)]; d >= 3 {
						checkOne(c, Input{Kind: "limit", Limit: L, Depth: d, Shape: sh})
					}
				}
			}
		}
		for _, L := range []int{2, 3, 5, 6, 12, 50} {
			for d := L - 6; d <= L+1; d++ {
				if d >= 0 {
					checkOne(c, Input{Kind: "limitcall", Limit: L, Depth: d, Shape: []string{"otto", "value"}[r.Intn(2)]})
				}
			}
		}
	default:
		for k := 0; k < 4; k++ {
			checkOne(c, Input{Kind: "prompt", Src: promptShapes[r.Intn(len(promptShapes))]})
		}
	}
}
