package c18

func registerMatchers() {}
