package c03

import (
	"fmt"
	"strings"

	"github.com/robertkrimen/otto/ast"
	"github.com/robertkrimen/otto/token"

	"verif/internal/gt"
	"verif/internal/ox"
)

// Both the generating tree and otto's AST are rendered to the same canonical
// S-expression text; structural equality of the trees is equality of the texts.

func list(head string, parts ...string) string {
	if len(parts) == 0 {
		return "(" + head + ")"
	}
	return "(" + head + " " + strings.Join(parts, " ") + ")"
}

// ---------------------------------------------------------------- gt side

// devRawNumericKeys switches the expected dump to the known deviation
// KF-C03-numeric-key-spelling (used only by its matcher).
var devRawNumericKeys bool

func gList(ns []gt.Node) []string {
	out := make([]string, len(ns))
	for i, n := range ns {
		out[i] = G(n)
	}
	return out
}

// gDecls lists what 10.5 declaration binding instantiation will see for a
// function body or program, in source order: function declarations and var
// statements of this scope (nested functions have their own list). The parser
// hands the same list to the runtime (DeclarationList), which hoists from it.
func gDecls(body []gt.Node) string {
	var out []string
	var walk func(n gt.Node)
	walkAll := func(ns []gt.Node) {
		for _, n := range ns {
			walk(n)
		}
	}
	walk = func(n gt.Node) {
		switch x := n.(type) {
		case *gt.Func:
			if x.Decl {
				out = append(out, "fn:"+identValue(x.Name))
			}
		case *gt.Var:
			names := make([]string, len(x.Decls))
			for i, d := range x.Decls {
				names[i] = identValue(d.Name)
			}
			out = append(out, "var:"+strings.Join(names, ","))
		case *gt.Block:
			if x != nil {
				walkAll(x.Body)
			}
		case *gt.If:
			walk(x.Then)
			walk(x.Else)
		case *gt.For:
			walk(x.Init)
			walk(x.Body)
		case *gt.ForIn:
			if x.Decl {
				if id, ok := x.Left.(*gt.Ident); ok {
					out = append(out, "var:"+identValue(id.Name))
				}
			}
			walk(x.Body)
		case *gt.While:
			walk(x.Body)
		case *gt.DoWhile:
			walk(x.Body)
		case *gt.With:
			walk(x.Body)
		case *gt.Switch:
			for _, c := range x.Cases {
				walkAll(c.Body)
			}
		case *gt.Labeled:
			walk(x.Body)
		case *gt.Try:
			walk(x.Block)
			walk(x.Catch)
			walk(x.Finally)
		}
	}
	walkAll(body)
	return list("decls", out...)
}

// G dumps a generating tree.
func G(n gt.Node) string {
	switch x := n.(type) {
	case nil:
		return "nil"
	case *gt.Program:
		return list("program", append([]string{gDecls(x.Body)}, gList(x.Body)...)...)
	case *gt.Num:
		return list("num", ox.Num(x.V))
	case *gt.Str:
		return list("str", ox.Str(x.V))
	case *gt.Bool:
		return list("bool", fmt.Sprint(x.V))
	case *gt.Null:
		return "(null)"
	case *gt.This:
		return "(this)"
	case *gt.Ident:
		return list("id", identValue(x.Name))
	case *gt.RegExp:
		return list("regexp", ox.Str(x.Pattern), ox.Str(x.Flags))
	case *gt.Paren:
		return G(x.X)
	case *gt.ArrayLit:
		parts := make([]string, len(x.Elems))
		for i, e := range x.Elems {
			if e == nil {
				parts[i] = "hole"
			} else {
				parts[i] = G(e)
			}
		}
		return list("arr", parts...)
	case *gt.ObjectLit:
		var parts []string
		for _, p := range x.Props {
			key := p.Key
			if devRawNumericKeys && p.KeyRaw != "" && p.KeyRaw[0] != '"' && p.KeyRaw[0] != '\'' {
				key = p.KeyRaw // known deviation: numeric keys keep their source spelling
			}
			parts = append(parts, list(p.Kind, ox.Str(key), G(p.Value)))
		}
		return list("obj", parts...)
	case *gt.Func:
		head := "fn"
		if x.Decl {
			head = "fndecl"
		}
		return list(head, append([]string{"name:" + x.Name, list("params", x.Params...), gDecls(x.Body)}, gList(x.Body)...)...)
	case *gt.Unary:
		return list("un", x.Op, G(x.X))
	case *gt.Update:
		if x.Prefix {
			return list("pre", x.Op, G(x.X))
		}
		return list("post", x.Op, G(x.X))
	case *gt.Binary:
		return list("bin", x.Op, G(x.L), G(x.R))
	case *gt.Logical:
		return list("bin", x.Op, G(x.L), G(x.R))
	case *gt.Assign:
		return list("asg", x.Op, G(x.Target), G(x.Value))
	case *gt.Cond:
		return list("cond", G(x.Test), G(x.Then), G(x.Else))
	case *gt.Comma:
		return list("seq", gList(x.Exprs)...)
	case *gt.Member:
		return list("dot", G(x.Obj), x.Name)
	case *gt.Index:
		return list("idx", G(x.Obj), G(x.Prop))
	case *gt.Call:
		return list("call", append([]string{G(x.Callee)}, gList(x.Args)...)...)
	case *gt.New:
		return list("new", append([]string{G(x.Callee)}, gList(x.Args)...)...)
	case *gt.Var:
		var parts []string
		for _, d := range x.Decls {
			parts = append(parts, list("decl", d.Name, G(d.Init)))
		}
		return list("var", parts...)
	case *gt.ExprStmt:
		return list("expr", G(x.X))
	case *gt.Block:
		if x == nil {
			return "nil"
		}
		return list("block", gList(x.Body)...)
	case *gt.If:
		return list("if", G(x.Test), G(x.Then), G(x.Else))
	case *gt.For:
		return list("for", G(x.Init), G(x.Test), G(x.Update), G(x.Body))
	case *gt.ForIn:
		if x.Decl {
			return list("forin", list("decl", x.Left.(*gt.Ident).Name, G(x.Init)), G(x.Obj), G(x.Body))
		}
		return list("forin", G(x.Left), G(x.Obj), G(x.Body))
	case *gt.While:
		return list("while", G(x.Test), G(x.Body))
	case *gt.DoWhile:
		return list("dowhile", G(x.Body), G(x.Test))
	case *gt.Continue:
		return list("continue", "label:"+x.Label)
	case *gt.Break:
		return list("break", "label:"+x.Label)
	case *gt.Return:
		return list("return", G(x.X))
	case *gt.With:
		return list("with", G(x.Obj), G(x.Body))
	case *gt.Switch:
		parts := []string{G(x.Disc)}
		for _, c := range x.Cases {
			if c.Test == nil {
				parts = append(parts, list("default", gList(c.Body)...))
			} else {
				parts = append(parts, list("case", append([]string{G(c.Test)}, gList(c.Body)...)...))
			}
		}
		return list("switch", parts...)
	case *gt.Labeled:
		return list("label", x.Label, G(x.Body))
	case *gt.Throw:
		return list("throw", G(x.X))
	case *gt.Try:
		c := "nil"
		if x.Catch != nil {
			c = list("catch", x.Param, G(x.Catch))
		}
		f := "nil"
		if x.Finally != nil {
			f = G(x.Finally)
		}
		return list("try", G(x.Block), c, f)
	case *gt.Empty:
		return "(empty)"
	case *gt.Debugger:
		return "(debugger)"
	}
	panic(fmt.Sprintf("c03: cannot dump %T", n))
}

// ---------------------------------------------------------------- otto AST side

func aExprs(es []ast.Expression) []string {
	out := make([]string, len(es))
	for i, e := range es {
		out[i] = A(e)
	}
	return out
}

func aStmts(ss []ast.Statement) []string {
	out := make([]string, len(ss))
	for i, s := range ss {
		out[i] = A(s)
	}
	return out
}

func assignOp(t token.Token) string {
	if t == token.ASSIGN {
		return "="
	}
	return t.String() + "="
}

func aFunc(head string, f *ast.FunctionLiteral) string {
	name := ""
	if f.Name != nil {
		name = f.Name.Name
	}
	var params []string
	if f.ParameterList != nil {
		for _, p := range f.ParameterList.List {
			params = append(params, p.Name)
		}
	}
	var body []string
	if b, ok := f.Body.(*ast.BlockStatement); ok {
		body = aStmts(b.List)
	} else {
		body = []string{"BODY-NOT-BLOCK:" + A(f.Body)}
	}
	return list(head, append([]string{"name:" + name, list("params", params...), aDecls(f.DeclarationList)}, body...)...)
}

func aDecls(ds []ast.Declaration) string {
	var out []string
	for _, d := range ds {
		switch x := d.(type) {
		case *ast.FunctionDeclaration:
			if x.Function == nil || x.Function.Name == nil {
				out = append(out, "fn:NIL")
			} else {
				out = append(out, "fn:"+x.Function.Name.Name)
			}
		case *ast.VariableDeclaration:
			names := make([]string, len(x.List))
			for i, v := range x.List {
				if v == nil {
					names[i] = "NIL"
				} else {
					names[i] = v.Name
				}
			}
			out = append(out, "var:"+strings.Join(names, ","))
		default:
			out = append(out, fmt.Sprintf("UNKNOWN-DECLARATION:%T", d))
		}
	}
	return list("decls", out...)
}

func aVarDecl(e ast.Expression) string {
	v, ok := e.(*ast.VariableExpression)
	if !ok {
		return "NOT-A-VAR:" + A(e)
	}
	return list("decl", v.Name, A(v.Initializer))
}

func isNil(n ast.Node) bool {
	if n == nil {
		return true
	}
	switch x := n.(type) {
	case *ast.Identifier:
		return x == nil
	case *ast.BlockStatement:
		return x == nil
	case *ast.CatchStatement:
		return x == nil
	case *ast.FunctionLiteral:
		return x == nil
	}
	return false
}

// A dumps an otto AST node.
func A(n ast.Node) string {
	if isNil(n) {
		return "nil"
	}
	switch x := n.(type) {
	case *ast.Program:
		return list("program", append([]string{aDecls(x.DeclarationList)}, aStmts(x.Body)...)...)
	case *ast.NumberLiteral:
		switch v := x.Value.(type) {
		case float64:
			return list("num", ox.Num(v))
		case int64:
			f := float64(v)
			if int64(f) != v || f >= 9.3e18 {
				return list("num", fmt.Sprintf("INT64-NOT-A-DOUBLE:%d", v))
			}
			return list("num", ox.Num(f))
		default:
			return list("num", fmt.Sprintf("UNEXPECTED-%T:%v", x.Value, x.Value))
		}
	case *ast.StringLiteral:
		return list("str", ox.Str(x.Value))
	case *ast.BooleanLiteral:
		return list("bool", fmt.Sprint(x.Value))
	case *ast.NullLiteral:
		return "(null)"
	case *ast.ThisExpression:
		return "(this)"
	case *ast.Identifier:
		return list("id", x.Name)
	case *ast.RegExpLiteral:
		return list("regexp", ox.Str(x.Pattern), ox.Str(x.Flags))
	case *ast.ArrayLiteral:
		parts := make([]string, len(x.Value))
		for i, e := range x.Value {
			if e == nil {
				parts[i] = "hole"
			} else if _, ok := e.(*ast.EmptyExpression); ok {
				parts[i] = "hole"
			} else {
				parts[i] = A(e)
			}
		}
		return list("arr", parts...)
	case *ast.ObjectLiteral:
		var parts []string
		for _, p := range x.Value {
			kind := p.Kind
			if kind == "value" {
				kind = "init"
			}
			val := ""
			if f, ok := p.Value.(*ast.FunctionLiteral); ok && kind != "init" {
				val = aFunc("fn", f)
			} else {
				val = A(p.Value)
			}
			parts = append(parts, list(kind, ox.Str(p.Key), val))
		}
		return list("obj", parts...)
	case *ast.FunctionLiteral:
		return aFunc("fn", x)
	case *ast.FunctionStatement:
		return aFunc("fndecl", x.Function)
	case *ast.UnaryExpression:
		op := x.Operator.String()
		if x.Operator == token.INCREMENT || x.Operator == token.DECREMENT {
			if x.Postfix {
				return list("post", op, A(x.Operand))
			}
			return list("pre", op, A(x.Operand))
		}
		return list("un", op, A(x.Operand))
	case *ast.BinaryExpression:
		// the Comparison flag routes evaluation (calculateComparison vs
		// calculateBinaryExpression); it is a function of the operator
		switch x.Operator {
		case token.LESS, token.LESS_OR_EQUAL, token.GREATER, token.GREATER_OR_EQUAL, token.EQUAL, token.NOT_EQUAL, token.STRICT_EQUAL, token.STRICT_NOT_EQUAL:
			if !x.Comparison {
				return list("bin", x.Operator.String()+":COMPARISON-FLAG-CLEAR", A(x.Left), A(x.Right))
			}
		default:
			if x.Comparison {
				return list("bin", x.Operator.String()+":COMPARISON-FLAG-SET", A(x.Left), A(x.Right))
			}
		}
		return list("bin", x.Operator.String(), A(x.Left), A(x.Right))
	case *ast.AssignExpression:
		return list("asg", assignOp(x.Operator), A(x.Left), A(x.Right))
	case *ast.ConditionalExpression:
		return list("cond", A(x.Test), A(x.Consequent), A(x.Alternate))
	case *ast.SequenceExpression:
		return list("seq", aExprs(x.Sequence)...)
	case *ast.DotExpression:
		if x.Identifier == nil {
			return list("dot", A(x.Left), "NIL-IDENTIFIER")
		}
		return list("dot", A(x.Left), x.Identifier.Name)
	case *ast.BracketExpression:
		return list("idx", A(x.Left), A(x.Member))
	case *ast.CallExpression:
		return list("call", append([]string{A(x.Callee)}, aExprs(x.ArgumentList)...)...)
	case *ast.NewExpression:
		return list("new", append([]string{A(x.Callee)}, aExprs(x.ArgumentList)...)...)
	case *ast.VariableExpression:
		return list("var", aVarDecl(x))
	case *ast.VariableStatement:
		parts := make([]string, len(x.List))
		for i, e := range x.List {
			parts[i] = aVarDecl(e)
		}
		return list("var", parts...)
	case *ast.ExpressionStatement:
		return list("expr", A(x.Expression))
	case *ast.BlockStatement:
		return list("block", aStmts(x.List)...)
	case *ast.IfStatement:
		return list("if", A(x.Test), A(x.Consequent), A(x.Alternate))
	case *ast.ForStatement:
		init := "nil"
		if seq, ok := x.Initializer.(*ast.SequenceExpression); ok {
			allVar := len(seq.Sequence) > 0
			for _, e := range seq.Sequence {
				if _, ok := e.(*ast.VariableExpression); !ok {
					allVar = false
				}
			}
			switch {
			case len(seq.Sequence) == 0:
			case allVar:
				parts := make([]string, len(seq.Sequence))
				for i, e := range seq.Sequence {
					parts[i] = aVarDecl(e)
				}
				init = list("var", parts...)
			case len(seq.Sequence) == 1:
				init = A(seq.Sequence[0])
			default:
				init = "MIXED-FOR-INIT:" + A(seq)
			}
		} else if x.Initializer != nil {
			init = A(x.Initializer)
		}
		return list("for", init, A(x.Test), A(x.Update), A(x.Body))
	case *ast.ForInStatement:
		into := ""
		if v, ok := x.Into.(*ast.VariableExpression); ok {
			into = aVarDecl(v)
		} else {
			into = A(x.Into)
		}
		return list("forin", into, A(x.Source), A(x.Body))
	case *ast.WhileStatement:
		return list("while", A(x.Test), A(x.Body))
	case *ast.DoWhileStatement:
		return list("dowhile", A(x.Body), A(x.Test))
	case *ast.BranchStatement:
		l := ""
		if x.Label != nil {
			l = x.Label.Name
		}
		if x.Token == token.CONTINUE {
			return list("continue", "label:"+l)
		}
		return list("break", "label:"+l)
	case *ast.ReturnStatement:
		return list("return", A(x.Argument))
	case *ast.WithStatement:
		return list("with", A(x.Object), A(x.Body))
	case *ast.SwitchStatement:
		parts := []string{A(x.Discriminant)}
		for i, c := range x.Body {
			if c.Test == nil {
				if x.Default != i {
					parts = append(parts, "DEFAULT-INDEX-MISMATCH")
				}
				parts = append(parts, list("default", aStmts(c.Consequent)...))
			} else {
				parts = append(parts, list("case", append([]string{A(c.Test)}, aStmts(c.Consequent)...)...))
			}
		}
		return list("switch", parts...)
	case *ast.LabelledStatement:
		return list("label", x.Label.Name, A(x.Statement))
	case *ast.ThrowStatement:
		return list("throw", A(x.Argument))
	case *ast.TryStatement:
		c := "nil"
		if x.Catch != nil {
			c = list("catch", x.Catch.Parameter.Name, A(x.Catch.Body))
		}
		return list("try", A(x.Body), c, A(x.Finally))
	case *ast.EmptyStatement:
		return "(empty)"
	case *ast.DebuggerStatement:
		return "(debugger)"
	case *ast.BadExpression:
		return "(BAD-EXPRESSION)"
	case *ast.BadStatement:
		return "(BAD-STATEMENT)"
	case *ast.EmptyExpression:
		return "(EMPTY-EXPRESSION)"
	}
	return fmt.Sprintf("(UNKNOWN-NODE %T)", n)
}
