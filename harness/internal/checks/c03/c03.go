// Package c03 monitors the parser: for generated syntax trees T and several
// renderings of T to text (minimal parentheses, redundant parentheses, random
// white space / comments / line terminators, automatic semicolon insertion),
// parser.ParseFile must succeed and yield exactly T, with literal values as
// ES5 defines them. The generating tree is the oracle.
package c03

import (
	"encoding/json"
	"fmt"
	"math"
	"strconv"
	"strings"

	"github.com/robertkrimen/otto/parser"

	"verif/internal/gen"
	. "verif/internal/gt"
	"verif/internal/run"
)

// Input identifies one case: the tree is regenerated from (seed, index); the
// rendered text is carried so a replay is self-contained for the reader.
type Input struct {
	Seed   uint64 `json:"seed"`
	Index  int    `json:"index"`
	Style  string `json:"style,omitempty"`
	Src    string `json:"src,omitempty"`
	Expect string `json:"expect,omitempty"` // canonical dump of the generating tree
	// Lit: hand-written witness (literal source + expected canonical dump).
	Lit *Literal `json:"lit,omitempty"`
}

// Literal is a literal source text with the tree ES5 assigns to it.
type Literal struct {
	Src  string `json:"src"`
	Tree string `json:"tree"`
}

var styles = []string{"canonical", "compact", "parens", "trivia", "asi", "trivia+asi+parens"}

func init() {
	run.Register(&run.Check{
		ID:   "C03",
		Rule: "case i < 1058 enumerates every ordered pair of binary operators in both nestings; further cases are random trees over all ES5 expression and statement forms (member/call/new chains, unary/postfix, conditional, assignment, comma, object literals with get/set and keyword names, regexp-vs-division contexts, for headers with `in`, restricted productions) with literal spellings (decimal/hex/legacy-octal/exponent numbers, every string escape, line continuations); each tree is rendered in 6 styles; non-trivial = tree has >= 2 operators of different precedence or a statement form rendered with ASI/trivia; distinct by (tree dump, rendering)",
		Assumptions: []string{
			"oracle: the generating tree itself; minimal parentheses are computed from the ES5 precedence table in internal/gt, not from otto",
			"string literal values are compared as UTF-16 code units after UTF-8 decoding of the AST value (lone surrogates are never generated)",
			"numeric literal values in the generator come from exact arithmetic on the spelling (hex/octal by integer accumulation, decimals via strconv.ParseFloat on a plain decimal spelling)",
		},
		Floor: func(tier string) int {
			if tier == "thorough" {
				return 200000
			}
			return 8000
		},
		Cases: func(tier string, seed uint64) int {
			if tier == "thorough" {
				return 800000
			}
			return 5000
		},
		Exec: func(c *run.Ctx, i int) { checkOne(c, Input{Seed: c.Seed, Index: i}) },
		Replay: func(c *run.Ctx, raw json.RawMessage) {
			var in Input
			if err := json.Unmarshal(raw, &in); err != nil {
				panic(err)
			}
			checkOne(c, in)
		},
	})
	registerMatchers()
}

func styleOf(name string, r *gen.Rand) Style {
	switch name {
	case "canonical":
		return Style{}
	case "compact":
		return Style{Compact: true}
	case "parens":
		return Style{R: r, ExtraParens: 30}
	case "trivia":
		return Style{R: r, Trivia: true}
	case "asi":
		return Style{R: r, ASI: true}
	}
	return Style{R: r, Trivia: true, ASI: true, ExtraParens: 15}
}

func checkLiteral(c *run.Ctx, in Input) {
	c.Eval(1)
	var got string
	var perr error
	pv, stack := run.Guard(func() {
		p, err := parser.ParseFile(nil, "", in.Lit.Src, 0)
		perr = err
		if err == nil {
			got = A(p)
		}
	})
	switch {
	case pv != nil:
		c.Fail("panic", "parser.ParseFile", in, "a tree", fmt.Sprint(pv), stack)
	case perr != nil:
		c.Fail("mismatch", "reject:literal", in, "accepted: "+in.Lit.Tree, "rejected: "+perr.Error(), "")
	case got != in.Lit.Tree:
		c.Fail("mismatch", "tree:"+firstDiffKind(in.Lit.Tree, got), in, in.Lit.Tree, got, firstDiff(in.Lit.Tree, got))
	}
}

func checkOne(c *run.Ctx, in Input) {
	if in.Lit != nil {
		checkLiteral(c, in)
		return
	}
	g := &cg{r: gen.New(in.Seed, "C03/tree", in.Index), feat: map[string]int{}}
	prog := g.program(in.Index)
	want := G(prog)
	in.Expect = want
	sts := styles
	if in.Style != "" {
		sts = []string{in.Style}
	}
	for si, st := range sts {
		src, _ := RenderStyle(prog, styleOf(st, gen.New(in.Seed, "C03/style/"+st, in.Index)))
		one := in
		one.Style, one.Src = st, src
		c.Announce(one)
		c.Eval(1)
		var got string
		var perr error
		pv, stack := run.Guard(func() {
			p, err := parser.ParseFile(nil, "", src, 0)
			perr = err
			if err == nil {
				got = A(p)
			}
		})
		switch {
		case pv != nil:
			c.Fail("panic", "parser.ParseFile", one, "a tree", fmt.Sprint(pv), stack)
		case perr != nil:
			c.Fail("mismatch", "reject:"+st, one, "accepted: "+want, "rejected: "+perr.Error(), minimise(in, st, "reject"))
		case got != want:
			kind := firstDiffKind(want, got)
			c.Fail("mismatch", "tree:"+kind, one, want, got, firstDiff(want, got)+" | "+minimise(in, st, "tree:"+kind))
		}
		c.Feature("style:" + st)
		if si == 0 {
			for k, n := range g.feat {
				c.FeatureN(k, n)
			}
		}
		if g.ops >= 2 || (st != "canonical" && g.stmts > 0) {
			c.Nontrivial(want + "|" + src)
		}
		if in.Index%331 == 0 && st == "trivia+asi+parens" {
			c.Sample(map[string]string{"style": st, "src": src, "tree": want})
		}
	}
}

func firstDiff(a, b string) string {
	i := 0
	for i < len(a) && i < len(b) && a[i] == b[i] {
		i++
	}
	lo := i - 60
	if lo < 0 {
		lo = 0
	}
	cut := func(s string) string {
		hi := i + 60
		if hi > len(s) {
			hi = len(s)
		}
		if lo > len(s) {
			return ""
		}
		return s[lo:hi]
	}
	return fmt.Sprintf("at %d: expected …%s… got …%s…", i, cut(a), cut(b))
}

// firstDiffKind names the node kind at the first difference (for sites).
func firstDiffKind(a, b string) string {
	i := 0
	for i < len(a) && i < len(b) && a[i] == b[i] {
		i++
	}
	j := strings.LastIndex(a[:i], "(")
	if j < 0 {
		return "?"
	}
	k := j + 1
	for k < len(a) && a[k] != ' ' && a[k] != ')' {
		k++
	}
	return a[j+1 : k]
}

// ---------------------------------------------------------------- generator

type cg struct {
	r          *gen.Rand
	feat       map[string]int
	ops        int
	stmts      int
	uid        int
	loops      int
	sw         int
	fn         int
	labels     []string
	loopLabels []string
}

func (g *cg) f(n string) { g.feat[n]++ }

var allBin = BinOps

func (g *cg) program(index int) *Program {
	n := len(allBin)
	if index < n*n*2 {
		// exhaustive operator-pair part
		i, j, nest := index/2/n, index/2%n, index%2
		a, b, c := Id("a"), Id("b"), Id("c")
		var e Node
		if nest == 0 {
			e = Bin(allBin[j], Bin(allBin[i], a, b), c)
		} else {
			e = Bin(allBin[i], a, Bin(allBin[j], b, c))
		}
		g.ops = 2
		g.f("op-pair")
		return &Program{Body: []Node{ES(e)}}
	}
	k := g.r.Range(1, 4)
	var body []Node
	for i := 0; i < k; i++ {
		body = append(body, g.stmt(0))
	}
	return &Program{Body: body}
}

var idents = []string{"a", "b", "c", "x1", "$", "_", "$a_1", "ab", "getx", "of", "let", "yield", "async", "undefined", "NaN", "eval", "arguments", "\u00e9", "\u2113", "\\u0061b", "a\\u0062", "a\u200cb", "a\u200d", "a\\u200cb", "b\u0300", "x\u203f", "\u2160a", "a\u0660"}

func (g *cg) ident() *Ident {
	n := idents[g.r.Intn(len(idents))]
	if strings.Contains(n, "\\u") {
		// a unicode escape in an identifier denotes the character (7.6)
		g.f("ident-escape")
		return &Ident{Name: n}
	}
	return Id(n)
}

// identValue is the name an identifier denotes (escapes decoded).
func identValue(n string) string {
	for {
		i := strings.Index(n, "\\u")
		if i < 0 {
			return n
		}
		v, _ := strconv.ParseUint(n[i+2:i+6], 16, 32)
		n = n[:i] + string(rune(v)) + n[i+6:]
	}
}

var numSpellings = []struct {
	raw string
	v   float64
}{
	{"0", 0}, {"7", 7}, {"123", 123}, {"1.5", 1.5}, {".5", .5}, {"5.", 5}, {"0.0", 0}, {"1e3", 1000}, {"1E3", 1000}, {"1e+3", 1000}, {"1E-3", 0.001}, {"0.1e1", 1}, {".1E1", 1}, {"5.e1", 50},
	{"0x1F", 31}, {"0XaB", 171}, {"0x0", 0}, {"0xfFfFfFfF", 4294967295}, {"0x20000000000001", 9007199254740992}, {"0x1fffffffffffff8", 144115188075855872 - 8}, {"0xffffffffffffffffff", 4722366482869645213696},
	{"010", 8}, {"0777", 511}, {"00", 0}, {"07", 7}, {"0010", 8},
	{"9007199254740993", 9007199254740992}, {"9007199254740995", 9007199254740996}, {"18446744073709551616", 18446744073709551616}, {"1e21", 1e21}, {"1e400", math.Inf(1)}, {"1e-400", 0},
	{"1.7976931348623157e308", math.MaxFloat64}, {"5e-324", 5e-324}, {"2.5e-324", 5e-324}, {"0.000001", 0.000001}, {"123456789012345678901234567890", 123456789012345678901234567890},
	{"4294967296", 4294967296}, {"2147483648", 2147483648},
}

func (g *cg) num() Node {
	s := numSpellings[g.r.Intn(len(numSpellings))]
	g.f("num-literal")
	return &Num{V: s.v, Raw: s.raw}
}

type strPiece struct{ raw, val string }

var strPieces = []strPiece{
	{"a", "a"}, {"B", "B"}, {" ", " "}, {"0", "0"}, {"\u00e9", "\u00e9"}, {"\U0001F600", "\U0001F600"}, {"/", "/"},
	{`\n`, "\n"}, {`\t`, "\t"}, {`\b`, "\b"}, {`\f`, "\f"}, {`\v`, "\v"}, {`\r`, "\r"}, {`\0`, "\x00"}, {`\\`, `\`}, {`\'`, "'"}, {`\"`, `"`},
	{`\x41`, "A"}, {`\xe9`, "\u00e9"}, {`\x00`, "\x00"}, {`\u0041`, "A"}, {`\u00e9`, "\u00e9"}, {`\u2028`, "\u2028"}, {`\uFEFF`, "\ufeff"}, {`\uD83D\uDE00`, "\U0001F600"},
	{`\a`, "a"}, {`\/`, "/"}, {`\q`, "q"}, {`\-`, "-"}, {"\\\u00e9", "\u00e9"},
	{"\\\n", ""}, {"\\\r\n", ""}, {"\\\r", ""}, {"\\\u2028", ""}, {"\\\u2029", ""},
	{`\101`, "A"}, {`\7`, "\x07"}, {`\377`, "\u00ff"}, {`\18`, "\x018"}, {`\400`, " 0"},
	{"\u00a0", "\u00a0"}, {"\ufeff", "\ufeff"},
}

func (g *cg) str() Node {
	q := `"`
	if g.r.Bool() {
		q = `'`
	}
	n := g.r.Range(0, 4)
	raw, val := q, ""
	for i := 0; i < n; i++ {
		p := strPieces[g.r.Intn(len(strPieces))]
		// U+2028/2029 raw inside a string literal is a LineTerminator: not allowed (7.8.4)
		if p.raw == " " {
			continue
		}
		// \0 must not be followed by a decimal digit
		if strings.HasSuffix(raw, `\0`) || strings.HasSuffix(raw, `\7`) || strings.HasSuffix(raw, `\101`) || strings.HasSuffix(raw, `\377`) || strings.HasSuffix(raw, `\18`) || strings.HasSuffix(raw, `\400`) {
			if len(p.raw) > 0 && p.raw[0] >= '0' && p.raw[0] <= '9' {
				continue
			}
		}
		raw += p.raw
		val += p.val
	}
	// quotes of the other kind may appear unescaped
	if g.r.Chance(1, 5) {
		if q == `"` {
			raw += "'"
			val += "'"
		} else {
			raw += `"`
			val += `"`
		}
	}
	g.f("str-literal")
	return &Str{V: val, Raw: raw + q}
}

var regexps = []RegExp{{"a", ""}, {"a+b", "g"}, {"[/]", ""}, {`[a-z]\/`, "gi"}, {`\/`, "m"}, {"a|b", ""}, {"(?:x)", ""}, {`\d{2,3}`, "ig"}, {"=", ""}, {"[=]", ""}}

func (g *cg) atom() Node {
	switch g.r.Intn(16) {
	case 0, 1, 2, 3, 4:
		return g.ident()
	case 5, 6:
		return g.num()
	case 7, 8:
		return g.str()
	case 9:
		return &This{}
	case 10:
		return []Node{&Null{}, B(true), B(false)}[g.r.Intn(3)]
	case 11:
		re := regexps[g.r.Intn(len(regexps))]
		g.f("regexp-literal")
		return &re
	}
	return g.ident()
}

func (g *cg) lhs(d int) Node {
	switch g.r.Intn(5) {
	case 0, 1:
		return g.ident()
	case 2:
		return Dot(g.member(d+1), g.propIdent())
	case 3:
		return Idx(g.member(d+1), g.expr(d+1))
	}
	return g.ident()
}

var keywordsAsNames = []string{"if", "in", "new", "class", "get", "set", "default", "function", "null", "true", "typeof", "x", "y", "length"}

func (g *cg) propIdent() string { return keywordsAsNames[g.r.Intn(len(keywordsAsNames))] }

// member generates a MemberExpression / CallExpression / primary.
func (g *cg) member(d int) Node {
	if d > 4 {
		return g.atom()
	}
	switch g.r.Intn(12) {
	case 0, 1, 2:
		return g.atom()
	case 3:
		g.f("dot")
		return Dot(g.member(d+1), g.propIdent())
	case 4:
		g.f("index")
		return Idx(g.member(d+1), g.expr(d+1))
	case 5, 6:
		g.f("call")
		return CallE(g.member(d+1), g.args(d)...)
	case 7:
		g.f("new-args")
		return NewE(g.member(d+1), g.args(d)...)
	case 8:
		g.f("new-noargs")
		return &New{Callee: g.member(d + 1), NoArgs: true}
	case 9:
		return g.literalObj(d)
	case 10:
		return g.fnExpr(d)
	}
	n := g.r.Range(0, 3)
	el := make([]Node, n)
	for i := range el {
		if g.r.Chance(1, 5) {
			continue
		}
		el[i] = g.assignExpr(d + 1)
	}
	g.f("array-literal")
	return Arr(el...)
}

func (g *cg) args(d int) []Node {
	n := g.r.Range(0, 3)
	a := make([]Node, n)
	for i := range a {
		a[i] = g.assignExpr(d + 1)
	}
	return a
}

func (g *cg) literalObj(d int) Node {
	n := g.r.Range(0, 3)
	var ps []Prop
	// ES5 11.1.5 early errors: no data/accessor clash, no duplicate getter or setter
	for i := 0; i < n; i++ {
		switch g.r.Intn(7) {
		case 0:
			ps = append(ps, Prop{Kind: "init", Key: g.propIdent(), KeyAs: "ident", Value: g.assignExpr(d + 1)})
		case 1:
			s := g.str().(*Str)
			ps = append(ps, Prop{Kind: "init", Key: s.V, KeyRaw: s.Raw, Value: g.assignExpr(d + 1)})
		case 2:
			nums := []struct{ raw, key string }{{"1", "1"}, {"0", "0"}, {"1.5", "1.5"}, {"1.0", "1"}, {"0x10", "16"}, {"1e3", "1000"}, {".5", "0.5"}, {"010", "8"}, {"1e21", "1e+21"}}
			k := nums[g.r.Intn(len(nums))]
			g.f("numeric-key")
			ps = append(ps, Prop{Kind: "init", Key: k.key, KeyRaw: k.raw, Value: g.assignExpr(d + 1)})
		case 3:
			g.f("getter")
			ps = append(ps, Prop{Kind: "get", Key: g.propIdent(), KeyAs: "ident", Value: &Func{Body: g.fnBody(d)}})
		case 4:
			g.f("setter")
			ps = append(ps, Prop{Kind: "set", Key: g.propIdent(), KeyAs: "ident", Value: &Func{Params: []string{"v"}, Body: g.fnBody(d)}})
		default:
			ps = append(ps, Prop{Kind: "init", Key: []string{"get", "set"}[g.r.Intn(2)], KeyAs: "ident", Value: g.assignExpr(d + 1)})
		}
	}
	// ES5 11.1.5 early errors: no data/accessor clash, no duplicate getter or setter
	kinds := map[string]string{}
	var out []Prop
	for _, p := range ps {
		prev, seen := kinds[p.Key]
		if seen && (p.Kind == "init" || prev == "init" || strings.Contains(prev, p.Kind)) {
			continue
		}
		kinds[p.Key] = prev + p.Kind
		out = append(out, p)
	}
	g.f("object-literal")
	return ObjL(out...)
}

func (g *cg) fnBody(d int) []Node {
	g.fn++
	sl, ss, sll, slb := g.loops, g.sw, g.loopLabels, g.labels
	g.loops, g.sw, g.loopLabels, g.labels = 0, 0, nil, nil
	defer func() { g.fn--; g.loops, g.sw, g.loopLabels, g.labels = sl, ss, sll, slb }()
	if d > 3 {
		return []Node{Ret(g.ident())}
	}
	n := g.r.Range(0, 2)
	var body []Node
	for i := 0; i < n; i++ {
		body = append(body, g.stmt(d+1))
	}
	return body
}

func (g *cg) fnExpr(d int) Node {
	name := ""
	if g.r.Bool() {
		name = "f" + strconv.Itoa(g.r.Intn(3))
	}
	var params []string
	for i := 0; i < g.r.Intn(3); i++ {
		params = append(params, "p"+strconv.Itoa(i))
	}
	g.f("function-expression")
	return &Func{Name: name, Params: params, Body: g.fnBody(d)}
}

func (g *cg) unary(d int) Node {
	if d > 5 {
		return g.member(d)
	}
	switch g.r.Intn(10) {
	case 0, 1:
		g.ops++
		g.f("unary")
		return Un([]string{"-", "+", "!", "~", "typeof", "void", "delete"}[g.r.Intn(7)], g.unary(d+1))
	case 2:
		g.ops++
		g.f("prefix-update")
		return &Update{Op: []string{"++", "--"}[g.r.Intn(2)], Prefix: true, X: g.lhs(d)}
	case 3:
		g.ops++
		g.f("postfix-update")
		return &Update{Op: []string{"++", "--"}[g.r.Intn(2)], X: g.lhs(d)}
	}
	return g.member(d)
}

func (g *cg) binary(d int) Node {
	if d > 4 || g.r.Chance(1, 3) {
		return g.unary(d)
	}
	g.ops++
	op := allBin[g.r.Intn(len(allBin))]
	g.f("binary")
	return Bin(op, g.binary(d+1), g.binary(d+1))
}

func (g *cg) assignExpr(d int) Node {
	if d > 4 {
		return g.unary(d)
	}
	switch g.r.Intn(8) {
	case 0:
		g.ops++
		g.f("assignment")
		return AsgOp(AssignOps[g.r.Intn(len(AssignOps))], g.lhs(d), g.assignExpr(d+1))
	case 1:
		g.ops++
		g.f("conditional")
		return Tern(g.binary(d+1), g.assignExpr(d+1), g.assignExpr(d+1))
	}
	return g.binary(d)
}

func (g *cg) expr(d int) Node {
	if g.r.Chance(1, 7) && d < 4 {
		g.ops++
		g.f("comma")
		return Seq(g.assignExpr(d+1), g.assignExpr(d+1))
	}
	return g.assignExpr(d)
}

func (g *cg) block(d int) *Block {
	n := g.r.Range(0, 2)
	var body []Node
	for i := 0; i < n; i++ {
		body = append(body, g.stmt(d+1))
	}
	return Blk(body...)
}

func (g *cg) sub(d int) Node {
	if g.r.Chance(2, 3) {
		return g.block(d)
	}
	s := g.stmt(d + 1)
	switch s.(type) {
	case *Func, *Var:
		return Blk(s)
	}
	return s
}

func (g *cg) label() string { g.uid++; return "L" + strconv.Itoa(g.uid) }

func (g *cg) stmt(d int) Node {
	g.stmts++
	if d > 3 {
		return ES(g.expr(d))
	}
	switch g.r.Intn(24) {
	case 0, 1, 2, 3, 4:
		g.f("expression-statement")
		return ES(g.expr(d))
	case 5, 6:
		g.f("var")
		n := g.r.Range(1, 3)
		v := &Var{}
		for i := 0; i < n; i++ {
			dcl := VarDecl{Name: identValue(g.ident().Name)}
			if g.r.Bool() {
				dcl.Init = g.assignExpr(d + 1)
			}
			v.Decls = append(v.Decls, dcl)
		}
		return v
	case 7:
		g.f("if")
		var els Node
		if g.r.Bool() {
			els = g.sub(d)
		}
		then := g.sub(d)
		if els != nil {
			// dangling else: an if without else in the then-branch would capture it
			if i, ok := then.(*If); ok && i.Else == nil {
				then = Blk(then)
			}
			then = guardDangling(then)
		}
		return IfS(g.expr(d+1), then, els)
	case 8:
		g.f("for")
		g.loops++
		defer func() { g.loops-- }()
		f := &For{}
		switch g.r.Intn(4) {
		case 0:
			f.Init = &Var{Decls: []VarDecl{{Name: "i", Init: g.assignExpr(d + 1)}}}
		case 1:
			f.Init = g.expr(d + 1)
		case 2:
			// `in` inside a for initialiser must be parenthesised by the renderer
			g.f("for-init-in")
			f.Init = &Var{Decls: []VarDecl{{Name: "i", Init: Bin("in", g.str(), g.ident())}}}
		}
		if g.r.Bool() {
			f.Test = g.expr(d + 1)
		}
		if g.r.Bool() {
			f.Update = g.expr(d + 1)
		}
		f.Body = g.sub(d)
		return f
	case 9:
		g.f("for-in")
		g.loops++
		defer func() { g.loops-- }()
		if g.r.Bool() {
			f := &ForIn{Decl: true, Left: Id("k"), Obj: g.expr(d + 1), Body: g.sub(d)}
			switch g.r.Intn(6) {
			case 0:
				// 12.6.4, second form: the initialiser is an AssignmentExpressionNoIn and the
				// for-in's own `in` follows it directly
				g.f("for-in-init")
				f.Init = g.assignExpr(d + 1)
			case 1:
				// the no-in restriction reaches the third operand of a conditional (11.12)
				g.f("for-in-init-cond")
				f.Init = Tern(g.assignExpr(d+2), g.assignExpr(d+2), g.assignExpr(d+2))
			}
			return f
		}
		return &ForIn{Left: g.lhs(d), Obj: g.expr(d + 1), Body: g.sub(d)}
	case 10:
		g.f("while")
		g.loops++
		defer func() { g.loops-- }()
		return &While{Test: g.expr(d + 1), Body: g.sub(d)}
	case 11:
		g.f("do-while")
		g.loops++
		defer func() { g.loops-- }()
		return &DoWhile{Body: g.sub(d), Test: g.expr(d + 1)}
	case 12:
		if g.loops > 0 {
			g.f("continue")
			if len(g.loopLabels) > 0 && g.r.Bool() {
				return &Continue{Label: g.loopLabels[g.r.Intn(len(g.loopLabels))]}
			}
			return &Continue{}
		}
	case 13:
		if g.loops > 0 || g.sw > 0 {
			g.f("break")
			return &Break{}
		}
		if len(g.labels) > 0 {
			g.f("break-label")
			return &Break{Label: g.labels[g.r.Intn(len(g.labels))]}
		}
	case 14:
		if g.fn > 0 {
			g.f("return")
			if g.r.Bool() {
				return &Return{}
			}
			return Ret(g.expr(d + 1))
		}
	case 15:
		g.f("with")
		return &With{Obj: g.expr(d + 1), Body: g.sub(d)}
	case 16:
		g.f("switch")
		g.sw++
		defer func() { g.sw-- }()
		n := g.r.Range(0, 3)
		def := g.r.Intn(n + 2)
		var cases []Case
		for i := 0; i < n; i++ {
			if i == def {
				cases = append(cases, Case{Body: g.block(d).Body})
			}
			cases = append(cases, Case{Test: g.expr(d + 1), Body: g.block(d).Body})
		}
		if def == n {
			cases = append(cases, Case{Body: g.block(d).Body})
		}
		return &Switch{Disc: g.expr(d + 1), Cases: cases}
	case 17:
		l := g.label()
		g.f("labelled")
		g.labels = append(g.labels, l)
		defer func() { g.labels = g.labels[:len(g.labels)-1] }()
		if g.r.Bool() {
			g.loopLabels = append(g.loopLabels, l)
			g.loops++
			defer func() { g.loopLabels = g.loopLabels[:len(g.loopLabels)-1]; g.loops-- }()
			return Lbl(l, &While{Test: g.expr(d + 1), Body: g.sub(d)})
		}
		return Lbl(l, g.block(d))
	case 18:
		g.f("throw")
		return Thr(g.expr(d + 1))
	case 19:
		g.f("try")
		t := &Try{Block: g.block(d)}
		m := g.r.Intn(3)
		if m != 1 {
			t.Param, t.Catch = "e", g.block(d)
		}
		if m != 0 {
			t.Finally = g.block(d)
		}
		return t
	case 20:
		g.f("empty")
		return &Empty{}
	case 21:
		g.f("debugger")
		return &Debugger{}
	case 22:
		if d == 0 || g.fn > 0 && false {
			g.f("function-declaration")
			f := g.fnExpr(d).(*Func)
			f.Decl = true
			if f.Name == "" {
				f.Name = "fd"
			}
			return f
		}
	case 23:
		g.f("block")
		return g.block(d)
	}
	return ES(g.expr(d))
}

// guardDangling wraps a then-branch whose last nested statement is an
// else-less if (reachable through loops/labels/with) in a block.
func guardDangling(n Node) Node {
	var open func(n Node) bool
	open = func(n Node) bool {
		switch x := n.(type) {
		case *If:
			if x.Else == nil {
				return true
			}
			return open(x.Else)
		case *For:
			return open(x.Body)
		case *ForIn:
			return open(x.Body)
		case *While:
			return open(x.Body)
		case *With:
			return open(x.Body)
		case *Labeled:
			return open(x.Body)
		}
		return false
	}
	if open(n) {
		return Blk(n)
	}
	return n
}

// verdict parses one rendering and classifies the outcome.
func verdict(prog *Program, src string) string {
	want := G(prog)
	out := ""
	pv, _ := run.Guard(func() {
		p, err := parser.ParseFile(nil, "", src, 0)
		switch {
		case err != nil:
			out = "reject"
		case A(p) != want:
			out = "tree:" + firstDiffKind(want, A(p))
		}
	})
	if pv != nil {
		return "panic"
	}
	return out
}

// minimise shrinks the failing tree (same style, same failure kind) and
// returns the reduced source text for the report.
func minimise(in Input, st, kind string) string {
	g := &cg{r: gen.New(in.Seed, "C03/tree", in.Index), feat: map[string]int{}}
	prog := g.program(in.Index)
	render := func(p *Program) string {
		s, _ := RenderStyle(p, styleOf(st, gen.New(in.Seed, "C03/style/"+st, in.Index)))
		return s
	}
	Shrink(prog, func(p *Program) bool { return Valid(p) && verdict(p, render(p)) == kind }, 400)
	return "minimised: " + strconv.Quote(render(prog))
}
