package c03

import (
	"verif/internal/gen"
	"verif/internal/run"
)

func registerMatchers() {
	// Deviation model: otto keeps the source spelling of a numeric property
	// name ({1.0: a} has the key "1.0"). A failing case is attributed only if
	// the AST equals the generating tree with exactly that substitution.
	run.RegisterMatcher("c03.numericKeySpelling", func(f *run.Failure) bool {
		in, ok := f.In.(Input)
		if !ok || in.Lit != nil || f.Kind != "mismatch" {
			return false
		}
		g := &cg{r: gen.New(in.Seed, "C03/tree", in.Index), feat: map[string]int{}}
		prog := g.program(in.Index)
		devRawNumericKeys = true
		want := G(prog)
		devRawNumericKeys = false
		return want == f.Actual
	})
}
