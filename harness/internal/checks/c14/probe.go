package c14

import (
	"strconv"
	"strings"

	"verif/internal/es5table"
	"verif/internal/ox"
)

// The probes are plain ES5 scripts evaluated by the runtime under test. They
// are anonymous function expressions: nothing is added to the global object,
// so the probed shape is the pristine one. Every probe returns an array of
// alternating (field name, raw value); the Go side reads the raw values through
// the public API (ox.Enc), so number-to-string conversion of the runtime under
// test is not involved in the comparison.

// helpers is the common prelude. G is the global object.
const helpers = `
var GOPD=Object.getOwnPropertyDescriptor, GOPN=Object.getOwnPropertyNames, GPO=Object.getPrototypeOf, IEXT=Object.isExtensible;
var OTS=Object.prototype.toString, PIE=Object.prototype.propertyIsEnumerable;
var R=[]; function e(k,v){R[R.length]=k;R[R.length]=v}
function CL(x){return OTS.call(x)}
function J(a){var s="";for(var i=0;i<a.length;i++){s+=(i?",":"")+((i in a)?String(a[i]):"_")}return s}
function K(o){var s=[];for(var k in o)s[s.length]=k;s.sort();return J(s)}
function EN(x){
  if(x instanceof TypeError)return "TypeError"; if(x instanceof RangeError)return "RangeError";
  if(x instanceof SyntaxError)return "SyntaxError"; if(x instanceof ReferenceError)return "ReferenceError";
  if(x instanceof URIError)return "URIError"; if(x instanceof EvalError)return "EvalError";
  if(x instanceof Error)return "Error"; return "non-error:"+typeof x}
function TH(f){try{f()}catch(x){return EN(x)}return "no-throw"}
function RT(f){try{return f()}catch(x){return "throw:"+EN(x)}}
var WK=[["Object.prototype",Object.prototype],["Function.prototype",Function.prototype],["Array.prototype",Array.prototype],
 ["String.prototype",String.prototype],["Boolean.prototype",Boolean.prototype],["Number.prototype",Number.prototype],
 ["Date.prototype",Date.prototype],["RegExp.prototype",RegExp.prototype],["Error.prototype",Error.prototype],
 ["EvalError.prototype",EvalError.prototype],["RangeError.prototype",RangeError.prototype],["ReferenceError.prototype",ReferenceError.prototype],
 ["SyntaxError.prototype",SyntaxError.prototype],["TypeError.prototype",TypeError.prototype],["URIError.prototype",URIError.prototype]];
function LBL(x){if(x===null)return "null";if(x===undefined)return "undefined";for(var i=0;i<WK.length;i++){if(WK[i][1]===x)return WK[i][0]}return "?"}
function ENUMOWN(o){var n=GOPN(o),s=[];for(var i=0;i<n.length;i++){if(PIE.call(o,n[i]))s[s.length]=n[i]}s.sort();return J(s)}
function DESCFAIL(o){var n=GOPN(o),s=[];for(var i=0;i<n.length;i++){try{try{var d=GOPD(o,n[i]);if(d===undefined)s[s.length]=n[i]+":undefined"}catch(x0){s[s.length]=n[i]+":"+EN(x0)}}catch(x){s[s.length]=n[i]+":"+EN(x)}}s.sort();return J(s)}
function ATTR(p,d){e(p+"own",d!==undefined);if(d===undefined)return false;var acc=("get" in d)||("set" in d);e(p+"acc",acc);if(!acc)e(p+"w",d.writable);e(p+"e",d.enumerable);e(p+"c",d.configurable);return true}
function GUARD(k,f){try{f()}catch(x){e("err:"+k,EN(x));e("errmsg:"+k,String(x&&x.message))}}
`

func ownerExpr(r *es5table.Row) string {
	if r.Owner == "global" {
		return "G"
	}
	return r.Owner
}

// rowProbe builds the observation script of one table row.
func rowProbe(r *es5table.Row) string {
	var b strings.Builder
	b.WriteString("(function(G){" + helpers)
	b.WriteString("var O=(" + ownerExpr(r) + "), name=" + ox.JSStr(r.Name) + ";\n")
	b.WriteString(`
var d=GOPD(O,name);
if(!ATTR("",d)){e("inherited",name in O);return R}
GUARD("pie",function(){e("pie",PIE.call(O,name))});
if(("get" in d)||("set" in d)){return R}
var v=d.value, t=typeof v;
GUARD("same",function(){var g=O[name];e("same",g===v||(g!==g&&v!==v))});
e("typeof",t);
if(t!=="function"&&(t!=="object"||v===null)){e("val",v)}
else{
 GUARD("class",function(){e("class",CL(v))});
 GUARD("proto",function(){e("proto",LBL(GPO(v)))});
 GUARD("ext",function(){e("ext",IEXT(v))});
 GUARD("enumOwn",function(){e("enumOwn",ENUMOWN(v))});
 GUARD("descFail",function(){e("descFail",DESCFAIL(v))});
 GUARD("ownNames",function(){var n=GOPN(v);n.sort();e("ownNames",J(n))});
 if(t==="function"){
  GUARD("len",function(){var ld=GOPD(v,"length");if(ATTR("len.",ld)){e("len",ld.value)}});
  GUARD("hasProto",function(){e("hasProto",GOPD(v,"prototype")!==undefined)});
 }
}
`)
	switch r.Kind {
	case es5table.Function:
		b.WriteString(`GUARD("new",function(){var r;try{new v();r="constructed"}catch(x){r=EN(x)}e("new",r)});` + "\n")
	case es5table.Constructor:
		b.WriteString(`GUARD("pc",function(){var p=v.prototype;e("pc",GOPD(p,"constructor")!==undefined&&p.constructor===v)});` + "\n")
	}
	if r.NotCallable {
		b.WriteString(`e("callT",TH(function(){v()}));e("newT",TH(function(){new v()}));` + "\n")
	}
	if r.Is != "" {
		b.WriteString(`GUARD("is",function(){e("is",v===(` + r.Is + `))});` + "\n")
	}
	if r.Pred != "" {
		b.WriteString(`GUARD("pred",function(){var V=v;e("pred",(` + r.Pred + `))});` + "\n")
	}
	if r.Call != "" {
		b.WriteString(`(function(){var F=v,res;try{res=(` + r.Call + `)}catch(x){res="throw:"+EN(x);e("call.msg",String(x&&x.message))}e("call",res)})();` + "\n")
	}
	for i, sp := range r.Also {
		b.WriteString(`(function(){var F=v,V=v,res;try{res=(` + sp.Expr + `)}catch(x){res="throw-outside:"+EN(x)}e("also` + strconv.Itoa(i) + `",res)})();` + "\n")
	}
	b.WriteString("return R})(this)")
	return b.String()
}

// callProbe evaluates the distinguishing call of row r with F bound to the
// value of another property (used by the discrimination self-test).
func callProbe(r *es5table.Row, with *es5table.Row) string {
	return "(function(G){" + helpers + "var F=(" + ownerExpr(with) + ")[" + ox.JSStr(with.Name) + "],res;try{res=(" + r.Call +
		`)}catch(x){res="throw:"+EN(x)}return res})(this)`
}

// miniProbe observes only descriptor-level facts of a row (used to show that
// mutating a copy leaves the original intact).
func miniProbe(r *es5table.Row) string {
	return "(function(G){" + helpers + "var O=(" + ownerExpr(r) + "), name=" + ox.JSStr(r.Name) + `;
var d=GOPD(O,name); if(!ATTR("",d))return R; if("value" in d){e("typeof",typeof d.value); if(typeof d.value!=="object"&&typeof d.value!=="function")e("val",d.value)}
return R})(this)`
}

// behavProbe observes the attributes by their effects (for-in, assignment,
// delete) instead of through Object.getOwnPropertyDescriptor. It mutates the
// runtime and must run on a throw-away one.
func behavProbe(r *es5table.Row) string {
	return "(function(G){" + helpers + "var O=(" + ownerExpr(r) + "), name=" + ox.JSStr(r.Name) + `;
var d=GOPD(O,name); e("own",d!==undefined); if(d===undefined)return R;
var seen=false; for(var k in O){ if(k===name) seen=true } e("forin",seen);
var old=O[name]; var s=(typeof old==="number")?7:{};
var werr="none"; try{O[name]=s}catch(x){werr=EN(x)} e("werr",werr);
var now=O[name]; e("wrote",now===s);
var del; try{del=delete O[name]}catch(x){del="throw:"+EN(x)} e("del",del);
e("gone",GOPD(O,name)===undefined);
return R})(this)`
}

// ownerProbe lists the own property names of an owner object: all of them, and
// the enumerable ones.
func ownerProbe(owner string) string {
	o := owner
	if owner == "global" {
		o = "G"
	}
	return "(function(G){" + helpers + "var O=(" + o + `);
var n=GOPN(O); n.sort(); e("ownNames",J(n)); e("enumOwn",ENUMOWN(O)); e("descFail",DESCFAIL(O)); e("ext",IEXT(O)); e("forinOwn",(function(){var s=[];for(var k in O){if(GOPD(O,k)!==undefined)s[s.length]=k}s.sort();return J(s)})());
return R})(this)`
}

// forinTarget is a value whose for-in enumeration is specified.
type forinTarget struct {
	ID, Expr string
	// Want is the exact sorted key list; Allowed (if non-nil) lists optional keys
	// whose enumerability ES5.1 leaves open.
	Want    string
	Allowed []string
}

var forinTargets = []forinTarget{
	{ID: "object-literal", Expr: `{}`, Want: ""},
	{ID: "object-with-own", Expr: `{b:1,a:2}`, Want: "a,b"},
	{ID: "array-empty", Expr: `[]`, Want: ""},
	{ID: "array-2", Expr: `[7,8]`, Want: "0,1"},
	{ID: "string-primitive", Expr: `"ab"`, Want: "0,1"},
	{ID: "string-object", Expr: `new String("ab")`, Want: "0,1"},
	{ID: "number-object", Expr: `new Number(1)`, Want: ""},
	{ID: "boolean-object", Expr: `new Boolean(true)`, Want: ""},
	{ID: "function-expression", Expr: `function(a,b){}`, Want: ""},
	{ID: "Function-result", Expr: `Function("a","return a")`, Want: ""},
	{ID: "bound-function", Expr: `function(a,b){}.bind(null,1)`, Want: ""},
	{ID: "builtin-function", Expr: `Math.max`, Want: ""},
	{ID: "function-prototype-object", Expr: `(function(){}).prototype`, Want: ""},
	{ID: "date", Expr: `new Date(0)`, Want: ""},
	{ID: "regexp", Expr: `/a/g`, Want: ""},
	{ID: "regexp-exec-result", Expr: `/a/.exec("a")`, Want: "0,index,input"},
	{ID: "error", Expr: `new Error("m")`, Want: "", Allowed: []string{"message"}},
	{ID: "typeerror", Expr: `new TypeError("m")`, Want: "", Allowed: []string{"message"}},
	{ID: "thrown-typeerror", Expr: `(function(){try{null.x}catch(x){return x}})()`, Want: "", Allowed: []string{"message"}},
	{ID: "arguments", Expr: `(function(){return arguments})(1,2)`, Want: "0,1"},
	{ID: "Math", Expr: `Math`, Want: ""},
	{ID: "JSON", Expr: `JSON`, Want: ""},
	{ID: "Object.create-null-proto", Expr: `Object.create(Object.prototype)`, Want: ""},
	{ID: "property-descriptor", Expr: `Object.getOwnPropertyDescriptor({a:1},"a")`, Want: "configurable,enumerable,value,writable"},
	{ID: "JSON.parse-result", Expr: `JSON.parse('{"b":[1]}')`, Want: "b"},
	{ID: "split-result", Expr: `"a,b".split(",")`, Want: "0,1"},
	{ID: "global", Expr: `G`, Want: "*global*"},
}

func forinProbe(t *forinTarget) string {
	return "(function(G){" + helpers + "var X=(" + t.Expr + `); e("keys",K(X)); return R})(this)`
}

// dynCase is a dynamically created function object (13.2, 15.3.2.1, 15.3.4.5)
// or a host function.
type dynCase struct {
	ID, Expr string
	Len      int  // -1: not asserted
	Proto    bool // has an own prototype property per 13.2
	Bound    bool
	Behave   string // predicate over F
	Also     []es5table.Spot
}

const hostName = "c14host"

var dynCases = []dynCase{
	{ID: "function-expression", Expr: `function(a,b){return a+b}`, Len: 2, Proto: true, Behave: `F(1,2)===3 && new F() instanceof F`},
	{ID: "function-declaration", Expr: `(function(){function f(a,b,c){return 1} return f})()`, Len: 3, Proto: true, Behave: `F()===1`},
	{ID: "function-0", Expr: `function(){}`, Len: 0, Proto: true, Behave: `F()===undefined`},
	{ID: "Function-call", Expr: `Function("a","b","return a*b")`, Len: 2, Proto: true, Behave: `F(2,3)===6`},
	{ID: "new-Function", Expr: `new Function("a,b","c","return c")`, Len: 3, Proto: true, Behave: `F(1,2,3)===3`},
	{ID: "new-Function-0", Expr: `new Function()`, Len: 0, Proto: true, Behave: `F()===undefined`},
	{ID: "getter-function", Expr: `Object.getOwnPropertyDescriptor({get x(){return 1}},"x").get`, Len: 0, Proto: true, Behave: `F()===1`},
	{ID: "setter-function", Expr: `Object.getOwnPropertyDescriptor({set x(v){}},"x").set`, Len: 1, Proto: true, Behave: `F(1)===undefined`},
	{ID: "bound-1-of-3", Expr: `function(a,b,c){return [this.x,a,b,c]}.bind({x:9},1)`, Len: 2, Bound: true, Behave: `J(F(2,3))==="9,1,2,3"`},
	{ID: "bound-0-of-2", Expr: `function(a,b){return a+b}.bind(null)`, Len: 2, Bound: true, Behave: `F(1,2)===3`},
	{ID: "bound-3-of-1", Expr: `function(a){return a}.bind(null,1,2,3)`, Len: 0, Bound: true, Behave: `F()===1`},
	{ID: "bound-of-bound", Expr: `function(a,b,c,d){return [a,b,c,d]}.bind(null,1).bind(null,2)`, Len: 2, Bound: true, Behave: `J(F(3,4))==="1,2,3,4"`},
	{ID: "bound-builtin", Expr: `Math.max.bind(null,5)`, Len: 1, Bound: true, Behave: `F(1)===5 && F(7)===7`,
		Also: []es5table.Spot{{Expr: `RT(function(){new F();return "constructed"})`, Want: `s:"throw:TypeError"`}}}, // 15.3.4.5.2 step 2
	{ID: "bound-constructor", Expr: `(function(){function P(a,b){this.a=a;this.b=b} var B=P.bind(null,1); Object.defineProperty(B,"P",{value:P}); return B})()`, Len: 1, Bound: true,
		Behave: `(function(){var o=new F(2);return o.a===1&&o.b===2&&o instanceof F.P&&Object.getPrototypeOf(o)===F.P.prototype})()`,
		Also:   []es5table.Spot{{Expr: `new F(2) instanceof F`, Want: `b:true`}, {Expr: `RT(function(){return ({}) instanceof F})`, Want: `b:false`}}}, // 15.3.4.5.3
	{ID: "host-function", Expr: hostName, Len: -1, Behave: `F(1,"a")==="n:1,s:\"a\"" && typeof F==="function"`},
	{ID: "host-function-bound", Expr: hostName + `.bind(null,1)`, Len: -1, Bound: true, Behave: `F("a")==="n:1,s:\"a\""`},
}

func dynProbe(d *dynCase) string {
	var b strings.Builder
	b.WriteString("(function(G){" + helpers + "var F=(" + d.Expr + ");\n")
	b.WriteString(`
e("typeof",typeof F); e("class",CL(F)); e("proto",LBL(GPO(F))); e("ext",IEXT(F));
GUARD("len",function(){var ld=GOPD(F,"length"); if(ATTR("len.",ld)){e("len",ld.value)}});
GUARD("enumOwn",function(){e("enumOwn",ENUMOWN(F))});
GUARD("descFail",function(){e("descFail",DESCFAIL(F))});
GUARD("forin",function(){e("forin",K(F))});
GUARD("ownNames",function(){var n=GOPN(F);n.sort();e("ownNames",J(n))});
var pd=GOPD(F,"prototype"); e("hasProto",pd!==undefined);
if(pd!==undefined){
 ATTR("p.",pd); var p=pd.value; e("p.typeof",typeof p);
 if(typeof p==="object"&&p!==null){
  e("p.class",CL(p)); e("p.proto",LBL(GPO(p))); e("p.ext",IEXT(p)); e("p.enumOwn",ENUMOWN(p)); e("p.descFail",DESCFAIL(p));
  var cd=GOPD(p,"constructor"); if(ATTR("pc.",cd)){e("pc.is",cd.value===F)}
 }
}
`)
	if d.Bound {
		b.WriteString(`
GUARD("poison",function(){var ns=["caller","arguments"];for(var i=0;i<2;i++){(function(n){var q=GOPD(F,n),r;
 if(q===undefined)r="absent";
 else if(("get" in q)||("set" in q))r="accessor get===set:"+(typeof q.get==="function"&&q.get===q.set)+" e:"+q.enumerable+" c:"+q.configurable;
 else r="data value:"+String(q.value)+" w:"+q.writable+" e:"+q.enumerable+" c:"+q.configurable;
 e(n,r+" read:"+TH(function(){return F[n]}))})(ns[i])}});
`)
	}
	b.WriteString(`(function(){var res;try{res=(` + d.Behave + `)}catch(x){res="throw:"+EN(x);e("behave.msg",String(x&&x.message))}e("behave",res)})();` + "\n")
	for i, sp := range d.Also {
		b.WriteString(`(function(){var res;try{res=(` + sp.Expr + `)}catch(x){res="throw-outside:"+EN(x)}e("also` + strconv.Itoa(i) + `",res)})();` + "\n")
	}
	b.WriteString("return R})(this)")
	return b.String()
}

// dumpSrc walks every object reachable from the global object through own
// properties (data values, getters, setters) and [[Prototype]] links, breadth
// first, and renders: per object its first-visit ordinal, [[Class]], typeof,
// [[Extensible]], prototype ordinal, primitive value where it has one; per own
// property (in the order Object.getOwnPropertyNames reports) name, attributes
// and value (primitive encoding or ordinal). Global names in SKIP are not
// followed.
const dumpSrc = `(function(G,SKIP){
var GOPD=Object.getOwnPropertyDescriptor, GOPN=Object.getOwnPropertyNames, GPO=Object.getPrototypeOf, IEXT=Object.isExtensible, OTS=Object.prototype.toString;
var objs=[], L=[];
function id(o){var i=objs.indexOf(o); if(i<0){i=objs.length; objs[i]=o} return "#"+i}
function enc(v){var t=typeof v;
 if(v===null)return "null"; if(t==="undefined")return "undefined"; if(t==="boolean")return v?"b:true":"b:false";
 if(t==="number"){if(v!==v)return "n:NaN"; if(v===0)return (1/v<0)?"n:-0":"n:0"; return "n:"+String(v)}
 if(t==="string")return "s:<"+v+">"; return id(v)}
function prim(o,c){try{
 if(c==="[object Date]")return " prim="+enc(Date.prototype.getTime.call(o));
 if(c==="[object String]")return " prim="+enc(String.prototype.valueOf.call(o));
 if(c==="[object Number]")return " prim="+enc(Number.prototype.valueOf.call(o));
 if(c==="[object Boolean]")return " prim="+enc(Boolean.prototype.valueOf.call(o));
 }catch(x){return " prim=throw"} return ""}
id(G);
for(var q=0;q<objs.length;q++){
 var o=objs[q], c=OTS.call(o);
 L[L.length]="#"+q+" "+c+" typeof="+(typeof o)+" ext="+IEXT(o)+" proto="+enc(GPO(o))+prim(o,c);
 var names=GOPN(o);
 for(var i=0;i<names.length;i++){
  var n=names[i]; if(q===0&&SKIP.indexOf(n)>=0)continue;
  var d,bad=false; try{try{d=GOPD(o,n)}catch(x0){bad=true}}catch(x){bad=true}
  if(bad){L[L.length]="  ."+n+" <descriptor lookup throws>";continue}
  if(d===undefined){L[L.length]="  ."+n+" <no descriptor>";continue}
  var a=(d.enumerable?"e":"-")+(d.configurable?"c":"-");
  if(("get" in d)||("set" in d)){L[L.length]="  ."+n+" accessor "+a+" get="+enc(d.get)+" set="+enc(d.set)}
  else{L[L.length]="  ."+n+" "+(d.writable?"w":"-")+a+" = "+enc(d.value)}
 }
}
return L.join("\n")})`

// preludeSrc populates a runtime with objects carrying every attribute
// combination and every built-in class, so that Copy() has something to lose.
const preludeSrc = `
var P={};
(function(){
 var bs=[false,true],i,j,k;
 P.data={}; for(i=0;i<2;i++)for(j=0;j<2;j++)for(k=0;k<2;k++){Object.defineProperty(P.data,"d"+i+j+k,{value:i*4+j*2+k,writable:bs[i],enumerable:bs[j],configurable:bs[k]})}
 P.acc={}; for(j=0;j<2;j++)for(k=0;k<2;k++){Object.defineProperty(P.acc,"a"+j+k,{get:function(){return 1},set:function(v){},enumerable:bs[j],configurable:bs[k]})}
 Object.defineProperty(P.acc,"getonly",{get:function(){return 2},enumerable:true,configurable:true});
 Object.defineProperty(P.acc,"setonly",{set:function(v){},enumerable:false,configurable:true});
 P.literal={get x(){return 1},set x(v){},y:[1,2]};
 P.nonext=Object.preventExtensions({a:1}); P.sealed=Object.seal({a:1}); P.frozen=Object.freeze({a:1,b:{c:2}});
 P.arr=[1,,3]; P.arrFixed=[1,2]; Object.defineProperty(P.arrFixed,"length",{writable:false});
 P.arrFrozen=Object.freeze([1,2]);
 P.args=(function(){return arguments})(1,"two");
 P.date=new Date(5); P.dateNaN=new Date(0/0); P.re=/a+/gi; P.re.lastIndex=3;
 P.str=new String("ab"); P.num=new Number(-0); P.boo=new Boolean(true);
 P.fn=function(a,b){return a}; P.fn.extra=1; P.decl=(function(){function named(x){} return named})();
 P.bound=P.fn.bind(null,1); P.made=new Function("a","b","c","return c");
 P.err=new TypeError("m"); P.thrown=(function(){try{undefinedName}catch(x){return x}})();
 P.host=(typeof c14host==="function")?c14host:null;
 P.child=Object.create(P.fn.prototype,{z:{value:1}});
 P.bare=Object.create(null);
 P.nested={a:{b:{c:[{d:1}]}}};
 P.protoFrozen=function(){}; Object.freeze(P.protoFrozen.prototype);
 Object.defineProperty(P,"hidden",{value:"h",enumerable:false});
})();
`
