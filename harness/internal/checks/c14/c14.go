// Package c14 compares the shape of otto's standard library with the
// hand-transcribed ES5.1 table (internal/es5table), exhaustively, in five
// contexts: a fresh runtime, a second fresh runtime, a runtime created while
// the underscore registry entry is enabled, a Copy() and a Copy() of a Copy().
package c14

import (
	"encoding/json"
	"fmt"
	"sort"
	"strconv"
	"strings"
	"time"

	"github.com/robertkrimen/otto"
	"github.com/robertkrimen/otto/underscore"

	"verif/internal/es5table"
	"verif/internal/gen"
	"verif/internal/ox"
	"verif/internal/run"
)

// Importing the underscore package registers its source as ENABLED for every
// otto.New() of the process. The harness binary links all checks, so switch it
// off before anything runs; the "underscore" context brackets its own New().
func init() { underscore.Disable() }

// Input is one self-contained case.
type Input struct {
	Ctx  string `json:"ctx"`  // fresh | fresh2 | underscore | copy | copycopy | all
	Kind string `json:"kind"` // row | behav | owner | forin | dyn | dump
	Item string `json:"item"` // row key, owner path, for-in target, dynamic function id, dump id
}

var contexts = []string{"fresh", "fresh2", "underscore", "copy", "copycopy"}

// thoroughContexts adds: a Copy() of a runtime on which every row's probe
// (all distinguishing calls) has already run, and a fresh runtime created
// after several others (including an underscore-enabled one) exist.
var thoroughContexts = []string{"fresh", "fresh2", "underscore", "copy", "copycopy", "copy-used", "fresh-late"}

type caseList struct {
	cases      []Input
	nontrivial int
}

var lists = map[string]*caseList{}

func buildCases(tier string) *caseList {
	allCases := []Input{}
	nontrivialCount := 0
	contexts := contexts
	behav := []string{"fresh", "copy", "underscore"}
	if tier == "thorough" {
		contexts = thoroughContexts
		behav = thoroughContexts
	}
	for _, ctx := range contexts {
		for i := range es5table.Rows {
			allCases = append(allCases, Input{ctx, "row", es5table.Rows[i].Key()})
			nontrivialCount++
		}
		for _, o := range es5table.Owners() {
			allCases = append(allCases, Input{ctx, "owner", o})
		}
		for i := range forinTargets {
			allCases = append(allCases, Input{ctx, "forin", forinTargets[i].ID})
		}
		for i := range dynCases {
			allCases = append(allCases, Input{ctx, "dyn", dynCases[i].ID})
			nontrivialCount++
		}
		for i := range instTargets {
			allCases = append(allCases, Input{ctx, "inst", instTargets[i].ID})
			nontrivialCount++
		}
	}
	for _, ctx := range behav {
		for i := range es5table.Rows {
			allCases = append(allCases, Input{ctx, "behav", es5table.Rows[i].Key()})
			nontrivialCount++
		}
	}
	allCases = append(allCases, Input{"all", "dump", "pristine"}, Input{"all", "dump", "prelude"}, Input{"all", "dump", "used"})
	return &caseList{allCases, nontrivialCount}
}

func listFor(tier string) *caseList {
	if tier != "thorough" {
		tier = "quick"
	}
	if l, ok := lists[tier]; ok {
		return l
	}
	l := buildCases(tier)
	lists[tier] = l
	return l
}

func init() {
	run.Register(&run.Check{
		ID: "C14",
		Rule: "one case per (context, table row) plus owner-level, for-in, dynamic-function and whole-graph dump cases; the table is enumerated exhaustively in every context (the seed only permutes evaluation order on the shared per-context runtime); " +
			"a case is non-trivial when it carries at least one attribute assertion (every row: 3 attributes of the property, +3 for a function's length; every dynamic function; every behavioural write/delete/for-in observation); distinct by (context, kind, item)",
		Assumptions: []string{
			"oracle: internal/es5table, a hand transcription of ES5.1 15.1-15.12 (+ Annex B.2 rows, which are informative: absence tolerated, shape asserted when present); its clause numbering, constants and Date arithmetic are unit-tested",
			"attributes ES5.1 leaves open are not asserted (enumerability of an Error instance's own message, [[Class]]/[[Prototype]] of the global object, RegExp.prototype.source text, results of the implementation-defined Date/Number to-string methods)",
			"non-ES5 extras (console, String.prototype.trimLeft, function .name, ...) are tolerated when non-enumerable on built-in objects; they are listed in the evidence features",
			"local time zone is forced to a fixed +05:45:20 zone inside the worker (time.Local) so that local and UTC Date methods are distinguishable; getTimezoneOffset uses +05:45",
			"host functions (vm.Set) are outside ES5.1; asserted only: typeof/[[Class]]/[[Prototype]], non-writable non-enumerable non-configurable length, no enumerable own property",
			"shape equality between contexts is the textual equality of a breadth-first dump of everything reachable from the global object (own names in reported order, descriptors, classes, prototype identity by first-visit ordinal, primitive values)",
		},
		Exhaustive: true,
		Floor:      func(tier string) int { return listFor(tier).nontrivial },
		Cases:      func(tier string, seed uint64) int { return len(listFor(tier).cases) },
		Exec: func(c *run.Ctx, i int) {
			l := listFor(c.Tier)
			perm := permFor(c.Seed, len(l.cases))
			checkOne(c, l.cases[perm[i]], false)
		},
		Replay:       func(c *run.Ctx, raw json.RawMessage) { var in Input; mustUnmarshal(raw, &in); checkOne(c, in, true) },
		CaseTimeoutS: 120,
	})
	registerMatchers()
}

var permCache = map[[2]uint64][]int{}

func permFor(seed uint64, n int) []int {
	k := [2]uint64{seed, uint64(n)}
	if p, ok := permCache[k]; ok {
		return p
	}
	p := gen.New(seed, "C14/order", 0).Perm(n)
	permCache[k] = p
	return p
}

func mustUnmarshal(raw json.RawMessage, v interface{}) {
	if err := json.Unmarshal(raw, v); err != nil {
		panic(err)
	}
}

// ------------------------------------------------------------ runtimes

func hostFn(call otto.FunctionCall) otto.Value {
	parts := make([]string, len(call.ArgumentList))
	for i, a := range call.ArgumentList {
		parts[i] = ox.Enc(a)
	}
	v, _ := otto.ToValue(strings.Join(parts, ","))
	return v
}

// newBase creates the base runtime of a context ("copy" contexts copy it).
func newBase(ctx string) *otto.Otto {
	switch ctx {
	case "underscore":
		underscore.Enable()
		defer underscore.Disable()
	case "copy-used":
		vm := otto.New()
		for i := range es5table.Rows {
			r := &es5table.Rows[i]
			setZone(r.TZ)
			ox.Run(vm, rowProbe(r))
		}
		setZone(0)
		return vm
	case "fresh-late":
		otto.New()
		newBase("underscore").Copy()
		otto.New().Copy()
	}
	return otto.New()
}

// derive turns a base runtime into the runtime of the context.
func derive(ctx string, base *otto.Otto) *otto.Otto {
	switch ctx {
	case "copy", "copy-used":
		return base.Copy()
	case "copycopy":
		return base.Copy().Copy()
	}
	return base
}

func newVM(ctx string) *otto.Otto {
	if ctx == "fresh2" {
		otto.New() // the first fresh runtime of this process, if none was made yet
	}
	return derive(ctx, newBase(ctx))
}

var vms = map[string]*otto.Otto{}

func sharedVM(ctx string, fresh bool) *otto.Otto {
	if fresh {
		return newVM(ctx)
	}
	if vm, ok := vms[ctx]; ok {
		return vm
	}
	vm := newVM(ctx)
	vms[ctx] = vm
	return vm
}

func setZone(sec int) {
	if sec == 0 {
		sec = es5table.DefaultTZ
	}
	time.Local = time.FixedZone("C14", sec)
}

// ------------------------------------------------------------ observation plumbing

// obs is an ordered field->encoded value map read from a probe's result array.
type obs struct {
	keys []string
	m    map[string]string
}

func (o *obs) get(k string) (string, bool) { v, ok := o.m[k]; return v, ok }

func (o *obs) String() string {
	var b strings.Builder
	for _, k := range o.keys {
		fmt.Fprintf(&b, "%s=%s; ", k, o.m[k])
	}
	return b.String()
}

// probe runs src and decodes the (field, value) array.
func probe(c *run.Ctx, vm *otto.Otto, in Input, site, src string) (*obs, bool) {
	c.Announce(in)
	out := ox.Run(vm, src)
	c.Eval(1)
	if out.Panic != nil {
		c.Fail("panic", site+"#probe", in, "no Go panic", fmt.Sprint(out.Panic), out.Stack)
		delete(vms, in.Ctx)
		return nil, false
	}
	if out.Err != nil {
		c.Fail("mismatch", site+"#probe", in, "probe script completes", "throw:"+out.Err.Error(), "")
		return nil, false
	}
	if !out.Val.IsObject() {
		c.Fail("mismatch", site+"#probe", in, "probe returns an array", ox.Enc(out.Val), "")
		return nil, false
	}
	arr := out.Val.Object()
	lv, _ := arr.Get("length")
	n64, _ := lv.ToInteger()
	o := &obs{m: map[string]string{}}
	for i := 0; i+1 < int(n64); i += 2 {
		kv, _ := arr.Get(strconv.Itoa(i))
		vv, _ := arr.Get(strconv.Itoa(i + 1))
		k, _ := kv.ToString()
		o.keys = append(o.keys, k)
		o.m[k] = ox.Enc(vv)
	}
	return o, true
}

type expect struct{ field, want string }

func bstr(b bool) string    { return "b:" + strconv.FormatBool(b) }
func sstr(s string) string  { return "s:" + ox.Str(s) }
func nstr(f float64) string { return "n:" + ox.Num(f) }

// compare reports every expected field that is absent or different, and every
// err:* field the probe emitted.
func compare(c *run.Ctx, in Input, site string, o *obs, exp []expect) int {
	bad := 0
	for _, e := range exp {
		got, ok := o.get(e.field)
		if !ok {
			got = "<not observed>"
			if ev, isErr := o.get("err:" + e.field); isErr {
				got = "<probe step threw " + ev + ">"
			}
		}
		if got != e.want {
			bad++
			c.Fail("mismatch", site+"#"+e.field, in, e.want, got, o.String())
		}
	}
	return bad
}

// ------------------------------------------------------------ expectations

func attrExpect(prefix string, a es5table.Attr) []expect {
	return []expect{{prefix + "own", bstr(true)}, {prefix + "acc", bstr(false)}, {prefix + "w", bstr(a.W)}, {prefix + "e", bstr(a.E)}, {prefix + "c", bstr(a.C)}}
}

func rowExpect(r *es5table.Row) []expect {
	exp := attrExpect("", r.Attr)
	exp = append(exp, expect{"pie", bstr(r.Attr.E)}, expect{"same", bstr(true)})
	switch r.Kind {
	case es5table.Value:
		if r.Val != nil {
			exp = append(exp, expect{"typeof", sstr(r.Val.T)})
			switch r.Val.T {
			case "number":
				exp = append(exp, expect{"val", nstr(r.Val.N)})
			case "string":
				exp = append(exp, expect{"val", sstr(r.Val.S)})
			case "boolean":
				exp = append(exp, expect{"val", bstr(r.Val.B)})
			default:
				exp = append(exp, expect{"val", "undefined"})
			}
		}
	case es5table.Function, es5table.Constructor, es5table.Object:
		exp = append(exp, expect{"typeof", sstr(r.Typeof)}, expect{"class", sstr("[object " + r.Class + "]")},
			expect{"proto", sstr(r.Proto)}, expect{"ext", bstr(true)}, expect{"enumOwn", sstr("")}, expect{"descFail", sstr("")})
		if r.Typeof == "function" && r.Kind != es5table.Object {
			exp = append(exp, attrExpect("len.", es5table.None)...)
			exp = append(exp, expect{"len", nstr(float64(r.Length))})
		}
		switch r.Kind {
		case es5table.Function:
			exp = append(exp, expect{"hasProto", bstr(false)}, expect{"new", sstr("TypeError")})
		case es5table.Constructor:
			exp = append(exp, expect{"hasProto", bstr(true)}, expect{"pc", bstr(true)})
		}
	}
	if r.NotCallable {
		exp = append(exp, expect{"callT", sstr("TypeError")}, expect{"newT", sstr("TypeError")})
	}
	if r.Is != "" {
		exp = append(exp, expect{"is", bstr(true)})
	}
	if r.Pred != "" {
		exp = append(exp, expect{"pred", bstr(true)})
	}
	if r.Call != "" {
		exp = append(exp, expect{"call", bstr(true)})
	}
	for i, sp := range r.Also {
		exp = append(exp, expect{"also" + strconv.Itoa(i), sp.Want})
	}
	return exp
}

// ------------------------------------------------------------ cases

func checkOne(c *run.Ctx, in Input, fresh bool) {
	setZone(0)
	c.Feature("ctx:" + in.Ctx)
	c.Feature("kind:" + in.Kind)
	switch in.Kind {
	case "row":
		checkRow(c, in, fresh)
	case "behav":
		checkBehav(c, in)
	case "owner":
		checkOwner(c, in, fresh)
	case "forin":
		checkForin(c, in, fresh)
	case "inst":
		checkInst(c, in, fresh)
	case "dyn":
		checkDyn(c, in)
	case "dump":
		checkDump(c, in)
	default:
		c.Inconclusive("unknown case kind " + in.Kind)
	}
}

func checkRow(c *run.Ctx, in Input, fresh bool) {
	r := es5table.Lookup(in.Item)
	if r == nil {
		c.Inconclusive("unknown row " + in.Item)
		return
	}
	setZone(r.TZ)
	vm := sharedVM(in.Ctx, fresh)
	o, ok := probe(c, vm, in, r.Key(), rowProbe(r))
	if !ok {
		return
	}
	c.Sample(map[string]string{"ctx": in.Ctx, "row": r.Key(), "clause": r.Clause, "observed": o.String()})
	if own, _ := o.get("own"); own != bstr(true) && r.AnnexB {
		c.Feature("annexB-absent:" + r.Key())
		return
	}
	exp := rowExpect(r)
	if own, _ := o.get("own"); own != bstr(true) {
		// an absent property: one failure, not one per dependent field
		inh, _ := o.get("inherited")
		c.Fail("mismatch", r.Key()+"#own", in, bstr(true), own, "inherited="+inh)
		c.Feature("rows-deviating")
		c.Nontrivial("row/" + in.Ctx + "/" + r.Key())
		return
	}
	bad := compare(c, in, r.Key(), o, exp)
	c.Eval(len(exp))
	c.FeatureN("assertions", len(exp))
	c.FeatureN("attribute-assertions", r.AttrAssertions())
	c.Feature("row-kind:" + string(r.Kind))
	c.Feature("row-attr:" + r.Attr.String())
	if r.Call != "" {
		c.Feature("distinguishing-calls")
	}
	if bad == 0 {
		c.Feature("rows-conforming")
	} else {
		c.Feature("rows-deviating")
	}
	// extras on function objects (non-ES5 own properties) are informational
	if names, ok := o.get("ownNames"); ok && (r.Kind == es5table.Function) {
		for _, n := range splitNames(names) {
			if n != "length" {
				c.Feature("function-extra-own:" + n)
			}
		}
	}
	c.Nontrivial("row/" + in.Ctx + "/" + r.Key())
}

func splitNames(enc string) []string {
	// enc is s:"a,b,c"
	s := strings.TrimSuffix(strings.TrimPrefix(enc, `s:"`), `"`)
	if s == "" {
		return nil
	}
	return strings.Split(s, ",")
}

func checkBehav(c *run.Ctx, in Input) {
	r := es5table.Lookup(in.Item)
	if r == nil {
		c.Inconclusive("unknown row " + in.Item)
		return
	}
	base := newBase(in.Ctx)
	vm := derive(in.Ctx, base)
	site := r.Key()
	var before *obs
	if vm != base {
		var ok bool
		if before, ok = probe(c, base, in, site, miniProbe(r)); !ok {
			return
		}
	}
	o, ok := probe(c, vm, in, site, behavProbe(r))
	if !ok {
		return
	}
	if own, _ := o.get("own"); own != bstr(true) {
		if !r.AnnexB {
			c.Fail("mismatch", site+"#behav.own", in, bstr(true), own, o.String())
			c.Nontrivial("behav/" + in.Ctx + "/" + r.Key())
		}
		return
	}
	exp := []expect{{"forin", bstr(r.Attr.E)}, {"wrote", bstr(r.Attr.W)}, {"del", bstr(r.Attr.C)}, {"gone", bstr(r.Attr.C)}, {"werr", sstr("none")}}
	// behavioural fields are reported under distinct field names
	for i := range exp {
		got, _ := o.get(exp[i].field)
		if got != exp[i].want {
			c.Fail("mismatch", site+"#behav."+exp[i].field, in, exp[i].want, got, o.String())
		}
	}
	c.Eval(len(exp))
	c.FeatureN("behavioural-assertions", len(exp))
	if before != nil {
		after, ok := probe(c, base, in, site, miniProbe(r))
		if !ok {
			return
		}
		if before.String() != after.String() {
			c.Fail("mismatch", site+"#copy-isolation", in, before.String(), after.String(), "mutating the copy changed the original")
		}
		c.Feature("copy-isolation-checked")
	}
	c.Nontrivial("behav/" + in.Ctx + "/" + r.Key())
}

func tableNamesOf(owner string) map[string]bool {
	m := map[string]bool{}
	for i := range es5table.Rows {
		if es5table.Rows[i].Owner == owner {
			m[es5table.Rows[i].Name] = true
		}
	}
	return m
}

func checkOwner(c *run.Ctx, in Input, fresh bool) {
	vm := sharedVM(in.Ctx, fresh)
	site := "owner:" + in.Item
	o, ok := probe(c, vm, in, site, ownerProbe(in.Item))
	if !ok {
		return
	}
	table := tableNamesOf(in.Item)
	names, _ := o.get("ownNames")
	have := map[string]bool{}
	for _, n := range splitNames(names) {
		have[n] = true
		if !table[n] && !(n == "length" || n == "prototype") {
			c.Feature("extra:" + in.Item + "." + n)
			if !allowedExtras[in.Item+"."+n] {
				// an own property ES5.1 does not give this object changes what scripts see (it shadows an
				// inherited method, shows up in getOwnPropertyNames): only the additions listed in
				// allowedExtras (later editions, Annex B, host objects) are accepted
				c.Fail("mismatch", site+"#extra", in, sstr(""), sstr(n), "own property not in ES5.1 section 15 and not a listed extension")
			}
		}
	}
	en, _ := o.get("enumOwn")
	fi, _ := o.get("forinOwn")
	if in.Item == "global" {
		for _, lst := range []struct{ f, v string }{{"enumOwn", en}, {"forinOwn", fi}} {
			var badNames []string
			for _, n := range splitNames(lst.v) {
				if table[n] {
					badNames = append(badNames, n)
				} else {
					c.Feature("global-enumerable-extra:" + n)
				}
			}
			got := strings.Join(badNames, ",")
			if got != "" {
				c.Fail("mismatch", site+"#"+lst.f, in, sstr(""), sstr(got), o.String())
			}
		}
	} else {
		compare(c, in, site, o, []expect{{"enumOwn", sstr("")}, {"forinOwn", sstr("")}})
	}
	compare(c, in, site, o, []expect{{"ext", bstr(true)}, {"descFail", sstr("")}})
	c.Eval(4)
}

// allowedExtras: own properties of built-in objects beyond ES5.1 section 15 that otto provides on
// purpose (ES2015+ functions, Annex B / legacy RegExp statics, host objects).
var allowedExtras = func() map[string]bool {
	m := map[string]bool{}
	for _, n := range []string{"acosh", "asinh", "atanh", "cbrt", "cosh", "expm1", "log10", "log1p", "log2", "sinh", "tanh", "trunc"} {
		m["Math."+n] = true
	}
	for _, n := range []string{"$1", "$2", "$3", "$4", "$5", "$6", "$7", "$8", "$9", "$_", "input"} {
		m["RegExp."+n] = true
	}
	for _, n := range []string{"startsWith", "trimEnd", "trimLeft", "trimRight", "trimStart"} {
		m["String.prototype."+n] = true
	}
	for _, n := range []string{"Number.isNaN", "Object.assign", "Object.values", "RegExp.prototype.compile", "global._", "global.console"} {
		m[n] = true
	}
	return m
}()

// instTarget is an object the library creates: ES5.1 "Properties of ... Instances" (15.x.5) and the
// clauses of the constructors say exactly which own properties it has.
type instTarget struct {
	ID, Expr string
	Want     string            // sorted own property names
	Optional []string          // tolerated additions (documented extensions)
	Attrs    map[string]string // name -> "w e c" (t/f), only where ES5.1 fixes the attributes
	Class    string
	Proto    string // label of the prototype object
}

var regexpAttrs = map[string]string{"source": "f f f", "global": "f f f", "ignoreCase": "f f f", "multiline": "f f f", "lastIndex": "t f f"}

var instTargets = []instTarget{
	{ID: "object", Expr: `new Object()`, Want: "", Class: "Object", Proto: "Object.prototype"},
	{ID: "object-literal", Expr: `({a:1})`, Want: "a", Attrs: map[string]string{"a": "t t t"}, Class: "Object", Proto: "Object.prototype"},
	{ID: "array", Expr: `new Array(3)`, Want: "length", Attrs: map[string]string{"length": "t f f"}, Class: "Array", Proto: "Array.prototype"},
	{ID: "array-literal", Expr: `[7,8]`, Want: "0,1,length", Attrs: map[string]string{"0": "t t t", "length": "t f f"}, Class: "Array", Proto: "Array.prototype"},
	{ID: "string", Expr: `new String("ab")`, Want: "0,1,length", Attrs: map[string]string{"length": "f f f", "0": "f t f"}, Class: "String", Proto: "String.prototype"},
	{ID: "boolean", Expr: `new Boolean(true)`, Want: "", Class: "Boolean", Proto: "Boolean.prototype"},
	{ID: "number", Expr: `new Number(1)`, Want: "", Class: "Number", Proto: "Number.prototype"},
	{ID: "date", Expr: `new Date(0)`, Want: "", Class: "Date", Proto: "Date.prototype"},
	{ID: "regexp-literal", Expr: `/a/g`, Want: "global,ignoreCase,lastIndex,multiline,source", Attrs: regexpAttrs, Class: "RegExp", Proto: "RegExp.prototype"},
	{ID: "regexp-ctor", Expr: `new RegExp("a","i")`, Want: "global,ignoreCase,lastIndex,multiline,source", Attrs: regexpAttrs, Class: "RegExp", Proto: "RegExp.prototype"},
	{ID: "error-new", Expr: `new Error("m")`, Want: "message", Optional: []string{"stack"}, Class: "Error", Proto: "Error.prototype"},
	{ID: "error-call", Expr: `Error("m")`, Want: "message", Optional: []string{"stack"}, Class: "Error", Proto: "Error.prototype"},
	{ID: "error-no-message", Expr: `new Error()`, Want: "", Optional: []string{"stack"}, Class: "Error", Proto: "Error.prototype"},
	{ID: "typeerror-new", Expr: `new TypeError("m")`, Want: "message", Optional: []string{"stack"}, Class: "Error", Proto: "TypeError.prototype"},
	{ID: "rangeerror-call", Expr: `RangeError("m")`, Want: "message", Optional: []string{"stack"}, Class: "Error", Proto: "RangeError.prototype"},
	{ID: "syntaxerror-no-message", Expr: `new SyntaxError()`, Want: "", Optional: []string{"stack"}, Class: "Error", Proto: "SyntaxError.prototype"},
	{ID: "thrown-typeerror", Expr: `(function(){try{null.x}catch(x){return x}})()`, Want: "message", Optional: []string{"stack"}, Class: "Error", Proto: "TypeError.prototype"},
	{ID: "thrown-referenceerror", Expr: `(function(){try{undefinedName}catch(x){return x}})()`, Want: "message", Optional: []string{"stack"}, Class: "Error", Proto: "ReferenceError.prototype"},
	{ID: "arguments", Expr: `(function(){return arguments})(1,2)`, Want: "0,1,callee,length", Attrs: map[string]string{"0": "t t t", "length": "t f t", "callee": "t f t"}, Class: "Arguments", Proto: "Object.prototype"},
	{ID: "json-parse", Expr: `JSON.parse('{"a":[1]}')`, Want: "a", Attrs: map[string]string{"a": "t t t"}, Class: "Object", Proto: "Object.prototype"},
	{ID: "object-create-null", Expr: `Object.create(null)`, Want: "", Class: "Object", Proto: "null"},
	{ID: "split-result", Expr: `"a,b".split(",")`, Want: "0,1,length", Attrs: map[string]string{"0": "t t t", "length": "t f f"}, Class: "Array", Proto: "Array.prototype"},
	{ID: "exec-result", Expr: `/a/.exec("xa")`, Want: "0,index,input,length", Attrs: map[string]string{"0": "t t t", "index": "t t t", "input": "t t t", "length": "t f f"}, Class: "Array", Proto: "Array.prototype"},
	{ID: "descriptor", Expr: `Object.getOwnPropertyDescriptor({a:1},"a")`, Want: "configurable,enumerable,value,writable", Attrs: map[string]string{"value": "t t t", "writable": "t t t"}, Class: "Object", Proto: "Object.prototype"},
	// B.2.6: "The Function object that is the initial value of Date.prototype.toGMTString is the same
	// Function object that is the initial value of Date.prototype.toUTCString" (the comparison is
	// turned into an object so that the same probe reports it)
	{ID: "same-function:toGMTString=toUTCString", Expr: `(Date.prototype.toGMTString===Date.prototype.toUTCString ? {identical:1} : {distinct:1})`, Want: "identical", Class: "Object", Proto: "Object.prototype"},
	// 15.3.4.2: the text of every script function has the syntax of a function; 15.3.5 / clause 15: every function
	// object has Function.prototype as its [[Prototype]] (the internal getter of f.caller included)
	{ID: "accessor-function-text", Expr: `(function(){ var d = Object.getOwnPropertyDescriptor({get a(){ return 1 }, set a(v){}}, "a"); return (String(d.get).indexOf("function") === 0 && String(d.set).indexOf("function") === 0) ? {text:1} : {empty:1} })()`, Want: "text", Class: "Object", Proto: "Object.prototype"},
	{ID: "caller-getter-prototype", Expr: `(function(){ var bad = 0, fs = [function(){}, Math.max, Object.getOwnPropertyDescriptor(new Error("x"), "stack").get]; for (var i = 0; i < fs.length; i++) { var f = fs[i]; for (var hop = 0; f && hop < 3; hop++) { if (Object.getPrototypeOf(f) !== Function.prototype || !(f instanceof Function)) bad++; var d = Object.getOwnPropertyDescriptor(f, "caller"); f = d && d.get } } return bad ? {unlinked:1} : {linked:1} })()`, Want: "linked", Class: "Object", Proto: "Object.prototype"},
	{ID: "keys-result", Expr: `Object.keys({a:1})`, Want: "0,length", Class: "Array", Proto: "Array.prototype"},
}

func instByID(id string) *instTarget {
	for i := range instTargets {
		if instTargets[i].ID == id {
			return &instTargets[i]
		}
	}
	return nil
}

func instProbe(t *instTarget) string {
	return "(function(G){" + helpers + "var O=(" + t.Expr + `);
var n=GOPN(O); n.sort(); e("ownNames",J(n)); e("class",CL(O)); e("proto",LBL(GPO(O))); e("ext",IEXT(O));
for(var i=0;i<n.length;i++){var d=GOPD(O,n[i]); if(d&&("value" in d)) e("attr:"+n[i],(d.writable?"t":"f")+" "+(d.enumerable?"t":"f")+" "+(d.configurable?"t":"f")); else e("attr:"+n[i],"accessor")}
return R})(this)`
}

func checkInst(c *run.Ctx, in Input, fresh bool) {
	t := instByID(in.Item)
	if t == nil {
		c.Inconclusive("unknown instance target " + in.Item)
		return
	}
	vm := sharedVM(in.Ctx, fresh)
	site := "inst:" + t.ID
	o, ok := probe(c, vm, in, site, instProbe(t))
	if !ok {
		return
	}
	names, _ := o.get("ownNames")
	opt := map[string]bool{}
	for _, n := range t.Optional {
		opt[n] = true
	}
	var core []string
	for _, n := range splitNames(names) {
		if opt[n] {
			c.Feature("instance-extension:" + t.ID + "." + n)
			continue
		}
		core = append(core, n)
	}
	if got := strings.Join(core, ","); got != t.Want {
		c.Fail("mismatch", site+"#ownNames", in, sstr(t.Want), sstr(got), o.String())
	}
	exp := []expect{{"class", sstr("[object " + t.Class + "]")}, {"proto", sstr(t.Proto)}, {"ext", bstr(true)}}
	for n, a := range t.Attrs {
		exp = append(exp, expect{"attr:" + n, sstr(a)})
	}
	sort.Slice(exp, func(i, j int) bool { return exp[i].field < exp[j].field })
	compare(c, in, site, o, exp)
	c.Eval(2 + len(exp))
	c.Nontrivial(in.Ctx + "|inst|" + t.ID)
}

func checkForin(c *run.Ctx, in Input, fresh bool) {
	var t *forinTarget
	for i := range forinTargets {
		if forinTargets[i].ID == in.Item {
			t = &forinTargets[i]
		}
	}
	if t == nil {
		c.Inconclusive("unknown for-in target " + in.Item)
		return
	}
	vm := sharedVM(in.Ctx, fresh)
	site := "forin:" + t.ID
	o, ok := probe(c, vm, in, site, forinProbe(t))
	if !ok {
		return
	}
	keysEnc, _ := o.get("keys")
	keys := splitNames(keysEnc)
	if t.ID == "global" {
		table := tableNamesOf("global")
		var bad []string
		for _, k := range keys {
			if table[k] {
				bad = append(bad, k)
			} else {
				c.Feature("forin-global-extra:" + k)
			}
		}
		if len(bad) > 0 {
			c.Fail("mismatch", site+"#keys", in, "no ES5 global name enumerated", strings.Join(bad, ","), keysEnc)
		}
		c.Eval(1)
		return
	}
	allowed := map[string]bool{}
	for _, a := range t.Allowed {
		allowed[a] = true
	}
	var kept []string
	for _, k := range keys {
		if !allowed[k] {
			kept = append(kept, k)
		} else {
			c.Feature("forin-open-attribute-seen:" + t.ID + "." + k)
		}
	}
	sort.Strings(kept)
	if got := strings.Join(kept, ","); got != t.Want {
		c.Fail("mismatch", site+"#keys", in, sstr(t.Want), sstr(got), keysEnc)
	}
	c.Eval(1)
}

func checkDyn(c *run.Ctx, in Input) {
	var d *dynCase
	for i := range dynCases {
		if dynCases[i].ID == in.Item {
			d = &dynCases[i]
		}
	}
	if d == nil {
		c.Inconclusive("unknown dynamic function " + in.Item)
		return
	}
	base := newBase(in.Ctx)
	if in.Ctx == "fresh2" {
		base = newBase(in.Ctx)
	}
	if err := base.Set(hostName, hostFn); err != nil {
		c.Inconclusive("Set failed: " + err.Error())
		return
	}
	vm := derive(in.Ctx, base)
	site := "dyn:" + d.ID
	o, ok := probe(c, vm, in, site, dynProbe(d))
	if !ok {
		return
	}
	c.Sample(map[string]string{"ctx": in.Ctx, "dyn": d.ID, "expr": d.Expr, "observed": o.String()})
	exp := []expect{{"typeof", sstr("function")}, {"class", sstr("[object Function]")}, {"proto", sstr("Function.prototype")}, {"ext", bstr(true)},
		{"enumOwn", sstr("")}, {"descFail", sstr("")}, {"forin", sstr("")}, {"behave", bstr(true)}}
	exp = append(exp, attrExpect("len.", es5table.None)...)
	if d.Len >= 0 {
		exp = append(exp, expect{"len", nstr(float64(d.Len))})
	}
	if d.Proto {
		// 13.2 steps 16-18
		exp = append(exp, expect{"hasProto", bstr(true)})
		exp = append(exp, attrExpect("p.", es5table.Attr{W: true, E: false, C: false})...)
		exp = append(exp, expect{"p.typeof", sstr("object")}, expect{"p.class", sstr("[object Object]")}, expect{"p.proto", sstr("Object.prototype")},
			expect{"p.ext", bstr(true)}, expect{"p.enumOwn", sstr("")}, expect{"p.descFail", sstr("")})
		exp = append(exp, attrExpect("pc.", es5table.Dflt)...)
		exp = append(exp, expect{"pc.is", bstr(true)})
	}
	if d.Bound {
		// 15.3.4.5: no prototype property; steps 20-21 poison pills
		exp = append(exp, expect{"hasProto", bstr(false)})
		for _, n := range []string{"caller", "arguments"} {
			exp = append(exp, expect{n, sstr("accessor get===set:true e:false c:false read:TypeError")})
		}
	}
	for i, sp := range d.Also {
		exp = append(exp, expect{"also" + strconv.Itoa(i), sp.Want})
	}
	compare(c, in, site, o, exp)
	c.Eval(len(exp))
	c.FeatureN("dynamic-assertions", len(exp))
	c.Nontrivial("dyn/" + in.Ctx + "/" + d.ID)
}

// ------------------------------------------------------------ whole-graph dumps

func dumpOf(c *run.Ctx, in Input, label string, vm *otto.Otto, skip string) (string, bool) {
	c.Announce(in)
	out := ox.Run(vm, dumpSrc+"(this,["+skip+"])")
	c.Eval(1)
	if out.Panic != nil {
		c.Fail("panic", "dump:"+in.Item+"#"+label, in, "no Go panic", fmt.Sprint(out.Panic), out.Stack)
		return "", false
	}
	if out.Err != nil || !out.Val.IsString() {
		c.Fail("mismatch", "dump:"+in.Item+"#"+label, in, "dump script completes", fmt.Sprint(out.Err, " ", ox.Enc(out.Val)), "")
		return "", false
	}
	s, _ := out.Val.ToString()
	c.FeatureN("dump-lines:"+in.Item+":"+label, strings.Count(s, "\n")+1)
	c.FeatureN("dump-objects:"+in.Item+":"+label, strings.Count(s, "\n#")+1)
	return s, true
}

func firstDiff(a, b string) (string, string) {
	la, lb := strings.Split(a, "\n"), strings.Split(b, "\n")
	for i := 0; i < len(la) || i < len(lb); i++ {
		var x, y string
		if i < len(la) {
			x = la[i]
		} else {
			x = "<end>"
		}
		if i < len(lb) {
			y = lb[i]
		} else {
			y = "<end>"
		}
		if x != y {
			// include the object header the line belongs to
			hdr := ""
			for j := i; j >= 0 && j < len(la); j-- {
				if strings.HasPrefix(la[j], "#") {
					hdr = la[j]
					break
				}
			}
			return fmt.Sprintf("line %d: %s   [in %s]", i+1, x, hdr), fmt.Sprintf("line %d: %s", i+1, y)
		}
	}
	return "", ""
}

func checkDump(c *run.Ctx, in Input) {
	type ctxVM struct {
		label string
		vm    *otto.Otto
		skip  string
	}
	var list []ctxVM
	prep := func(vm *otto.Otto) bool {
		switch in.Item {
		case "pristine":
			return true
		case "prelude", "used":
			if err := vm.Set(hostName, hostFn); err != nil {
				c.Inconclusive("Set: " + err.Error())
				return false
			}
			if out := ox.Run(vm, preludeSrc); out.Err != nil || out.Panic != nil {
				c.Fail("mismatch", "dump:"+in.Item+"#prelude", in, "prelude completes", out.String()+" "+fmt.Sprint(out.Err), "")
				return false
			}
			if in.Item == "used" {
				// exercise every distinguishing call before the shape is taken
				for i := range es5table.Rows {
					r := &es5table.Rows[i]
					if r.Call == "" {
						continue
					}
					setZone(r.TZ)
					ox.Run(vm, rowProbe(r))
				}
				setZone(0)
			}
			return true
		}
		c.Inconclusive("unknown dump " + in.Item)
		return false
	}
	a := otto.New()
	if !prep(a) {
		return
	}
	b := otto.New()
	if !prep(b) {
		return
	}
	cp := a.Copy()
	cpcp := cp.Copy()
	list = append(list, ctxVM{"fresh", a, ""}, ctxVM{"fresh2", b, ""}, ctxVM{"copy", cp, ""}, ctxVM{"copycopy", cpcp, ""})
	us := newBase("underscore")
	if !prep(us) {
		return
	}
	list = append(list, ctxVM{"underscore(skip _)", us, `"_"`}, ctxVM{"underscore.copy(skip _)", us.Copy(), `"_"`})
	var ref string
	for i, x := range list {
		s, ok := dumpOf(c, in, x.label, x.vm, x.skip)
		if !ok {
			return
		}
		if i == 0 {
			ref = s
			c.Sample(map[string]string{"dump": in.Item, "head": clipLines(s, 12)})
			continue
		}
		if s != ref {
			e, g := firstDiff(ref, s)
			c.Fail("mismatch", "dump:"+in.Item+"#"+x.label, in, e, g, "shape dump of context "+x.label+" differs from the fresh runtime's")
		} else {
			c.Feature("dump-equal:" + in.Item + ":" + x.label)
		}
	}
	// a dump is also self-consistent evidence: re-dumping the same runtime gives the same text
	if s, ok := dumpOf(c, in, "fresh-again", a, ""); ok && s != ref {
		e, g := firstDiff(ref, s)
		c.Fail("mismatch", "dump:"+in.Item+"#fresh-again", in, e, g, "observing the shape changed it")
	}
}

func clipLines(s string, n int) string {
	l := strings.Split(s, "\n")
	if len(l) > n {
		l = l[:n]
	}
	return strings.Join(l, "\n")
}
