package c14

import (
	"testing"

	"github.com/robertkrimen/otto"

	"verif/internal/es5table"
	"verif/internal/ox"
)

// The distinguishing call of every function must (a) hold for the function
// itself and (b) fail for every sibling of the same owner that ES5.1 does not
// allow to agree - otherwise a cross-wired table entry would go unnoticed. This
// is a test of the table's discriminating power, run on the real runtime.
func TestCallsDiscriminateSiblings(t *testing.T) {
	vm := otto.New()
	pairs, weak := 0, 0
	for i := range es5table.Rows {
		r := &es5table.Rows[i]
		if r.Call == "" || r.Is != "" {
			continue
		}
		setZone(r.TZ)
		self := ox.Run(vm, callProbe(r, r))
		if self.String() != "b:true" {
			t.Errorf("%s: own call yields %s %v", r.Key(), self.String(), self.Err)
		}
		agree := map[string]bool{}
		for _, a := range r.Agree {
			agree[a] = true
		}
		weak += len(r.Agree)
		for _, s := range es5table.Siblings(r) {
			if agree[s.Name] {
				continue
			}
			out := ox.Run(vm, callProbe(r, s))
			pairs++
			if out.Panic != nil {
				vm = otto.New()
				continue
			}
			if out.String() == "b:true" {
				t.Errorf("%s: call is also satisfied by sibling %s", r.Key(), s.Name)
			}
		}
	}
	t.Logf("%d (function, sibling) pairs discriminated; %d declared agreements", pairs, weak)
}

func TestCaseListIsStable(t *testing.T) {
	allCases := listFor("quick").cases
	if len(allCases) < 2000 || len(listFor("thorough").cases) <= len(allCases) {
		t.Errorf("only %d cases", len(allCases))
	}
	seen := map[Input]bool{}
	for _, c := range allCases {
		if seen[c] {
			t.Errorf("duplicate case %+v", c)
		}
		seen[c] = true
	}
	p := permFor(7, len(allCases))
	q := permFor(7, len(allCases))
	for i := range p {
		if p[i] != q[i] {
			t.Fatal("permutation not deterministic")
		}
	}
}
