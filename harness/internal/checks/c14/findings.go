package c14

import "verif/internal/run"

// dev is one exact deviation: the assertion site "<owner>.<name>#<field>" and
// the exact observed (encoded) value. A known finding matches a failure only
// when both are equal, in any context, so every OTHER change of the same
// property (another field, another wrong value) still alarms.
type dev struct{ site, actual string }

const boundPill = `s:"data value:undefined w:false e:false c:false read:no-throw"`

func forEach(items []string, suffix, actual string) []dev {
	var out []dev
	for _, it := range items {
		out = append(out, dev{it + suffix, actual})
	}
	return out
}

var scriptFns = []string{"dyn:function-expression", "dyn:function-declaration", "dyn:function-0", "dyn:Function-call", "dyn:new-Function",
	"dyn:new-Function-0", "dyn:getter-function", "dyn:setter-function", "dyn:host-function"}

var boundFns = []string{"dyn:bound-1-of-3", "dyn:bound-0-of-2", "dyn:bound-3-of-1", "dyn:bound-of-bound", "dyn:bound-builtin",
	"dyn:bound-constructor", "dyn:host-function-bound"}

var rePrototypeProps = []string{"RegExp.prototype.source", "RegExp.prototype.global", "RegExp.prototype.ignoreCase", "RegExp.prototype.multiline", "RegExp.prototype.lastIndex"}

func cat(lists ...[]dev) []dev {
	var out []dev
	for _, l := range lists {
		out = append(out, l...)
	}
	return out
}

// knownDeviations maps matcher names (referenced from known_findings/C14.jsonl)
// to the exact deviations that finding explains.
var knownDeviations = map[string][]dev{
	"c14.atan2-length":                 {{"Math.atan2#len", "n:1"}},
	"c14.number-tostring-length":       {{"Number.prototype.toString#len", "n:0"}},
	"c14.number-tolocalestring-length": {{"Number.prototype.toLocaleString#len", "n:1"}},
	"c14.nativeerror-prototype-class": {
		{"EvalError.prototype#class", `s:"[object EvalError]"`}, {"RangeError.prototype#class", `s:"[object RangeError]"`},
		{"ReferenceError.prototype#class", `s:"[object ReferenceError]"`}, {"SyntaxError.prototype#class", `s:"[object SyntaxError]"`},
		{"TypeError.prototype#class", `s:"[object TypeError]"`}, {"URIError.prototype#class", `s:"[object URIError]"`}},
	"c14.nativeerror-prototype-own-tostring": forEach([]string{"owner:EvalError.prototype", "owner:RangeError.prototype", "owner:ReferenceError.prototype",
		"owner:SyntaxError.prototype", "owner:TypeError.prototype", "owner:URIError.prototype"}, "#extra", `s:"toString"`),
	"c14.error-instance-own-name": {{"inst:error-new#ownNames", `s:"message,name"`}, {"inst:error-call#ownNames", `s:"message,name"`}, {"inst:error-no-message#ownNames", `s:"name"`}},
	"c14.togmtstring-distinct":    {{"inst:same-function:toGMTString=toUTCString#ownNames", `s:"distinct"`}},
	"c14.regexp-prototype-not-regexp":    cat(forEach(rePrototypeProps, "#own", "b:false"), forEach(rePrototypeProps, "#behav.own", "b:false")),
	"c14.date-prototype-time-value":      {{"Date.prototype#also0", "n:0"}},
	"c14.accessor-descriptor-panic":      forEach(scriptFns, "#descFail", `s:"caller:TypeError"`),
	"c14.bound-function-own-properties":  cat(forEach(boundFns, "#hasProto", "b:true"), forEach(boundFns, "#caller", boundPill), forEach(boundFns, "#arguments", boundPill)),
	"c14.bound-new-nonconstructor":       {{"dyn:bound-builtin#also0", `s:"throw:non-error:string"`}},
	"c14.bound-hasinstance":              {{"dyn:bound-constructor#also0", "b:false"}},
	"c14.error-instance-enumerable-name": {{"forin:error#keys", `s:"name"`}},
	"c14.spot-toisostring-invalid":       {{"Date.prototype.toISOString#also0", `s:"Invalid Date"`}},
	"c14.spot-tojson-generic":            {{"Date.prototype.toJSON#also0", "null"}},
	"c14.spot-error-tostring-nonobject":  {{"Error.prototype.toString#also0", `s:"Error"`}},
	"c14.spot-number-exponent-layout": {{"Number.prototype.toExponential#also0", `s:"1.50e+00"`}, {"Number.prototype.toExponential#also1", `s:"0e+00"`},
		{"Number.prototype.toPrecision#also0", `s:"1.5"`}, {"Number.prototype.toPrecision#also1", `s:"1.2e+05"`}},
	"c14.spot-gopn-nonobject":            {{"Object.getOwnPropertyNames#also0", "o:Array"}},
	"c14.spot-object-tostring-undefined": {{"Object.prototype.toString#also0", `s:"[object environment]"`}},
	"c14.spot-regexp-tostring-generic":   {{"RegExp.prototype.toString#also0", `s:"/undefined/"`}},
	"c14.spot-charat-primitive-receiver": {{"String.prototype.charAt#also0", `s:"throw:non-error:string"`}, {"String.prototype.charCodeAt#also0", `s:"throw:non-error:string"`}},
	"c14.spot-regexp-syntaxerror":        {{"global.RegExp#also0", `s:"throw:TypeError"`}},
	"c14.spot-array-tostring-args":       {{"Array.prototype.toString#also0", `s:"1-2"`}},
}

func registerMatchers() {
	for name, devs := range knownDeviations {
		devs := devs
		run.RegisterMatcher(name, func(f *run.Failure) bool {
			if f.Kind != "mismatch" {
				return false
			}
			for _, d := range devs {
				if f.Site == d.site && f.Actual == d.actual {
					return true
				}
			}
			return false
		})
	}
}
