package refobj

import (
	"math"
	"reflect"
	"testing"
)

func data(v Value, w, e, c bool) *Desc {
	return &Desc{HasValue: true, Value: v, HasWritable: true, Writable: w, HasEnumerable: true, Enumerable: e, HasConfigurable: true, Configurable: c}
}

func mustDefine(t *testing.T, o *Obj, n string, d *Desc) {
	t.Helper()
	if ok, thr := o.DefineOwnProperty(n, d, true); !ok || thr != nil {
		t.Fatalf("define %s: %v %v", n, ok, thr)
	}
}

func rejects(t *testing.T, o *Obj, n string, d *Desc) {
	t.Helper()
	ok, thr := o.DefineOwnProperty(n, d, true)
	if ok || thr == nil || thr.Class != "TypeError" {
		t.Fatalf("define %s should be rejected with TypeError: %v %v", n, ok, thr)
	}
	if ok, thr := o.DefineOwnProperty(n, d, false); ok || thr != nil {
		t.Fatalf("define %s with Throw=false should return false silently", n)
	}
}

func TestSameValue(t *testing.T) {
	nz := math.Copysign(0, -1)
	if !SameValue(Num(math.NaN()), Num(math.NaN())) || SameValue(Num(0), Num(nz)) || !SameValue(Num(nz), Num(nz)) {
		t.Fatal("9.12 NaN / zeros")
	}
	if SameValue(Num(0), Str("0")) || SameValue(Undef(), NullV()) || !SameValue(Str("s"), Str("s")) {
		t.Fatal("9.12 types")
	}
	w := NewWorld()
	a, b := w.NewObject(), w.NewObject()
	if SameValue(ObjV(a), ObjV(b)) || !SameValue(ObjV(a), ObjV(a)) {
		t.Fatal("9.12 objects")
	}
}

func TestDefaultsOnCreate(t *testing.T) {
	w := NewWorld()
	o := w.NewObject()
	mustDefine(t, o, "a", &Desc{}) // 8.12.9 step 4a with a generic descriptor
	p := o.RawProp("a")
	if p.Accessor || !p.Value.IsUndef() || p.Writable || p.Enumerable || p.Configurable {
		t.Fatalf("defaults: %+v", p)
	}
	mustDefine(t, o, "b", &Desc{HasGet: true, Get: Undef()}) // 4b: accessor with get undefined
	p = o.RawProp("b")
	if !p.Accessor || !p.Get.IsUndef() || !p.Set.IsUndef() || p.Enumerable || p.Configurable {
		t.Fatalf("accessor defaults: %+v", p)
	}
	d := w.FromPropertyDescriptor(o.GetOwnProperty("b")).O
	if !reflect.DeepEqual(d.OwnNames(), []string{"get", "set", "enumerable", "configurable"}) {
		t.Fatalf("8.10.4 accessor fields: %v", d.OwnNames())
	}
	d = w.FromPropertyDescriptor(o.GetOwnProperty("a")).O
	if !reflect.DeepEqual(d.OwnNames(), []string{"value", "writable", "enumerable", "configurable"}) {
		t.Fatalf("8.10.4 data fields: %v", d.OwnNames())
	}
}

func TestNonConfigurableRules(t *testing.T) {
	w := NewWorld()
	o := w.NewObject()
	nz := math.Copysign(0, -1)
	mustDefine(t, o, "a", data(Num(0), false, true, false))
	// same value short-cuts (steps 5, 6, 10.a.ii)
	mustDefine(t, o, "a", &Desc{})
	mustDefine(t, o, "a", &Desc{HasValue: true, Value: Num(0)})
	mustDefine(t, o, "a", data(Num(0), false, true, false))
	rejects(t, o, "a", &Desc{HasValue: true, Value: Num(nz)})
	rejects(t, o, "a", &Desc{HasValue: true, Value: Num(1)})
	rejects(t, o, "a", &Desc{HasWritable: true, Writable: true})
	rejects(t, o, "a", &Desc{HasConfigurable: true, Configurable: true})
	rejects(t, o, "a", &Desc{HasEnumerable: true, Enumerable: false})
	rejects(t, o, "a", &Desc{HasGet: true, Get: Undef()})
	mustDefine(t, o, "n", data(Num(math.NaN()), false, false, false))
	mustDefine(t, o, "n", &Desc{HasValue: true, Value: Num(math.NaN())})
	// writable true -> false is allowed on a non-configurable property, not back
	mustDefine(t, o, "w", data(Num(1), true, false, false))
	mustDefine(t, o, "w", &Desc{HasValue: true, Value: Num(2)})
	mustDefine(t, o, "w", &Desc{HasWritable: true, Writable: false})
	rejects(t, o, "w", &Desc{HasWritable: true, Writable: true})
	if o.RawProp("w").Value.N != 2 {
		t.Fatal("value lost")
	}
	// accessor: same getter accepted, other rejected
	g := w.NewFunction("g", nil)
	h := w.NewFunction("h", nil)
	mustDefine(t, o, "x", &Desc{HasGet: true, Get: ObjV(g)})
	mustDefine(t, o, "x", &Desc{HasGet: true, Get: ObjV(g)})
	mustDefine(t, o, "x", &Desc{HasSet: true, Set: Undef()})
	rejects(t, o, "x", &Desc{HasGet: true, Get: ObjV(h)})
	rejects(t, o, "x", &Desc{HasSet: true, Set: ObjV(h)})
	rejects(t, o, "x", &Desc{HasValue: true, Value: Num(1)})
}

func TestConversionKeepsFlagsAndPosition(t *testing.T) {
	w := NewWorld()
	o := w.NewObject()
	g := w.NewFunction("g", nil)
	mustDefine(t, o, "a", data(Num(1), true, true, true))
	mustDefine(t, o, "b", data(Num(2), true, false, true))
	mustDefine(t, o, "a", &Desc{HasGet: true, Get: ObjV(g)})
	p := o.RawProp("a")
	if !p.Accessor || !p.Enumerable || !p.Configurable || !p.Set.IsUndef() || p.Get.O != g {
		t.Fatalf("9b: %+v", p)
	}
	mustDefine(t, o, "a", &Desc{HasValue: true, Value: Num(3)})
	p = o.RawProp("a")
	if p.Accessor || p.Writable || !p.Enumerable || !p.Configurable || p.Value.N != 3 {
		t.Fatalf("9c: %+v", p)
	}
	if !reflect.DeepEqual(o.OwnNames(), []string{"a", "b"}) {
		t.Fatalf("order after redefinition: %v", o.OwnNames())
	}
	// only enumerable redefined: writable survives
	mustDefine(t, o, "b", &Desc{HasEnumerable: true, Enumerable: true})
	if p := o.RawProp("b"); !p.Writable || !p.Enumerable || p.Value.N != 2 {
		t.Fatalf("generic redefinition: %+v", p)
	}
	o.Delete("a", false)
	mustDefine(t, o, "a", data(Num(1), true, true, true))
	if !reflect.DeepEqual(o.OwnNames(), []string{"b", "a"}) {
		t.Fatalf("order after delete+add: %v", o.OwnNames())
	}
}

func TestPutChain(t *testing.T) {
	w := NewWorld()
	var got []Value
	s := w.NewFunction("s", func(w *World, this Value, args []Value) (Value, *Throw) {
		got = append(got, this, args[0])
		return Undef(), nil
	})
	proto := w.NewObject()
	mustDefine(t, proto, "ro", data(Num(1), false, true, true))
	mustDefine(t, proto, "acc", &Desc{HasSet: true, Set: ObjV(s), HasConfigurable: true, Configurable: true})
	mustDefine(t, proto, "noset", &Desc{HasGet: true, Get: Undef()})
	mustDefine(t, proto, "rw", data(Num(1), true, true, true))
	c, _ := w.Create(ObjV(proto), false, Undef())
	o := c.O
	// inherited read-only data property blocks [[Put]] (8.12.4 step 8b)
	if v, thr := w.Assign(o, "ro", Num(2)); thr != nil || v.N != 2 || o.HasOwnProperty("ro") {
		t.Fatal("inherited read-only")
	}
	if thr := w.Put(o, "ro", Num(2), true); thr == nil {
		t.Fatal("strict put must throw")
	}
	// inherited setter is called with the receiver as this
	w.Assign(o, "acc", Num(5))
	if len(got) != 2 || got[0].O != o || got[1].N != 5 || o.HasOwnProperty("acc") {
		t.Fatalf("inherited setter: %v", got)
	}
	if w.Assign(o, "noset", Num(1)); o.HasOwnProperty("noset") {
		t.Fatal("accessor without setter")
	}
	w.Assign(o, "rw", Num(9))
	if p := o.RawProp("rw"); p == nil || p.Value.N != 9 || !p.Writable || !p.Enumerable || !p.Configurable {
		t.Fatal("shadowing put")
	}
	if proto.RawProp("rw").Value.N != 1 {
		t.Fatal("prototype modified")
	}
	w.PreventExtensions(ObjV(o))
	if w.Assign(o, "new", Num(1)); o.HasOwnProperty("new") {
		t.Fatal("non-extensible gained a property")
	}
	w.Assign(o, "rw", Num(10))
	if o.RawProp("rw").Value.N != 10 {
		t.Fatal("existing own property stays writable on a non-extensible object")
	}
	w.Assign(o, "acc", Num(6))
	if len(got) != 4 {
		t.Fatal("inherited setter still runs on a non-extensible object")
	}
}

func descObj(w *World, kv ...interface{}) Value {
	o := w.NewObject()
	for i := 0; i < len(kv); i += 2 {
		o.defineSimple(kv[i].(string), kv[i+1].(Value))
	}
	return ObjV(o)
}

func TestToPropertyDescriptor(t *testing.T) {
	w := NewWorld()
	g := w.NewFunction("g", nil)
	for _, v := range []Value{Undef(), NullV(), Num(1), Str("s"), Bool(true)} {
		if _, thr := w.ToPropertyDescriptor(v); thr == nil {
			t.Fatal("non-object must throw")
		}
	}
	bad := []Value{
		descObj(w, "get", NullV()), descObj(w, "get", Num(1)), descObj(w, "set", ObjV(w.NewObject())),
		descObj(w, "get", ObjV(g), "value", Num(1)), descObj(w, "set", Undef(), "writable", Undef()),
		descObj(w, "get", Undef(), "value", Undef()),
	}
	for i, v := range bad {
		if _, thr := w.ToPropertyDescriptor(v); thr == nil || thr.Class != "TypeError" {
			t.Fatalf("bad[%d] must throw", i)
		}
	}
	d, thr := w.ToPropertyDescriptor(descObj(w, "get", Undef(), "enumerable", Num(1), "configurable", Str("")))
	if thr != nil || !d.HasGet || d.HasSet || !d.IsAccessor() || !d.Enumerable || d.Configurable || !d.HasConfigurable {
		t.Fatalf("get:undefined is an accessor descriptor: %+v", d)
	}
	d, _ = w.ToPropertyDescriptor(descObj(w, "value", Undef()))
	if !d.IsData() || d.HasWritable {
		t.Fatal("value:undefined is a data descriptor")
	}
	// inherited fields count ([[HasProperty]])
	p := descObj(w, "writable", Bool(true))
	c, _ := w.Create(p, false, Undef())
	d, _ = w.ToPropertyDescriptor(c)
	if !d.HasWritable || !d.Writable {
		t.Fatal("inherited descriptor field")
	}
}

func TestDefinePropertiesAtomicity(t *testing.T) {
	w := NewWorld()
	o := w.NewObject()
	props := w.NewObject()
	props.defineSimple("a", descObj(w, "value", Num(1)))
	props.defineSimple("b", descObj(w, "get", Num(1))) // ToPropertyDescriptor throws
	if _, thr := w.DefineProperties(ObjV(o), ObjV(props)); thr == nil {
		t.Fatal("must throw")
	}
	if o.HasOwnProperty("a") {
		t.Fatal("15.2.3.7: conversion error on the 2nd must leave the 1st undefined")
	}
	mustDefine(t, o, "b", data(Num(1), false, false, false))
	props2 := w.NewObject()
	props2.defineSimple("a", descObj(w, "value", Num(1)))
	props2.defineSimple("b", descObj(w, "value", Num(2))) // [[DefineOwnProperty]] rejects
	if _, thr := w.DefineProperties(ObjV(o), ObjV(props2)); thr == nil {
		t.Fatal("must throw")
	}
	if !o.HasOwnProperty("a") {
		t.Fatal("15.2.3.7: a rejection on the 2nd leaves the 1st defined")
	}
	if _, thr := w.DefineProperties(ObjV(o), Str("s")); thr == nil {
		t.Fatal("String wrapper has enumerable index properties whose values are not objects")
	}
	if _, thr := w.DefineProperties(ObjV(o), Num(1)); thr != nil {
		t.Fatal("Number wrapper has no own enumerable properties")
	}
	if _, thr := w.DefineProperties(ObjV(o), NullV()); thr == nil {
		t.Fatal("ToObject(null) throws")
	}
}

func TestFreezeSeal(t *testing.T) {
	w := NewWorld()
	g := w.NewFunction("g", nil)
	o := w.ObjectLiteral([]LiteralProp{{"a", "value", Num(1)}, {"b", "get", ObjV(g)}, {"b", "set", ObjV(g)}})
	if fr, _ := w.IsFrozen(ObjV(o)); fr {
		t.Fatal("fresh object is not frozen")
	}
	w.Seal(ObjV(o))
	se, _ := w.IsSealed(ObjV(o))
	fr, _ := w.IsFrozen(ObjV(o))
	if !se || fr || !o.RawProp("a").Writable {
		t.Fatal("seal")
	}
	if ok, _ := w.DeleteOp(o, "a"); ok {
		t.Fatal("delete of a sealed property yields false")
	}
	w.Freeze(ObjV(o))
	fr, _ = w.IsFrozen(ObjV(o))
	if !fr || o.RawProp("a").Writable || o.RawProp("b").Configurable || o.RawProp("b").Get.O != g {
		t.Fatal("freeze")
	}
	e := w.NewObject()
	w.PreventExtensions(ObjV(e))
	fr, _ = w.IsFrozen(ObjV(e))
	se, _ = w.IsSealed(ObjV(e))
	if !fr || !se {
		t.Fatal("empty non-extensible object is vacuously frozen and sealed")
	}
	// an accessor-only non-configurable, non-extensible object is frozen
	a := w.NewObject()
	mustDefine(t, a, "x", &Desc{HasGet: true, Get: ObjV(g)})
	w.PreventExtensions(ObjV(a))
	if fr, _ = w.IsFrozen(ObjV(a)); !fr {
		t.Fatal("15.2.3.12 ignores [[Writable]] of accessors")
	}
	for _, f := range []func(Value) (Value, *Throw){w.Freeze, w.Seal, w.PreventExtensions, w.GetPrototypeOf} {
		if _, thr := f(Num(1)); thr == nil {
			t.Fatal("15.2.3.x step 1: TypeError on a non-object")
		}
	}
}

func TestForIn(t *testing.T) {
	w := NewWorld()
	p := w.ObjectLiteral([]LiteralProp{{"a", "value", Num(1)}, {"b", "value", Num(1)}, {"c", "value", Num(1)}})
	cv, _ := w.Create(ObjV(p), false, Undef())
	o := cv.O
	w.Assign(o, "a", Num(2))                               // shadows enumerable
	mustDefine(t, o, "b", data(Num(1), true, false, true)) // non-enumerable shadows enumerable
	if got := w.ForInLevels(o); !reflect.DeepEqual(got, [][]string{{"a"}, {"c"}, nil}) {
		t.Fatalf("12.6.4: %v", got)
	}
	k, _ := w.Keys(ObjV(o))
	n, _ := w.GetOwnPropertyNames(ObjV(o))
	if !reflect.DeepEqual(k, []string{"a"}) || !reflect.DeepEqual(n, []string{"a", "b"}) {
		t.Fatalf("keys %v names %v", k, n)
	}
	if !w.In("c", o) || o.HasOwnProperty("c") || o.PropertyIsEnumerable("b") || !o.PropertyIsEnumerable("a") {
		t.Fatal("in / hasOwnProperty / propertyIsEnumerable")
	}
}

func TestConstructAndCreate(t *testing.T) {
	w := NewWorld()
	p := w.NewObject()
	mustDefine(t, p, "a", data(Num(1), false, true, true))
	o, thr := w.Construct(ObjV(p), []Assignment{{"a", Num(2)}, {"b", Num(3)}})
	if thr != nil || o.Proto != p || o.HasOwnProperty("a") || !o.HasOwnProperty("b") {
		t.Fatal("13.2.2 + 8.12.5")
	}
	o, _ = w.Construct(Num(1), nil)
	if o.Proto != w.ObjectPrototype {
		t.Fatal("13.2.2 step 7")
	}
	if _, thr := w.Create(Undef(), false, Undef()); thr == nil {
		t.Fatal("15.2.3.5 step 1")
	}
	c, _ := w.Create(NullV(), true, Undef())
	if c.O.Proto != nil {
		t.Fatal("create(null)")
	}
	if v, _ := w.GetPrototypeOf(c); v.Kind != Null {
		t.Fatal("getPrototypeOf")
	}
}

func TestClone(t *testing.T) {
	w := NewWorld()
	a := w.NewObject()
	b, _ := w.Create(ObjV(a), false, Undef())
	w.Assign(a, "x", b)
	w2, r := CloneWorld(w, []*Obj{a, b.O})
	if r[1].Proto != r[0] || r[0].RawProp("x").Value.O != r[1] || r[0].Proto != w2.ObjectPrototype || r[0] == a {
		t.Fatal("clone preserves sharing")
	}
	w2.Assign(r[0], "y", Num(1))
	if a.HasOwnProperty("y") {
		t.Fatal("clone is independent")
	}
}

// The deviation models must reproduce the recorded witnesses of the
// implementation under test and be inert when switched off.
func TestDeviationModels(t *testing.T) {
	w := NewWorld()
	w.Q = Quirks{ForInLiveOrder: true, ForInNoShadow: true}
	o := w.ObjectLiteral([]LiteralProp{{"a", "value", Num(1)}, {"b", "value", Num(1)}, {"c", "value", Num(1)}})
	if got := w.ForInDelete(o, o, "a"); !reflect.DeepEqual(got, []string{"a", "c", "c"}) {
		t.Fatalf("live-order walk: %v", got)
	}
	w = NewWorld()
	o = w.ObjectLiteral([]LiteralProp{{"a", "value", Num(1)}, {"b", "value", Num(1)}, {"c", "value", Num(1)}})
	if got := w.ForInDelete(o, o, "a"); !reflect.DeepEqual(got, []string{"a", "b", "c"}) {
		t.Fatalf("snapshot walk: %v", got)
	}
	w = NewWorld()
	w.Q = Quirks{GenericRedefClearsWritable: true}
	o = w.ObjectLiteral([]LiteralProp{{"a", "value", Num(1)}})
	mustDefine(t, o, "a", &Desc{HasEnumerable: true, Enumerable: true})
	if o.RawProp("a").Writable {
		t.Fatal("generic redefinition deviation")
	}
	w = NewWorld()
	w.Q = Quirks{WritableOnlyKeepsAccessor: true}
	g := w.NewFunction("g", nil)
	o = w.ObjectLiteral([]LiteralProp{{"a", "get", ObjV(g)}})
	mustDefine(t, o, "a", &Desc{HasWritable: true, Writable: true})
	func() {
		defer func() {
			if r := recover(); r == nil {
				t.Fatal("crash deviation")
			}
		}()
		w.GetOwnPropertyDescriptor(ObjV(o), "a")
	}()
	w = NewWorld()
	w.Q = Quirks{AccessorBothUndefinedIsGeneric: true, NamesOfPrimitive: true}
	o = w.NewObject()
	mustDefine(t, o, "a", &Desc{HasGet: true, Get: Undef()})
	d, _ := w.GetOwnPropertyDescriptor(ObjV(o), "a")
	if !reflect.DeepEqual(d.O.OwnNames(), []string{"enumerable", "configurable"}) {
		t.Fatal("generic rendering deviation")
	}
	if _, thr := w.GetOwnPropertyNames(Num(1)); thr != nil {
		t.Fatal("names of primitive deviation")
	}
}
