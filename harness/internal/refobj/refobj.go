// Package refobj is a standalone executable model of ES5.1 ordinary objects,
// written from the specification text (ECMA-262 5.1 edition): property
// descriptors (8.10), the internal methods of 8.12, the Object constructor
// functions of 15.2.3, Object.prototype.hasOwnProperty / propertyIsEnumerable
// (15.2.4.5 / 15.2.4.7), the delete and in operators, simple assignment in
// non-strict code, object initialisers (11.1.5), [[Construct]] of a trivial
// constructor (13.2.2) and the for-in enumeration set (12.6.4).
//
// It imports nothing from otto.  Clause numbers in comments refer to ES5.1.
//
// One assumption goes beyond ES5.1 and is stated here once: the order of own
// properties (Object.keys, Object.getOwnPropertyNames, for-in within one
// object, and the order in which Object.defineProperties / Object.create walk
// their Properties argument) is creation order; redefining an existing
// property keeps its position, deleting and re-adding a property moves it to
// the end.  ES5.1 leaves that order implementation-defined; otto documents
// insertion order and the monitored property (C07) names it explicitly.
package refobj

import "math"

// Kind is the ES5 type of a Value (8.1-8.6).
type Kind uint8

const (
	Undefined Kind = iota
	Null
	Boolean
	Number
	String
	Object
)

// Value is an ECMAScript language value.
type Value struct {
	Kind Kind
	B    bool
	N    float64
	S    string
	O    *Obj
}

// Constructors for values.
func Undef() Value            { return Value{} }
func NullV() Value            { return Value{Kind: Null} }
func Bool(b bool) Value       { return Value{Kind: Boolean, B: b} }
func Num(n float64) Value     { return Value{Kind: Number, N: n} }
func Str(s string) Value      { return Value{Kind: String, S: s} }
func ObjV(o *Obj) Value       { return Value{Kind: Object, O: o} }
func (v Value) IsUndef() bool { return v.Kind == Undefined }

// IsCallable is 9.11.
func (v Value) IsCallable() bool { return v.Kind == Object && v.O.Fn != nil }

// ToBoolean is 9.2.
func ToBoolean(v Value) bool {
	switch v.Kind {
	case Undefined, Null:
		return false
	case Boolean:
		return v.B
	case Number:
		return !(v.N == 0 || v.N != v.N)
	case String:
		return len(v.S) != 0
	}
	return true
}

// SameValue is 9.12.
func SameValue(x, y Value) bool {
	if x.Kind != y.Kind {
		return false
	}
	switch x.Kind {
	case Undefined, Null:
		return true
	case Number:
		if x.N != x.N && y.N != y.N {
			return true
		}
		if x.N == 0 && y.N == 0 {
			return math.Signbit(x.N) == math.Signbit(y.N)
		}
		return x.N == y.N
	case String:
		return x.S == y.S
	case Boolean:
		return x.B == y.B
	}
	return x.O == y.O
}

// Throw is an abrupt completion carrying a native error object; only the
// error class is modelled.
type Throw struct {
	Class string
	Msg   string
}

func (t *Throw) Error() string { return t.Class + ": " + t.Msg }

func typeError(msg string) *Throw { return &Throw{Class: "TypeError", Msg: msg} }

// Func is the modelled behaviour of a function object.
type Func struct {
	Name string
	Body func(w *World, this Value, args []Value) (Value, *Throw)
}

// Call is one recorded invocation of a modelled function.
type Call struct {
	Fn   string
	This Value
	Args []Value
	// ThisTag is the label the this object carried when the call happened (an
	// object under construction is not yet known to an observer).
	ThisTag string
}

// Prop is a named property (8.6.1): data or accessor, with its attributes.
type Prop struct {
	Accessor     bool
	Value        Value // data
	Get, Set     Value // accessor; Undefined or a callable object
	Writable     bool  // data
	Enumerable   bool
	Configurable bool
	// Broken is never set by the specification paths; see
	// Quirks.WritableOnlyKeepsAccessor.
	Broken bool
}

// Obj is an ordinary native object (8.6.2): [[Prototype]], [[Extensible]],
// its own properties in creation order, and [[Call]] for function objects.
type Obj struct {
	Proto      *Obj
	Extensible bool
	Fn         *Func
	Tag        string // label for rendering; never consulted by the model
	props      map[string]*Prop
	order      []string
	w          *World
}

// Desc is the Property Descriptor specification type (8.10): every field may
// be present or absent.
type Desc struct {
	HasValue, HasWritable, HasGet, HasSet, HasEnumerable, HasConfigurable bool
	Value, Get, Set                                                       Value
	Writable, Enumerable, Configurable                                    bool
	broken                                                                bool
}

// IsAccessor is 8.10.1.
func (d *Desc) IsAccessor() bool { return d != nil && (d.HasGet || d.HasSet) }

// IsData is 8.10.2.
func (d *Desc) IsData() bool { return d != nil && (d.HasValue || d.HasWritable) }

// IsGeneric is 8.10.3.
func (d *Desc) IsGeneric() bool { return d != nil && !d.IsAccessor() && !d.IsData() }

// World holds the realm-level state of the model: %ObjectPrototype%, the call
// log of modelled functions and the slot setter S1 writes / getter G2 reads.
type World struct {
	ObjectPrototype *Obj
	Log             []Call
	Slot            Value
	Q               Quirks
	// Notes counts which specification steps were exercised (evidence only).
	Notes map[string]int
	// NotesOff suspends counting (helper objects, observations).
	NotesOff bool
}

func (o *Obj) note(s string) {
	if o.w != nil {
		o.w.note(s)
	}
}

func (w *World) note(s string) {
	if w.Notes != nil && !w.NotesOff {
		w.Notes[s]++
	}
}

// Quirks switches on deviation models: each flag reproduces one known,
// recorded deviation of the implementation under test from ES5.1 so that a
// finding matcher can ask "is this disagreement exactly what defect X
// yields?".  The zero value is the specification.
type Quirks struct {
	// ForInNoShadow: for-in walks every object of the prototype chain and
	// visits each of its enumerable own properties, without the 12.6.4
	// shadowing rule.
	ForInNoShadow bool
	// DefinePropertiesEager: Object.defineProperties / Object.create convert
	// and define one property at a time instead of converting all descriptors
	// first (15.2.3.7 steps 5-6).
	DefinePropertiesEager bool
	// AccessorBothUndefinedIsGeneric: FromPropertyDescriptor on an accessor
	// property whose [[Get]] and [[Set]] are both undefined omits the get/set
	// fields (8.10.4 step 4).
	AccessorBothUndefinedIsGeneric bool
	// NamesOfPrimitive: Object.getOwnPropertyNames(non-object) returns an
	// empty array instead of throwing (15.2.3.4 step 1).
	NamesOfPrimitive bool
	// GenericRedefClearsWritable: [[DefineOwnProperty]] with a non-empty
	// generic descriptor (only enumerable and/or configurable) on an existing
	// data property sets [[Writable]] to false, and step 6 does not exist.
	GenericRedefClearsWritable bool
	// WritableOnlyKeepsAccessor: converting an accessor property with a data
	// descriptor that has no value field ({writable: x}) keeps the getter /
	// setter pair under data-property attribute bits (8.12.9 step 9c demands
	// a data property with value undefined); FromPropertyDescriptor then
	// crashes the host (modelled as Throw{Class: "GoPanic"}).
	WritableOnlyKeepsAccessor bool
	// ForInLiveOrder: for-in walks the live own-property order list of each
	// object by index; a deletion during the loop shifts the list under the
	// walk, so a not-yet-visited property is skipped and the last one is
	// visited twice.
	ForInLiveOrder bool
}

// All returns every deviation model switched on.
func AllQuirks() Quirks {
	return Quirks{true, true, true, true, true, true, true}
}

// NewWorld creates a realm with an empty-for-our-purposes Object.prototype
// (its real properties are all non-enumerable and none is named like the
// workload's property names; stated as an assumption of the check).
func NewWorld() *World {
	w := &World{Notes: map[string]int{}}
	w.ObjectPrototype = &Obj{Extensible: true, Tag: "OP", props: map[string]*Prop{}, w: w}
	return w
}

// NewObject is "new Object()" (15.2.2.1).
func (w *World) NewObject() *Obj {
	return &Obj{Proto: w.ObjectPrototype, Extensible: true, props: map[string]*Prop{}, w: w}
}

// NewFunction makes a callable object with the given modelled body.
func (w *World) NewFunction(name string, body func(w *World, this Value, args []Value) (Value, *Throw)) *Obj {
	o := w.NewObject()
	o.Fn = &Func{Name: name, Body: body}
	o.Tag = name
	return o
}

// CallFn is [[Call]] of a modelled function; the invocation is logged.
func (w *World) CallFn(f *Obj, this Value, args []Value) (Value, *Throw) {
	c := Call{Fn: f.Fn.Name, This: this, Args: append([]Value(nil), args...)}
	if this.Kind == Object {
		c.ThisTag = this.O.Tag
	}
	w.Log = append(w.Log, c)
	if f.Fn.Body == nil {
		return Undef(), nil
	}
	return f.Fn.Body(w, this, args)
}

// OwnNames lists own property names in creation order.
func (o *Obj) OwnNames() []string { return append([]string(nil), o.order...) }

// RawProp exposes the stored property (for tests and structural checks).
func (o *Obj) RawProp(name string) *Prop { return o.props[name] }

func (o *Obj) setProp(name string, p *Prop) {
	if _, ok := o.props[name]; !ok {
		o.order = append(o.order, name)
	}
	o.props[name] = p
}

func (o *Obj) removeProp(name string) {
	if _, ok := o.props[name]; !ok {
		return
	}
	delete(o.props, name)
	for i, n := range o.order {
		if n == name {
			// in place, like a Go slice delete: a snapshot of the slice header
			// taken before the call keeps its length and sees the shifted
			// elements (used by the ForInLiveOrder deviation model only)
			o.order = append(o.order[:i], o.order[i+1:]...)
			break
		}
	}
}

// Clone deep-copies a set of objects reachable from roots, preserving
// sharing; used to evaluate a step under a deviation model without touching
// the main model state.
func CloneWorld(w *World, roots []*Obj) (*World, []*Obj) {
	m := map[*Obj]*Obj{}
	w2 := &World{Q: w.Q, Log: append([]Call(nil), w.Log...), Notes: map[string]int{}}
	var cp func(o *Obj) *Obj
	cpv := func(v Value) Value {
		if v.Kind == Object {
			v.O = cp(v.O)
		}
		return v
	}
	cp = func(o *Obj) *Obj {
		if o == nil {
			return nil
		}
		if n, ok := m[o]; ok {
			return n
		}
		n := &Obj{Extensible: o.Extensible, Fn: o.Fn, Tag: o.Tag, props: map[string]*Prop{}, order: append([]string(nil), o.order...), w: w2}
		m[o] = n
		n.Proto = cp(o.Proto)
		for k, p := range o.props {
			q := *p
			q.Value, q.Get, q.Set = cpv(p.Value), cpv(p.Get), cpv(p.Set)
			n.props[k] = &q
		}
		return n
	}
	w2.ObjectPrototype = cp(w.ObjectPrototype)
	w2.Slot = cpv(w.Slot)
	out := make([]*Obj, len(roots))
	for i, r := range roots {
		out[i] = cp(r)
	}
	return w2, out
}

// ---------------------------------------------------------------- 8.12

func propToDesc(p *Prop) *Desc {
	if p == nil {
		return nil
	}
	if p.Accessor {
		return &Desc{HasGet: true, Get: p.Get, HasSet: true, Set: p.Set,
			HasEnumerable: true, Enumerable: p.Enumerable, HasConfigurable: true, Configurable: p.Configurable, broken: p.Broken}
	}
	return &Desc{HasValue: true, Value: p.Value, HasWritable: true, Writable: p.Writable,
		HasEnumerable: true, Enumerable: p.Enumerable, HasConfigurable: true, Configurable: p.Configurable}
}

// GetOwnProperty is 8.12.1: a fully populated descriptor or nil (undefined).
func (o *Obj) GetOwnProperty(name string) *Desc { return propToDesc(o.props[name]) }

// GetProperty is 8.12.2.
func (o *Obj) GetProperty(name string) *Desc {
	if d := o.GetOwnProperty(name); d != nil {
		return d
	}
	if o.Proto == nil {
		return nil
	}
	return o.Proto.GetProperty(name)
}

// Get is 8.12.3.
func (w *World) Get(o *Obj, name string) (Value, *Throw) {
	desc := o.GetProperty(name)
	if desc == nil {
		return Undef(), nil
	}
	if desc.IsData() {
		return desc.Value, nil
	}
	getter := desc.Get
	if getter.IsUndef() {
		return Undef(), nil
	}
	return w.CallFn(getter.O, ObjV(o), nil)
}

// CanPut is 8.12.4.
func (o *Obj) CanPut(name string) bool {
	r, why := o.canPut(name)
	o.note("8.12.4 " + why + boolWord(r))
	return r
}

func boolWord(b bool) string {
	if b {
		return ": true"
	}
	return ": false"
}

func (o *Obj) canPut(name string) (bool, string) {
	desc := o.GetOwnProperty(name)
	if desc != nil {
		if desc.IsAccessor() {
			return !desc.Set.IsUndef(), "2a own accessor"
		}
		return desc.Writable, "2b own data"
	}
	proto := o.Proto
	if proto == nil {
		return o.Extensible, "4 no prototype, extensible"
	}
	inherited := proto.GetProperty(name)
	if inherited == nil {
		return o.Extensible, "6 not inherited, extensible"
	}
	if inherited.IsAccessor() {
		return !inherited.Set.IsUndef(), "7 inherited accessor"
	}
	if !o.Extensible {
		return false, "8a inherited data, not extensible"
	}
	return inherited.Writable, "8b inherited data, writable"
}

// Put is 8.12.5.
func (w *World) Put(o *Obj, name string, v Value, throw bool) *Throw {
	if !o.CanPut(name) {
		if throw {
			return typeError("[[Put]] rejected")
		}
		return nil
	}
	ownDesc := o.GetOwnProperty(name)
	if ownDesc.IsData() {
		valueDesc := &Desc{HasValue: true, Value: v}
		_, t := o.DefineOwnProperty(name, valueDesc, throw)
		return t
	}
	desc := o.GetProperty(name)
	if desc.IsAccessor() {
		setter := desc.Set
		_, t := w.CallFn(setter.O, ObjV(o), []Value{v})
		return t
	}
	newDesc := &Desc{HasValue: true, Value: v, HasWritable: true, Writable: true,
		HasEnumerable: true, Enumerable: true, HasConfigurable: true, Configurable: true}
	_, t := o.DefineOwnProperty(name, newDesc, throw)
	return t
}

// HasProperty is 8.12.6.
func (o *Obj) HasProperty(name string) bool { return o.GetProperty(name) != nil }

// Delete is 8.12.7.
func (o *Obj) Delete(name string, throw bool) (bool, *Throw) {
	desc := o.GetOwnProperty(name)
	if desc == nil {
		return true, nil
	}
	if desc.Configurable {
		o.note("8.12.7 delete configurable")
		o.removeProp(name)
		return true, nil
	}
	o.note("8.12.7 delete non-configurable refused")
	if throw {
		return false, typeError("[[Delete]] of a non-configurable property")
	}
	return false, nil
}

// DefineOwnProperty is 8.12.9, step by step.
func (o *Obj) DefineOwnProperty(name string, desc *Desc, throw bool) (bool, *Throw) {
	reject := func(why string) (bool, *Throw) {
		o.note("8.12.9 reject " + why)
		if throw {
			return false, typeError("[[DefineOwnProperty]] " + why)
		}
		return false, nil
	}
	// 1-2
	current := o.GetOwnProperty(name)
	extensible := o.Extensible
	// 3
	if current == nil && !extensible {
		return reject("object is not extensible")
	}
	// 4
	if current == nil && extensible {
		p := &Prop{}
		if desc.IsGeneric() || desc.IsData() {
			// 4a: absent fields take the default values of 8.6.1 table 7
			p.Value = Undef()
			if desc.HasValue {
				p.Value = desc.Value
			}
			p.Writable = desc.HasWritable && desc.Writable
			o.note("8.12.9 4a create data")
		} else {
			// 4b
			o.note("8.12.9 4b create accessor")
			p.Accessor = true
			p.Get, p.Set = Undef(), Undef()
			if desc.HasGet {
				p.Get = desc.Get
			}
			if desc.HasSet {
				p.Set = desc.Set
			}
		}
		p.Enumerable = desc.HasEnumerable && desc.Enumerable
		p.Configurable = desc.HasConfigurable && desc.Configurable
		o.setProp(name, p)
		return true, nil
	}
	// 5
	if !desc.HasValue && !desc.HasWritable && !desc.HasGet && !desc.HasSet && !desc.HasEnumerable && !desc.HasConfigurable {
		o.note("8.12.9 5 empty descriptor")
		return true, nil
	}
	q := Quirks{}
	if o.w != nil {
		q = o.w.Q
	}
	// 6
	same := true
	if desc.HasValue && !(current.HasValue && SameValue(desc.Value, current.Value)) {
		same = false
	}
	if desc.HasWritable && !(current.HasWritable && desc.Writable == current.Writable) {
		same = false
	}
	if desc.HasGet && !(current.HasGet && SameValue(desc.Get, current.Get)) {
		same = false
	}
	if desc.HasSet && !(current.HasSet && SameValue(desc.Set, current.Set)) {
		same = false
	}
	if desc.HasEnumerable && desc.Enumerable != current.Enumerable {
		same = false
	}
	if desc.HasConfigurable && desc.Configurable != current.Configurable {
		same = false
	}
	if same && q.GenericRedefClearsWritable && desc.IsGeneric() && current.IsData() {
		same = false // the implementation has no step 6 and falls through to the attribute merge
	}
	if same {
		o.note("8.12.9 6 same descriptor")
		return true, nil
	}
	// 7
	if !current.Configurable {
		if desc.HasConfigurable && desc.Configurable {
			return reject("7a: configurable false -> true")
		}
		if desc.HasEnumerable && desc.Enumerable != current.Enumerable {
			return reject("7b: enumerable change on non-configurable")
		}
	}
	p := o.props[name]
	switch {
	case desc.IsGeneric():
		// 8: no further validation
		o.note("8.12.9 8 generic redefinition")
	case current.IsData() != desc.IsData():
		// 9
		if !current.Configurable {
			return reject("9a: data<->accessor on non-configurable")
		}
		if !current.IsData() && q.WritableOnlyKeepsAccessor && !desc.HasValue {
			// deviation model: the stored getter/setter pair survives under
			// data-property attribute bits; reading its descriptor crashes
			o.note("quirk: accessor kept under data attributes")
			p.Broken = true
			if desc.HasEnumerable {
				p.Enumerable = desc.Enumerable
			}
			if desc.HasConfigurable {
				p.Configurable = desc.Configurable
			}
			return true, nil
		}
		if current.IsData() {
			// 9b: keep [[Configurable]] and [[Enumerable]], rest defaults
			o.note("8.12.9 9b data->accessor")
			*p = Prop{Accessor: true, Get: Undef(), Set: Undef(), Enumerable: p.Enumerable, Configurable: p.Configurable}
		} else {
			// 9c
			o.note("8.12.9 9c accessor->data")
			*p = Prop{Accessor: false, Value: Undef(), Writable: false, Enumerable: p.Enumerable, Configurable: p.Configurable}
		}
	case current.IsData() && desc.IsData():
		// 10
		if current.Configurable {
			o.note("8.12.9 10b data redefinition, configurable")
		} else {
			o.note("8.12.9 10a data redefinition, non-configurable")
		}
		if !current.Configurable {
			if !current.Writable && desc.HasWritable && desc.Writable {
				return reject("10.a.i: writable false -> true")
			}
			if !current.Writable {
				if desc.HasValue && !SameValue(desc.Value, current.Value) {
					return reject("10.a.ii.1: value change on read-only")
				}
			}
		}
	default:
		// 11
		if current.Configurable {
			o.note("8.12.9 11b accessor redefinition, configurable")
		} else {
			o.note("8.12.9 11a accessor redefinition, non-configurable")
		}
		if !current.Configurable {
			if desc.HasSet && !SameValue(desc.Set, current.Set) {
				return reject("11.a.i: setter change")
			}
			if desc.HasGet && !SameValue(desc.Get, current.Get) {
				return reject("11.a.ii: getter change")
			}
		}
	}
	// 12
	if desc.HasValue {
		p.Value = desc.Value
	}
	if desc.HasWritable {
		p.Writable = desc.Writable
	}
	if desc.HasGet {
		p.Get = desc.Get
	}
	if desc.HasSet {
		p.Set = desc.Set
	}
	if desc.HasEnumerable {
		p.Enumerable = desc.Enumerable
	}
	if desc.HasConfigurable {
		p.Configurable = desc.Configurable
	}
	if q.GenericRedefClearsWritable && desc.IsGeneric() && !p.Accessor {
		// deviation model: a descriptor without value/writable/get/set applied
		// to an existing data property resets [[Writable]] to false
		if p.Writable {
			o.note("quirk: writable cleared by generic redefinition")
		}
		p.Writable = false
	}
	// 13
	return true, nil
}

// ---------------------------------------------------------------- 8.10.4-5

func (o *Obj) defineSimple(name string, v Value) {
	o.DefineOwnProperty(name, &Desc{HasValue: true, Value: v, HasWritable: true, Writable: true,
		HasEnumerable: true, Enumerable: true, HasConfigurable: true, Configurable: true}, false)
}

// FromPropertyDescriptor is 8.10.4 (nil -> undefined).
func (w *World) FromPropertyDescriptor(d *Desc) Value {
	if d == nil {
		return Undef()
	}
	if d.broken {
		panic(&Throw{Class: "GoPanic", Msg: "interface conversion in fromPropertyDescriptor"})
	}
	obj := w.NewObject()
	if d.IsData() {
		obj.defineSimple("value", d.Value)
		obj.defineSimple("writable", Bool(d.Writable))
	} else {
		if !(w.Q.AccessorBothUndefinedIsGeneric && d.Get.IsUndef() && d.Set.IsUndef()) {
			obj.defineSimple("get", d.Get)
			obj.defineSimple("set", d.Set)
		}
	}
	obj.defineSimple("enumerable", Bool(d.Enumerable))
	obj.defineSimple("configurable", Bool(d.Configurable))
	return ObjV(obj)
}

// ToPropertyDescriptor is 8.10.5.
func (w *World) ToPropertyDescriptor(v Value) (*Desc, *Throw) {
	if v.Kind != Object {
		w.note("8.10.5 1 not an object")
		return nil, typeError("ToPropertyDescriptor of a non-object")
	}
	obj := v.O
	desc := &Desc{}
	if obj.HasProperty("enumerable") {
		x, t := w.Get(obj, "enumerable")
		if t != nil {
			return nil, t
		}
		desc.HasEnumerable, desc.Enumerable = true, ToBoolean(x)
	}
	if obj.HasProperty("configurable") {
		x, t := w.Get(obj, "configurable")
		if t != nil {
			return nil, t
		}
		desc.HasConfigurable, desc.Configurable = true, ToBoolean(x)
	}
	if obj.HasProperty("value") {
		x, t := w.Get(obj, "value")
		if t != nil {
			return nil, t
		}
		desc.HasValue, desc.Value = true, x
	}
	if obj.HasProperty("writable") {
		x, t := w.Get(obj, "writable")
		if t != nil {
			return nil, t
		}
		desc.HasWritable, desc.Writable = true, ToBoolean(x)
	}
	if obj.HasProperty("get") {
		getter, t := w.Get(obj, "get")
		if t != nil {
			return nil, t
		}
		if !getter.IsCallable() && !getter.IsUndef() {
			w.note("8.10.5 7b getter not callable")
			return nil, typeError("getter is neither callable nor undefined")
		}
		desc.HasGet, desc.Get = true, getter
	}
	if obj.HasProperty("set") {
		setter, t := w.Get(obj, "set")
		if t != nil {
			return nil, t
		}
		if !setter.IsCallable() && !setter.IsUndef() {
			w.note("8.10.5 8b setter not callable")
			return nil, typeError("setter is neither callable nor undefined")
		}
		desc.HasSet, desc.Set = true, setter
	}
	if desc.HasGet || desc.HasSet {
		if desc.HasValue || desc.HasWritable {
			w.note("8.10.5 9 accessor and data fields mixed")
			return nil, typeError("descriptor mixes accessor and data fields")
		}
	}
	return desc, nil
}

// ---------------------------------------------------------------- 9.9, 15.5.5

// ToObject is 9.9. Primitive wrappers are modelled only as far as their own
// properties matter to 15.2.3.7: a String object exposes its characters as
// enumerable read-only index properties plus a non-enumerable length.
func (w *World) ToObject(v Value) (*Obj, *Throw) {
	switch v.Kind {
	case Undefined, Null:
		return nil, typeError("ToObject of undefined or null")
	case Object:
		return v.O, nil
	case String:
		o := w.NewObject()
		o.Tag = "String"
		i := 0
		for _, r := range v.S {
			o.setProp(itoa(i), &Prop{Value: Str(string(r)), Enumerable: true})
			i++
		}
		o.setProp("length", &Prop{Value: Num(float64(i))})
		return o, nil
	}
	o := w.NewObject()
	o.Tag = "wrapper"
	return o, nil
}

func itoa(i int) string {
	if i == 0 {
		return "0"
	}
	s := ""
	for i > 0 {
		s = string(rune('0'+i%10)) + s
		i /= 10
	}
	return s
}

// ---------------------------------------------------------------- 15.2.3

func needObject(v Value, fn string) (*Obj, *Throw) {
	if v.Kind != Object {
		return nil, typeError(fn + " called on a non-object")
	}
	return v.O, nil
}

// GetPrototypeOf is 15.2.3.2.
func (w *World) GetPrototypeOf(v Value) (Value, *Throw) {
	o, t := needObject(v, "Object.getPrototypeOf")
	if t != nil {
		return Undef(), t
	}
	if o.Proto == nil {
		return NullV(), nil
	}
	return ObjV(o.Proto), nil
}

// GetOwnPropertyDescriptor is 15.2.3.3.
func (w *World) GetOwnPropertyDescriptor(v Value, name string) (Value, *Throw) {
	o, t := needObject(v, "Object.getOwnPropertyDescriptor")
	if t != nil {
		return Undef(), t
	}
	return w.FromPropertyDescriptor(o.GetOwnProperty(name)), nil
}

// GetOwnPropertyNames is 15.2.3.4 (as a Go slice instead of an Array).
func (w *World) GetOwnPropertyNames(v Value) ([]string, *Throw) {
	if v.Kind != Object && w.Q.NamesOfPrimitive {
		return nil, nil
	}
	o, t := needObject(v, "Object.getOwnPropertyNames")
	if t != nil {
		return nil, t
	}
	return o.OwnNames(), nil
}

// Create is 15.2.3.5.
func (w *World) Create(proto Value, hasProps bool, props Value) (Value, *Throw) {
	if proto.Kind != Object && proto.Kind != Null {
		return Undef(), typeError("Object.create: prototype is neither an object nor null")
	}
	obj := w.NewObject()
	if proto.Kind == Null {
		obj.Proto = nil
	} else {
		obj.Proto = proto.O
	}
	if hasProps && !props.IsUndef() {
		if _, t := w.DefineProperties(ObjV(obj), props); t != nil {
			return Undef(), t
		}
	}
	return ObjV(obj), nil
}

// DefineProperty is 15.2.3.6.
func (w *World) DefineProperty(v Value, name string, attributes Value) (Value, *Throw) {
	o, t := needObject(v, "Object.defineProperty")
	if t != nil {
		return Undef(), t
	}
	desc, t := w.ToPropertyDescriptor(attributes)
	if t != nil {
		return Undef(), t
	}
	if _, t := o.DefineOwnProperty(name, desc, true); t != nil {
		return Undef(), t
	}
	return v, nil
}

// DefineProperties is 15.2.3.7: every descriptor is converted before the
// first property is defined.
func (w *World) DefineProperties(v Value, properties Value) (Value, *Throw) {
	o, t := needObject(v, "Object.defineProperties")
	if t != nil {
		return Undef(), t
	}
	props, t := w.ToObject(properties)
	if t != nil {
		return Undef(), t
	}
	type pair struct {
		name string
		desc *Desc
	}
	var names []string
	for _, n := range props.order {
		if props.props[n].Enumerable {
			names = append(names, n)
		}
	}
	var descriptors []pair
	for _, p := range names {
		descObj, t := w.Get(props, p)
		if t != nil {
			return Undef(), t
		}
		desc, t := w.ToPropertyDescriptor(descObj)
		if t != nil {
			return Undef(), t
		}
		if w.Q.DefinePropertiesEager {
			if _, t := o.DefineOwnProperty(p, desc, true); t != nil {
				return Undef(), t
			}
			continue
		}
		descriptors = append(descriptors, pair{p, desc})
	}
	for _, pr := range descriptors {
		if _, t := o.DefineOwnProperty(pr.name, pr.desc, true); t != nil {
			return Undef(), t
		}
	}
	return v, nil
}

// Seal is 15.2.3.8.
func (w *World) Seal(v Value) (Value, *Throw) {
	o, t := needObject(v, "Object.seal")
	if t != nil {
		return Undef(), t
	}
	for _, p := range o.OwnNames() {
		desc := o.GetOwnProperty(p)
		if desc.Configurable {
			desc.Configurable = false
		}
		if _, t := o.DefineOwnProperty(p, desc, true); t != nil {
			return Undef(), t
		}
	}
	o.Extensible = false
	return v, nil
}

// Freeze is 15.2.3.9.
func (w *World) Freeze(v Value) (Value, *Throw) {
	o, t := needObject(v, "Object.freeze")
	if t != nil {
		return Undef(), t
	}
	for _, p := range o.OwnNames() {
		desc := o.GetOwnProperty(p)
		if desc.IsData() {
			if desc.Writable {
				desc.Writable = false
			}
		}
		if desc.Configurable {
			desc.Configurable = false
		}
		if _, t := o.DefineOwnProperty(p, desc, true); t != nil {
			return Undef(), t
		}
	}
	o.Extensible = false
	return v, nil
}

// PreventExtensions is 15.2.3.10.
func (w *World) PreventExtensions(v Value) (Value, *Throw) {
	o, t := needObject(v, "Object.preventExtensions")
	if t != nil {
		return Undef(), t
	}
	o.Extensible = false
	return v, nil
}

// IsSealed is 15.2.3.11.
func (w *World) IsSealed(v Value) (bool, *Throw) {
	o, t := needObject(v, "Object.isSealed")
	if t != nil {
		return false, t
	}
	for _, p := range o.order {
		if o.GetOwnProperty(p).Configurable {
			return false, nil
		}
	}
	return !o.Extensible, nil
}

// IsFrozen is 15.2.3.12.
func (w *World) IsFrozen(v Value) (bool, *Throw) {
	o, t := needObject(v, "Object.isFrozen")
	if t != nil {
		return false, t
	}
	for _, p := range o.order {
		desc := o.GetOwnProperty(p)
		if desc.IsData() && desc.Writable {
			return false, nil
		}
		if desc.Configurable {
			return false, nil
		}
	}
	return !o.Extensible, nil
}

// IsExtensible is 15.2.3.13.
func (w *World) IsExtensible(v Value) (bool, *Throw) {
	o, t := needObject(v, "Object.isExtensible")
	if t != nil {
		return false, t
	}
	return o.Extensible, nil
}

// Keys is 15.2.3.14.
func (w *World) Keys(v Value) ([]string, *Throw) {
	o, t := needObject(v, "Object.keys")
	if t != nil {
		return nil, t
	}
	var out []string
	for _, p := range o.order {
		if o.props[p].Enumerable {
			out = append(out, p)
		}
	}
	return out, nil
}

// HasOwnProperty is 15.2.4.5 with an object this value.
func (o *Obj) HasOwnProperty(name string) bool { return o.GetOwnProperty(name) != nil }

// PropertyIsEnumerable is 15.2.4.7 with an object this value.
func (o *Obj) PropertyIsEnumerable(name string) bool {
	desc := o.GetOwnProperty(name)
	if desc == nil {
		return false
	}
	return desc.Enumerable
}

// ---------------------------------------------------------------- operators

// Assign is 11.13.1 for a property reference in non-strict code: PutValue
// (8.7.2) with Throw=false; the expression evaluates to the right-hand value.
func (w *World) Assign(o *Obj, name string, v Value) (Value, *Throw) {
	if t := w.Put(o, name, v, false); t != nil {
		return Undef(), t
	}
	return v, nil
}

// DeleteOp is 11.4.1 for a property reference in non-strict code.
func (w *World) DeleteOp(o *Obj, name string) (bool, *Throw) { return o.Delete(name, false) }

// In is 11.8.7 with an object right operand.
func (w *World) In(name string, o *Obj) bool { return o.HasProperty(name) }

// LiteralProp is one PropertyAssignment of an object initialiser (11.1.5).
type LiteralProp struct {
	Name string
	Kind string // "value" | "get" | "set"
	V    Value  // the value, or the getter / setter function object
}

// ObjectLiteral is 11.1.5: each PropertyAssignment is a [[DefineOwnProperty]]
// with Throw=false on a fresh object.
func (w *World) ObjectLiteral(props []LiteralProp) *Obj {
	obj := w.NewObject()
	for _, p := range props {
		var d *Desc
		switch p.Kind {
		case "get":
			d = &Desc{HasGet: true, Get: p.V, HasEnumerable: true, Enumerable: true, HasConfigurable: true, Configurable: true}
		case "set":
			d = &Desc{HasSet: true, Set: p.V, HasEnumerable: true, Enumerable: true, HasConfigurable: true, Configurable: true}
		default:
			d = &Desc{HasValue: true, Value: p.V, HasWritable: true, Writable: true, HasEnumerable: true, Enumerable: true, HasConfigurable: true, Configurable: true}
		}
		obj.DefineOwnProperty(p.Name, d, false)
	}
	return obj
}

// Assignment is one "this.name = v" statement of a modelled constructor body.
type Assignment struct {
	Name string
	V    Value
}

// Construct is 13.2.2 for "function C(){ this.n = v; ... }" whose
// "prototype" property currently holds protoProp (13.2.2 steps 5-7: a
// non-object falls back to Object.prototype).
func (w *World) Construct(protoProp Value, body []Assignment) (*Obj, *Throw) {
	obj := w.NewObject()
	if protoProp.Kind == Object {
		obj.Proto = protoProp.O
	} else {
		obj.Proto = w.ObjectPrototype
	}
	for _, a := range body {
		if _, t := w.Assign(obj, a.Name, a.V); t != nil {
			return nil, t
		}
	}
	return obj, nil
}

// DefaultFunctionPrototype is the object 13.2 step 16-18 creates for a new
// function: a fresh object with a non-enumerable "constructor".
func (w *World) DefaultFunctionPrototype(fn *Obj) *Obj {
	p := w.NewObject()
	p.Tag = "obj?"
	p.DefineOwnProperty("constructor", &Desc{HasValue: true, Value: ObjV(fn), HasWritable: true, Writable: true,
		HasEnumerable: true, Enumerable: false, HasConfigurable: true, Configurable: true}, false)
	return p
}

// ForInLevels is the 12.6.4 enumeration set, grouped by the object of the
// prototype chain that holds the visible property: a property is enumerated
// when it is enumerable and no earlier object of the chain has a property of
// the same name (enumerable or not).  Within one object names are in creation
// order (assumption stated in the package comment); no order is implied
// between levels.
func (w *World) ForInLevels(o *Obj) [][]string {
	seen := map[string]bool{}
	var out [][]string
	for cur := o; cur != nil; cur = cur.Proto {
		var lvl []string
		for _, n := range cur.order {
			if seen[n] && !w.Q.ForInNoShadow {
				continue
			}
			seen[n] = true
			if cur.props[n].Enumerable {
				lvl = append(lvl, n)
			}
		}
		out = append(out, lvl)
	}
	return out
}

// ForInSet flattens ForInLevels.
func (w *World) ForInSet(o *Obj) []string {
	var out []string
	for _, l := range w.ForInLevels(o) {
		out = append(out, l...)
	}
	return out
}

// ForInDelete models "for (k in o) { visit k; on the first iteration: delete
// target[name] }" for an implementation that enumerates level by level, own
// properties first.  With the zero Quirks it is one admissible ES5 behaviour
// (snapshot of each level, shadowing, a property deleted before its visit is
// skipped); checks must not compare against it directly because 12.6.4 fixes
// neither the order nor the snapshot discipline.  With ForInNoShadow /
// ForInLiveOrder it is the exact deviation model of the implementation under
// test.  It returns the visited names; the deletion is applied to the model.
func (w *World) ForInDelete(o, target *Obj, name string) []string {
	var visited []string
	seen := map[string]bool{}
	first := true
	for cur := o; cur != nil; cur = cur.Proto {
		snap := cur.order
		if !w.Q.ForInLiveOrder {
			snap = append([]string(nil), cur.order...)
		}
		for j := 0; j < len(snap); j++ {
			n := snap[j]
			p := cur.props[n]
			if p == nil {
				continue
			}
			if seen[n] && !w.Q.ForInNoShadow {
				continue
			}
			seen[n] = true
			if !p.Enumerable {
				continue
			}
			visited = append(visited, n)
			if first {
				first = false
				target.Delete(name, false)
			}
		}
	}
	return visited
}
