package refjs

import (
	"math"
	"sort"
	"strconv"
)

// Desc is a property descriptor (8.10) with field-presence flags.
type Desc struct {
	Value                                 Value
	Get, Set                              *Obj
	Writable, Enumerable, Configurable    bool
	HasValue, HasGet, HasSet              bool
	HasWritable, HasEnumerable, HasConfig bool
}

func (d *Desc) isAccessor() bool { return d.HasGet || d.HasSet }
func (d *Desc) isData() bool     { return d.HasValue || d.HasWritable }
func (d *Desc) isGeneric() bool  { return !d.isAccessor() && !d.isData() }

// DataDesc is a full data descriptor.
func DataDesc(v Value, w, e, c bool) Desc {
	return Desc{Value: v, HasValue: true, Writable: w, HasWritable: true, Enumerable: e, HasEnumerable: true, Configurable: c, HasConfig: true}
}

// ---------------------------------------------------------------- 8.12

// GetOwnProperty 8.12.1 (+ 10.6 for arguments objects, 15.5.5.2 for strings)
func (it *Interp) GetOwnProperty(o *Obj, name string) *Prop {
	p := o.getOwn(name)
	if p == nil {
		return nil
	}
	if o.ParamMap != nil {
		if b := o.ParamMap.lookup(name); b != nil {
			cp := *p
			cp.Value = b.v
			return &cp
		}
	}
	return p
}

// GetProperty 8.12.2
func (it *Interp) GetProperty(o *Obj, name string) *Prop {
	for o != nil {
		if p := it.GetOwnProperty(o, name); p != nil {
			return p
		}
		o = o.Proto
	}
	return nil
}

// Get 8.12.3 (this = the object itself unless thisV given)
func (it *Interp) Get(o *Obj, name string) Value { return it.getWithThis(o, name, o) }

func (it *Interp) getWithThis(o *Obj, name string, this Value) Value {
	if o.ParamMap != nil {
		if b := o.ParamMap.lookup(name); b != nil && o.getOwn(name) != nil {
			return b.v
		}
	}
	p := it.GetProperty(o, name)
	if p == nil {
		return Undefined
	}
	if !p.Accessor {
		return p.Value
	}
	if p.Get == nil {
		return Undefined
	}
	return it.Call(p.Get, this, nil)
}

// CanPut 8.12.4
func (it *Interp) CanPut(o *Obj, name string) bool {
	if p := it.GetOwnProperty(o, name); p != nil {
		if p.Accessor {
			return p.Set != nil
		}
		return p.Writable
	}
	if o.Proto == nil {
		return o.Extensible
	}
	inh := it.GetProperty(o.Proto, name)
	if inh == nil {
		return o.Extensible
	}
	if inh.Accessor {
		return inh.Set != nil
	}
	if !o.Extensible {
		return false
	}
	return inh.Writable
}

// Put 8.12.5
func (it *Interp) Put(o *Obj, name string, v Value, throw bool) {
	if !it.CanPut(o, name) {
		if throw {
			it.ThrowError("TypeError", "cannot put "+name)
		}
		return
	}
	own := it.GetOwnProperty(o, name)
	if own != nil && !own.Accessor {
		it.DefineOwnProperty(o, name, Desc{Value: v, HasValue: true}, throw)
		return
	}
	d := it.GetProperty(o, name)
	if d != nil && d.Accessor {
		it.Call(d.Set, o, []Value{v})
		return
	}
	it.DefineOwnProperty(o, name, DataDesc(v, true, true, true), throw)
}

// HasProperty 8.12.6
func (it *Interp) HasProperty(o *Obj, name string) bool { return it.GetProperty(o, name) != nil }

// Delete 8.12.7 (+10.6)
func (it *Interp) Delete(o *Obj, name string, throw bool) bool {
	p := it.GetOwnProperty(o, name)
	if p == nil {
		return true
	}
	if p.Configurable {
		o.delOwn(name)
		if o.ParamMap != nil {
			o.ParamMap.remove(name)
		}
		return true
	}
	if throw {
		it.ThrowError("TypeError", "cannot delete "+name)
	}
	return false
}

// DefaultValue 8.12.8
func (it *Interp) DefaultValue(o *Obj, hint string) Value {
	if hint == "" {
		if o.Class == "Date" {
			hint = "String"
		} else {
			hint = "Number"
		}
	}
	order := []string{"valueOf", "toString"}
	if hint == "String" {
		order = []string{"toString", "valueOf"}
	}
	for _, m := range order {
		f := it.Get(o, m)
		if fo, ok := f.(*Obj); ok && fo.Fn != nil {
			r := it.Call(fo, o, nil)
			if _, isO := r.(*Obj); !isO {
				return r
			}
		}
	}
	it.ThrowError("TypeError", "cannot convert object to primitive")
	return nil
}

func (it *Interp) reject(throw bool, why string) bool {
	if throw {
		it.ThrowError("TypeError", why)
	}
	return false
}

// DefineOwnProperty 8.12.9 (+15.4.5.1 for arrays, 10.6 for arguments)
func (it *Interp) DefineOwnProperty(o *Obj, name string, d Desc, throw bool) bool {
	if o.Class == "Array" {
		return it.arrayDefine(o, name, d, throw)
	}
	if o.ParamMap != nil {
		mapped := o.ParamMap.lookup(name)
		if !it.ordinaryDefine(o, name, d, false) {
			return it.reject(throw, "arguments define")
		}
		if mapped != nil {
			if d.isAccessor() {
				o.ParamMap.remove(name)
			} else {
				if d.HasValue {
					mapped.v = d.Value
				}
				if d.HasWritable && !d.Writable {
					o.ParamMap.remove(name)
				}
			}
		}
		return true
	}
	return it.ordinaryDefine(o, name, d, throw)
}

func (it *Interp) ordinaryDefine(o *Obj, name string, d Desc, throw bool) bool {
	cur := o.getOwn(name)
	if cur == nil {
		if !o.Extensible {
			return it.reject(throw, "not extensible")
		}
		p := &Prop{Enumerable: d.Enumerable && d.HasEnumerable, Configurable: d.Configurable && d.HasConfig}
		if d.isAccessor() {
			p.Accessor = true
			p.Get, p.Set = d.Get, d.Set
		} else {
			p.Value = Undefined
			if d.HasValue {
				p.Value = d.Value
			}
			p.Writable = d.Writable && d.HasWritable
		}
		o.setOwn(name, p)
		return true
	}
	// step 5: every field absent
	if !d.HasValue && !d.HasGet && !d.HasSet && !d.HasWritable && !d.HasEnumerable && !d.HasConfig {
		return true
	}
	// step 6: same
	same := true
	if d.HasValue && (cur.Accessor || !SameValue(d.Value, cur.Value)) {
		same = false
	}
	if d.HasWritable && (cur.Accessor || d.Writable != cur.Writable) {
		same = false
	}
	if d.HasGet && (!cur.Accessor || d.Get != cur.Get) {
		same = false
	}
	if d.HasSet && (!cur.Accessor || d.Set != cur.Set) {
		same = false
	}
	if d.HasEnumerable && d.Enumerable != cur.Enumerable {
		same = false
	}
	if d.HasConfig && d.Configurable != cur.Configurable {
		same = false
	}
	if same {
		return true
	}
	if !cur.Configurable {
		if d.HasConfig && d.Configurable {
			return it.reject(throw, "not configurable")
		}
		if d.HasEnumerable && d.Enumerable != cur.Enumerable {
			return it.reject(throw, "not configurable (enumerable)")
		}
	}
	switch {
	case d.isGeneric():
	case cur.Accessor != d.isAccessor():
		if !cur.Configurable {
			return it.reject(throw, "cannot convert")
		}
		if !cur.Accessor { // data -> accessor
			cur.Accessor = true
			cur.Value = nil
			cur.Writable = false
			cur.Get, cur.Set = nil, nil
		} else {
			cur.Accessor = false
			cur.Get, cur.Set = nil, nil
			cur.Value = Undefined
			cur.Writable = false
		}
	case !cur.Accessor:
		if !cur.Configurable {
			if !cur.Writable && d.HasWritable && d.Writable {
				return it.reject(throw, "not writable")
			}
			if !cur.Writable && d.HasValue && !SameValue(d.Value, cur.Value) {
				return it.reject(throw, "not writable (value)")
			}
		}
	default:
		if !cur.Configurable {
			if d.HasSet && d.Set != cur.Set {
				return it.reject(throw, "setter")
			}
			if d.HasGet && d.Get != cur.Get {
				return it.reject(throw, "getter")
			}
		}
	}
	if d.HasValue {
		cur.Value = d.Value
	}
	if d.HasWritable {
		cur.Writable = d.Writable
	}
	if d.HasGet {
		cur.Get = d.Get
	}
	if d.HasSet {
		cur.Set = d.Set
	}
	if d.HasEnumerable {
		cur.Enumerable = d.Enumerable
	}
	if d.HasConfig {
		cur.Configurable = d.Configurable
	}
	return true
}

// arrayDefine 15.4.5.1
func (it *Interp) arrayDefine(a *Obj, name string, d Desc, throw bool) bool {
	oldLenP := a.getOwn("length")
	oldLen := uint32(oldLenP.Value.(float64))
	if name == "length" {
		if !d.HasValue {
			return it.ordinaryDefine(a, "length", d, throw)
		}
		newLen := ToUint32N(it.ToNumber(d.Value))
		if float64(newLen) != it.ToNumber(d.Value) {
			it.ThrowError("RangeError", "invalid array length")
		}
		nd := d
		nd.Value = float64(newLen)
		if newLen >= oldLen {
			return it.ordinaryDefine(a, "length", nd, throw)
		}
		if !oldLenP.Writable {
			return it.reject(throw, "length not writable")
		}
		newWritable := true
		if nd.HasWritable && !nd.Writable {
			newWritable = false
			nd.Writable = true
		}
		if !it.ordinaryDefine(a, "length", nd, throw) {
			return false
		}
		// delete from the top; only existing indices matter
		var idxs []uint32
		for k := range a.props {
			if i, ok := arrayIndex(k); ok && i >= newLen {
				idxs = append(idxs, i)
			}
		}
		sort.Slice(idxs, func(i, j int) bool { return idxs[i] > idxs[j] })
		for _, i := range idxs {
			if !it.Delete(a, strconv.FormatUint(uint64(i), 10), false) {
				nd.Value = float64(i) + 1
				if !newWritable {
					nd.Writable = false
				}
				it.ordinaryDefine(a, "length", nd, false)
				return it.reject(throw, "cannot delete element")
			}
		}
		if !newWritable {
			it.ordinaryDefine(a, "length", Desc{Writable: false, HasWritable: true}, false)
		}
		return true
	}
	if idx, ok := arrayIndex(name); ok {
		if idx >= oldLen && !oldLenP.Writable {
			return it.reject(throw, "length not writable")
		}
		if !it.ordinaryDefine(a, name, d, false) {
			return it.reject(throw, "array element")
		}
		if idx >= oldLen {
			oldLenP.Value = float64(idx) + 1
		}
		return true
	}
	return it.ordinaryDefine(a, name, d, throw)
}

// ---------------------------------------------------------------- conversions involving objects

// ToPrimitive 9.1
func (it *Interp) ToPrimitive(v Value, hint string) Value {
	if o, ok := v.(*Obj); ok {
		return it.DefaultValue(o, hint)
	}
	return v
}

// ToNumber 9.3
func (it *Interp) ToNumber(v Value) float64 {
	switch x := v.(type) {
	case undefinedT:
		return math.NaN()
	case nullT:
		return 0
	case bool:
		if x {
			return 1
		}
		return 0
	case float64:
		return x
	case string:
		return StringToNumber(x)
	}
	return it.ToNumber(it.ToPrimitive(v, "Number"))
}

// ToString 9.8
func (it *Interp) ToString(v Value) string {
	switch x := v.(type) {
	case undefinedT:
		return "undefined"
	case nullT:
		return "null"
	case bool:
		if x {
			return "true"
		}
		return "false"
	case float64:
		return NumberToString(x)
	case string:
		return x
	}
	return it.ToString(it.ToPrimitive(v, "String"))
}

// ToObject 9.9
func (it *Interp) ToObject(v Value) *Obj {
	switch x := v.(type) {
	case undefinedT, nullT:
		it.ThrowError("TypeError", "cannot convert undefined or null to object")
	case bool:
		o := it.newObj("Boolean", it.BooleanProto)
		o.Prim = x
		return o
	case float64:
		o := it.newObj("Number", it.NumberProto)
		o.Prim = x
		return o
	case string:
		o := it.newObj("String", it.StringProto)
		o.Prim = x
		o.props["length"] = &Prop{Value: float64(len(units(x)))}
		o.order = append(o.order, "length")
		return o
	}
	return v.(*Obj)
}

func (it *Interp) ToInteger(v Value) float64 { return ToIntegerN(it.ToNumber(v)) }
func (it *Interp) ToInt32(v Value) int32     { return ToInt32N(it.ToNumber(v)) }
func (it *Interp) ToUint32(v Value) uint32   { return ToUint32N(it.ToNumber(v)) }

// CheckObjectCoercible 9.10
func (it *Interp) CheckObjectCoercible(v Value) {
	switch v.(type) {
	case undefinedT, nullT:
		it.ThrowError("TypeError", "not object coercible")
	}
}

// IsCallable 9.11
func IsCallable(v Value) bool {
	o, ok := v.(*Obj)
	return ok && o.Fn != nil
}

// ToPropertyDescriptor 8.10.5
func (it *Interp) ToPropertyDescriptor(v Value) Desc {
	o, ok := v.(*Obj)
	if !ok {
		it.ThrowError("TypeError", "property descriptor must be an object")
	}
	var d Desc
	if it.HasProperty(o, "enumerable") {
		d.HasEnumerable, d.Enumerable = true, ToBoolean(it.Get(o, "enumerable"))
	}
	if it.HasProperty(o, "configurable") {
		d.HasConfig, d.Configurable = true, ToBoolean(it.Get(o, "configurable"))
	}
	if it.HasProperty(o, "value") {
		d.HasValue, d.Value = true, it.Get(o, "value")
	}
	if it.HasProperty(o, "writable") {
		d.HasWritable, d.Writable = true, ToBoolean(it.Get(o, "writable"))
	}
	if it.HasProperty(o, "get") {
		g := it.Get(o, "get")
		if _, u := g.(undefinedT); !u {
			if !IsCallable(g) {
				it.ThrowError("TypeError", "getter must be a function")
			}
			d.Get = g.(*Obj)
		}
		d.HasGet = true
	}
	if it.HasProperty(o, "set") {
		s := it.Get(o, "set")
		if _, u := s.(undefinedT); !u {
			if !IsCallable(s) {
				it.ThrowError("TypeError", "setter must be a function")
			}
			d.Set = s.(*Obj)
		}
		d.HasSet = true
	}
	if (d.HasGet || d.HasSet) && (d.HasValue || d.HasWritable) {
		it.ThrowError("TypeError", "invalid property descriptor")
	}
	return d
}

// FromPropertyDescriptor 8.10.4
func (it *Interp) FromPropertyDescriptor(p *Prop) Value {
	if p == nil {
		return Undefined
	}
	o := it.NewObject()
	if !p.Accessor {
		it.DefineOwnProperty(o, "value", DataDesc(p.Value, true, true, true), false)
		it.DefineOwnProperty(o, "writable", DataDesc(p.Writable, true, true, true), false)
	} else {
		var g, s Value = Undefined, Undefined
		if p.Get != nil {
			g = p.Get
		}
		if p.Set != nil {
			s = p.Set
		}
		it.DefineOwnProperty(o, "get", DataDesc(g, true, true, true), false)
		it.DefineOwnProperty(o, "set", DataDesc(s, true, true, true), false)
	}
	it.DefineOwnProperty(o, "enumerable", DataDesc(p.Enumerable, true, true, true), false)
	it.DefineOwnProperty(o, "configurable", DataDesc(p.Configurable, true, true, true), false)
	return o
}
