package refjs

import (
	"math"
	"strconv"
	"strings"
	"unicode/utf16"

	"verif/internal/gt"
)

// Enc renders a value in the same type-faithful format as ox.Enc renders
// otto values, so traces can be compared textually.
func Enc(v Value) string {
	switch x := v.(type) {
	case undefinedT:
		return "undefined"
	case nullT:
		return "null"
	case bool:
		return "b:" + strconv.FormatBool(x)
	case float64:
		return "n:" + encNum(x)
	case string:
		return "s:" + encUnits(utf16.Encode([]rune(x)))
	case *Obj:
		return "o:" + x.Class
	}
	return "?"
}

func encNum(f float64) string {
	switch {
	case f != f:
		return "NaN"
	case math.IsInf(f, 1):
		return "Infinity"
	case math.IsInf(f, -1):
		return "-Infinity"
	case f == 0 && math.Signbit(f):
		return "-0"
	}
	return strconv.FormatFloat(f, 'g', -1, 64)
}

func encUnits(u []uint16) string {
	var b strings.Builder
	b.WriteByte('"')
	for _, c := range u {
		switch {
		case c == '"' || c == '\\':
			b.WriteByte('\\')
			b.WriteByte(byte(c))
		case c >= 0x20 && c < 0x7f:
			b.WriteByte(byte(c))
		default:
			b.WriteString("\\u")
			h := strconv.FormatUint(uint64(c), 16)
			b.WriteString(strings.ToUpper(strings.Repeat("0", 4-len(h)) + h))
		}
	}
	b.WriteByte('"')
	return b.String()
}

func (it *Interp) def(o *Obj, name string, v Value) {
	it.DefineOwnProperty(o, name, DataDesc(v, true, false, true), false)
}

func (it *Interp) method(o *Obj, name string, length int, fn func(it *Interp, this Value, args []Value) Value) *Obj {
	f := it.NewNative(name, length, fn)
	it.def(o, name, f)
	return f
}

func (it *Interp) ctor(name string, length int, proto *Obj, call func(it *Interp, this Value, args []Value) Value, construct func(it *Interp, args []Value) Value) *Obj {
	f := it.NewNative(name, length, call)
	f.Fn.NativeCtor = construct
	it.DefineOwnProperty(f, "prototype", DataDesc(proto, false, false, false), false)
	it.def(proto, "constructor", f)
	it.def(it.Global, name, f)
	return f
}

// New creates a reference runtime with the built-ins generated programs use.
func New() *Interp {
	it := &Interp{EvalTable: map[string]*gt.Program{}, errProtos: map[string]*Obj{}, MaxSteps: 2000000}
	it.ObjectProto = it.newObj("Object", nil)
	it.FunctionProto = it.newObj("Function", it.ObjectProto)
	it.FunctionProto.Fn = &Function{Native: func(*Interp, Value, []Value) Value { return Undefined }, NoConstruct: true}
	it.DefineOwnProperty(it.FunctionProto, "length", DataDesc(float64(0), false, false, false), false)
	it.Global = it.newObj("global", it.ObjectProto)
	it.GlobalEnv = newObjEnv(it.Global, nil, false)
	it.ctx = &context{lex: it.GlobalEnv, varEnv: it.GlobalEnv, this: it.Global}
	g := it.Global
	it.DefineOwnProperty(g, "undefined", DataDesc(Undefined, false, false, false), false)
	it.DefineOwnProperty(g, "NaN", DataDesc(math.NaN(), false, false, false), false)
	it.DefineOwnProperty(g, "Infinity", DataDesc(math.Inf(1), false, false, false), false)

	it.evalFn = it.method(g, "eval", 1, func(it *Interp, this Value, args []Value) Value { return it.performEval(arg(args, 0), false) })
	it.method(g, "isNaN", 1, func(it *Interp, this Value, args []Value) Value { n := it.ToNumber(arg(args, 0)); return n != n })
	it.method(g, "isFinite", 1, func(it *Interp, this Value, args []Value) Value {
		n := it.ToNumber(arg(args, 0))
		return !(n != n || math.IsInf(n, 0))
	})
	it.method(g, "log", 0, func(it *Interp, this Value, args []Value) Value {
		parts := make([]string, len(args))
		for i, a := range args {
			parts[i] = Enc(a)
		}
		it.Log = append(it.Log, strings.Join(parts, ","))
		return Undefined
	})

	it.setupObject()
	it.setupFunction()
	it.setupArray()
	it.setupPrimitives()
	it.setupErrors()
	return it
}

func (it *Interp) thisObj(this Value) *Obj { return it.ToObject(this) }

func (it *Interp) setupObject() {
	op := it.ObjectProto
	objCtor := it.ctor("Object", 1, op,
		func(it *Interp, this Value, args []Value) Value {
			switch arg(args, 0).(type) {
			case undefinedT, nullT:
				return it.NewObject()
			}
			return it.ToObject(arg(args, 0))
		},
		func(it *Interp, args []Value) Value {
			switch v := arg(args, 0).(type) {
			case undefinedT, nullT:
				return it.NewObject()
			case *Obj:
				return v
			default:
				return it.ToObject(v)
			}
		})
	it.method(op, "toString", 0, func(it *Interp, this Value, args []Value) Value {
		switch this.(type) {
		case undefinedT:
			return "[object Undefined]"
		case nullT:
			return "[object Null]"
		}
		return "[object " + it.ToObject(this).Class + "]"
	})
	it.method(op, "valueOf", 0, func(it *Interp, this Value, args []Value) Value { return it.ToObject(this) })
	it.method(op, "hasOwnProperty", 1, func(it *Interp, this Value, args []Value) Value {
		p := it.ToString(arg(args, 0))
		return it.GetOwnProperty(it.ToObject(this), p) != nil
	})
	it.method(op, "isPrototypeOf", 1, func(it *Interp, this Value, args []Value) Value {
		v, ok := arg(args, 0).(*Obj)
		if !ok {
			return false
		}
		o := it.ToObject(this)
		for v = v.Proto; v != nil; v = v.Proto {
			if v == o {
				return true
			}
		}
		return false
	})
	it.method(op, "propertyIsEnumerable", 1, func(it *Interp, this Value, args []Value) Value {
		p := it.ToString(arg(args, 0))
		d := it.GetOwnProperty(it.ToObject(this), p)
		return d != nil && d.Enumerable
	})
	needObj := func(it *Interp, v Value) *Obj {
		o, ok := v.(*Obj)
		if !ok {
			it.ThrowError("TypeError", "argument is not an object")
		}
		return o
	}
	it.method(objCtor, "getPrototypeOf", 1, func(it *Interp, this Value, args []Value) Value {
		o := needObj(it, arg(args, 0))
		if o.Proto == nil {
			return Null
		}
		return o.Proto
	})
	defineProps := func(it *Interp, o *Obj, props Value) {
		po := it.ToObject(props)
		type nd struct {
			n string
			d Desc
		}
		var list []nd
		for _, k := range po.OwnKeys() {
			if p := it.GetOwnProperty(po, k); p != nil && p.Enumerable {
				list = append(list, nd{k, it.ToPropertyDescriptor(it.Get(po, k))})
			}
		}
		for _, e := range list {
			it.DefineOwnProperty(o, e.n, e.d, true)
		}
	}
	it.method(objCtor, "create", 2, func(it *Interp, this Value, args []Value) Value {
		var proto *Obj
		switch p := arg(args, 0).(type) {
		case nullT:
		case *Obj:
			proto = p
		default:
			it.ThrowError("TypeError", "prototype must be an object or null")
		}
		o := it.newObj("Object", proto)
		if _, u := arg(args, 1).(undefinedT); !u {
			defineProps(it, o, arg(args, 1))
		}
		return o
	})
	it.method(objCtor, "defineProperty", 3, func(it *Interp, this Value, args []Value) Value {
		o := needObj(it, arg(args, 0))
		name := it.ToString(arg(args, 1))
		d := it.ToPropertyDescriptor(arg(args, 2))
		it.DefineOwnProperty(o, name, d, true)
		return o
	})
	it.method(objCtor, "defineProperties", 2, func(it *Interp, this Value, args []Value) Value {
		o := needObj(it, arg(args, 0))
		defineProps(it, o, arg(args, 1))
		return o
	})
	it.method(objCtor, "getOwnPropertyDescriptor", 2, func(it *Interp, this Value, args []Value) Value {
		o := needObj(it, arg(args, 0))
		return it.FromPropertyDescriptor(it.GetOwnProperty(o, it.ToString(arg(args, 1))))
	})
	keys := func(enumOnly bool) func(it *Interp, this Value, args []Value) Value {
		return func(it *Interp, this Value, args []Value) Value {
			o := needObj(it, arg(args, 0))
			var out []Value
			for _, k := range o.OwnKeys() {
				if p := it.GetOwnProperty(o, k); p != nil && (p.Enumerable || !enumOnly) {
					out = append(out, k)
				}
			}
			return it.NewArray(out)
		}
	}
	it.method(objCtor, "keys", 1, keys(true))
	it.method(objCtor, "getOwnPropertyNames", 1, keys(false))
	it.method(objCtor, "preventExtensions", 1, func(it *Interp, this Value, args []Value) Value {
		o := needObj(it, arg(args, 0))
		o.Extensible = false
		return o
	})
	it.method(objCtor, "isExtensible", 1, func(it *Interp, this Value, args []Value) Value { return needObj(it, arg(args, 0)).Extensible })
	lock := func(freeze bool) func(it *Interp, this Value, args []Value) Value {
		return func(it *Interp, this Value, args []Value) Value {
			o := needObj(it, arg(args, 0))
			for _, k := range o.OwnKeys() {
				p := it.GetOwnProperty(o, k)
				d := Desc{Configurable: false, HasConfig: true}
				if freeze && !p.Accessor && p.Writable {
					d.Writable, d.HasWritable = false, true
				}
				it.DefineOwnProperty(o, k, d, true)
			}
			o.Extensible = false
			return o
		}
	}
	it.method(objCtor, "freeze", 1, lock(true))
	it.method(objCtor, "seal", 1, lock(false))
	test := func(frozen bool) func(it *Interp, this Value, args []Value) Value {
		return func(it *Interp, this Value, args []Value) Value {
			o := needObj(it, arg(args, 0))
			for _, k := range o.OwnKeys() {
				p := it.GetOwnProperty(o, k)
				if p.Configurable || (frozen && !p.Accessor && p.Writable) {
					return false
				}
			}
			return !o.Extensible
		}
	}
	it.method(objCtor, "isFrozen", 1, test(true))
	it.method(objCtor, "isSealed", 1, test(false))
}

func (it *Interp) listFromArrayLike(v Value) []Value {
	switch v.(type) {
	case undefinedT, nullT:
		return nil
	}
	o, ok := v.(*Obj)
	if !ok {
		it.ThrowError("TypeError", "apply: argument list is not an object")
	}
	n := it.ToUint32(it.Get(o, "length"))
	if n > 100000 {
		panic(&Abort{"array-like too long for the reference model"})
	}
	out := make([]Value, n)
	for i := uint32(0); i < n; i++ {
		out[i] = it.Get(o, strconv.FormatUint(uint64(i), 10))
	}
	return out
}

func (it *Interp) setupFunction() {
	fp := it.FunctionProto
	fctor := it.NewNative("Function", 1, func(it *Interp, this Value, args []Value) Value {
		panic(&Abort{"Function constructor is not modelled"})
	})
	it.DefineOwnProperty(fctor, "prototype", DataDesc(fp, false, false, false), false)
	it.def(fp, "constructor", fctor)
	it.def(it.Global, "Function", fctor)
	callable := func(it *Interp, this Value) *Obj {
		o, ok := this.(*Obj)
		if !ok || o.Fn == nil {
			it.ThrowError("TypeError", "not a function")
		}
		return o
	}
	it.method(fp, "toString", 0, func(it *Interp, this Value, args []Value) Value {
		panic(&Abort{"implementation-defined: Function.prototype.toString"})
	})
	it.method(fp, "call", 1, func(it *Interp, this Value, args []Value) Value {
		f := callable(it, this)
		var rest []Value
		if len(args) > 1 {
			rest = args[1:]
		}
		return it.Call(f, arg(args, 0), rest)
	})
	it.method(fp, "apply", 2, func(it *Interp, this Value, args []Value) Value {
		f := callable(it, this)
		return it.Call(f, arg(args, 0), it.listFromArrayLike(arg(args, 1)))
	})
	it.method(fp, "bind", 1, func(it *Interp, this Value, args []Value) Value {
		target := callable(it, this)
		b := it.newObj("Function", it.FunctionProto)
		var ba []Value
		if len(args) > 1 {
			ba = append(ba, args[1:]...)
		}
		b.Fn = &Function{BoundTarget: target, BoundThis: arg(args, 0), BoundArgs: ba}
		l := 0.0
		if target.Class == "Function" {
			l = it.ToNumber(it.Get(target, "length")) - float64(len(ba))
			if l < 0 {
				l = 0
			}
		}
		it.DefineOwnProperty(b, "length", DataDesc(l, false, false, false), false)
		if it.Dev.BoundHasPrototype {
			proto := it.NewObject()
			it.DefineOwnProperty(b, "prototype", DataDesc(proto, true, false, false), false)
			it.DefineOwnProperty(proto, "constructor", DataDesc(b, true, false, false), false)
		}
		return b
	})
}

func (it *Interp) setupArray() {
	ap := it.newObj("Array", it.ObjectProto)
	ap.props["length"] = &Prop{Value: float64(0), Writable: true}
	ap.order = append(ap.order, "length")
	it.ArrayProto = ap
	mk := func(it *Interp, args []Value) Value {
		if len(args) == 1 {
			if n, ok := args[0].(float64); ok {
				if float64(ToUint32N(n)) != n {
					it.ThrowError("RangeError", "invalid array length")
				}
				a := it.NewArray(nil)
				it.Put(a, "length", n, true)
				return a
			}
		}
		return it.NewArray(args)
	}
	actor := it.ctor("Array", 1, ap, func(it *Interp, this Value, args []Value) Value { return mk(it, args) }, mk)
	it.method(actor, "isArray", 1, func(it *Interp, this Value, args []Value) Value {
		o, ok := arg(args, 0).(*Obj)
		return ok && o.Class == "Array"
	})
	idx := func(i uint32) string { return strconv.FormatUint(uint64(i), 10) }
	join := func(it *Interp, this Value, args []Value) Value {
		o := it.ToObject(this)
		n := it.ToUint32(it.Get(o, "length"))
		sep := ","
		if _, u := arg(args, 0).(undefinedT); !u {
			sep = it.ToString(arg(args, 0))
		}
		var parts []string
		for i := uint32(0); i < n; i++ {
			e := it.Get(o, idx(i))
			switch e.(type) {
			case undefinedT, nullT:
				parts = append(parts, "")
			default:
				parts = append(parts, it.ToString(e))
			}
		}
		return strings.Join(parts, sep)
	}
	it.method(ap, "join", 1, join)
	it.method(ap, "toString", 0, func(it *Interp, this Value, args []Value) Value {
		o := it.ToObject(this)
		if f, ok := it.Get(o, "join").(*Obj); ok && f.Fn != nil {
			return it.Call(f, o, nil)
		}
		return "[object " + o.Class + "]"
	})
	it.method(ap, "push", 1, func(it *Interp, this Value, args []Value) Value {
		o := it.ToObject(this)
		n := float64(it.ToUint32(it.Get(o, "length")))
		for _, a := range args {
			it.Put(o, NumberToString(n), a, true)
			n++
		}
		it.Put(o, "length", n, true)
		return n
	})
	it.method(ap, "pop", 0, func(it *Interp, this Value, args []Value) Value {
		o := it.ToObject(this)
		n := it.ToUint32(it.Get(o, "length"))
		if n == 0 {
			it.Put(o, "length", float64(0), true)
			return Undefined
		}
		e := it.Get(o, idx(n-1))
		it.Delete(o, idx(n-1), true)
		it.Put(o, "length", float64(n-1), true)
		return e
	})
	it.method(ap, "slice", 2, func(it *Interp, this Value, args []Value) Value {
		o := it.ToObject(this)
		a := it.NewArray(nil)
		ln := float64(it.ToUint32(it.Get(o, "length")))
		rel := it.ToInteger(arg(args, 0))
		k := math.Min(rel, ln)
		if rel < 0 {
			k = math.Max(ln+rel, 0)
		}
		relEnd := ln
		if _, u := arg(args, 1).(undefinedT); !u {
			relEnd = it.ToInteger(arg(args, 1))
		}
		fin := math.Min(relEnd, ln)
		if relEnd < 0 {
			fin = math.Max(ln+relEnd, 0)
		}
		n := 0
		for ; k < fin; k++ {
			pk := NumberToString(k)
			if it.HasProperty(o, pk) {
				it.DefineOwnProperty(a, strconv.Itoa(n), DataDesc(it.Get(o, pk), true, true, true), false)
			}
			n++
		}
		return a
	})
	it.method(ap, "concat", 1, func(it *Interp, this Value, args []Value) Value {
		o := it.ToObject(this)
		a := it.NewArray(nil)
		n := 0
		items := append([]Value{o}, args...)
		for _, e := range items {
			if eo, ok := e.(*Obj); ok && eo.Class == "Array" {
				ln := it.ToUint32(it.Get(eo, "length"))
				for k := uint32(0); k < ln; k++ {
					if it.HasProperty(eo, idx(k)) {
						it.DefineOwnProperty(a, strconv.Itoa(n), DataDesc(it.Get(eo, idx(k)), true, true, true), false)
					}
					n++
				}
			} else {
				it.DefineOwnProperty(a, strconv.Itoa(n), DataDesc(e, true, true, true), false)
				n++
			}
		}
		it.Put(a, "length", float64(n), false)
		return a
	})
	it.method(ap, "indexOf", 1, func(it *Interp, this Value, args []Value) Value {
		o := it.ToObject(this)
		ln := float64(it.ToUint32(it.Get(o, "length")))
		if ln == 0 {
			return float64(-1)
		}
		n := 0.0
		if len(args) > 1 {
			n = it.ToInteger(args[1])
		}
		if n >= ln {
			return float64(-1)
		}
		k := n
		if n < 0 {
			k = math.Max(ln-math.Abs(n), 0)
		}
		for ; k < ln; k++ {
			pk := NumberToString(k)
			if it.HasProperty(o, pk) && StrictEquals(arg(args, 0), it.Get(o, pk)) {
				return k + 0
			}
		}
		return float64(-1)
	})
	iter := func(name string, body func(it *Interp, o *Obj, f *Obj, t Value, ln uint32) Value) {
		it.method(ap, name, 1, func(it *Interp, this Value, args []Value) Value {
			o := it.ToObject(this)
			ln := it.ToUint32(it.Get(o, "length"))
			f, ok := arg(args, 0).(*Obj)
			if !ok || f.Fn == nil {
				it.ThrowError("TypeError", name+": callback is not a function")
			}
			return body(it, o, f, arg(args, 1), ln)
		})
	}
	iter("forEach", func(it *Interp, o, f *Obj, t Value, ln uint32) Value {
		for k := uint32(0); k < ln; k++ {
			if it.HasProperty(o, idx(k)) {
				it.Call(f, t, []Value{it.Get(o, idx(k)), float64(k), o})
			}
		}
		return Undefined
	})
	iter("map", func(it *Interp, o, f *Obj, t Value, ln uint32) Value {
		a := it.NewArray(nil)
		it.Put(a, "length", float64(ln), false)
		for k := uint32(0); k < ln; k++ {
			if it.HasProperty(o, idx(k)) {
				v := it.Call(f, t, []Value{it.Get(o, idx(k)), float64(k), o})
				it.DefineOwnProperty(a, idx(k), DataDesc(v, true, true, true), false)
			}
		}
		return a
	})
	iter("filter", func(it *Interp, o, f *Obj, t Value, ln uint32) Value {
		a := it.NewArray(nil)
		to := 0
		for k := uint32(0); k < ln; k++ {
			if it.HasProperty(o, idx(k)) {
				kv := it.Get(o, idx(k))
				if ToBoolean(it.Call(f, t, []Value{kv, float64(k), o})) {
					it.DefineOwnProperty(a, strconv.Itoa(to), DataDesc(kv, true, true, true), false)
					to++
				}
			}
		}
		return a
	})
}

func (it *Interp) setupPrimitives() {
	// String
	sp := it.newObj("String", it.ObjectProto)
	sp.Prim = ""
	sp.props["length"] = &Prop{Value: float64(0)}
	sp.order = append(sp.order, "length")
	it.StringProto = sp
	sctor := it.ctor("String", 1, sp,
		func(it *Interp, this Value, args []Value) Value {
			if len(args) == 0 {
				return ""
			}
			return it.ToString(args[0])
		},
		func(it *Interp, args []Value) Value {
			s := ""
			if len(args) > 0 {
				s = it.ToString(args[0])
			}
			return it.ToObject(s)
		})
	_ = sctor
	thisStr := func(it *Interp, this Value) string {
		if s, ok := this.(string); ok {
			return s
		}
		if o, ok := this.(*Obj); ok && o.Class == "String" {
			return o.Prim.(string)
		}
		it.ThrowError("TypeError", "not a string")
		return ""
	}
	it.method(sp, "toString", 0, func(it *Interp, this Value, args []Value) Value { return thisStr(it, this) })
	it.method(sp, "valueOf", 0, func(it *Interp, this Value, args []Value) Value { return thisStr(it, this) })
	it.method(sp, "charAt", 1, func(it *Interp, this Value, args []Value) Value {
		it.CheckObjectCoercible(this)
		u := units(it.ToString(this))
		p := it.ToInteger(arg(args, 0))
		if p < 0 || p >= float64(len(u)) {
			return ""
		}
		return string(utf16.Decode(u[int(p) : int(p)+1]))
	})
	it.method(sp, "charCodeAt", 1, func(it *Interp, this Value, args []Value) Value {
		it.CheckObjectCoercible(this)
		u := units(it.ToString(this))
		p := it.ToInteger(arg(args, 0))
		if p < 0 || p >= float64(len(u)) {
			return math.NaN()
		}
		return float64(u[int(p)])
	})
	// Number
	np := it.newObj("Number", it.ObjectProto)
	np.Prim = float64(0)
	it.NumberProto = np
	it.ctor("Number", 1, np,
		func(it *Interp, this Value, args []Value) Value {
			if len(args) == 0 {
				return float64(0)
			}
			return it.ToNumber(args[0])
		},
		func(it *Interp, args []Value) Value {
			n := 0.0
			if len(args) > 0 {
				n = it.ToNumber(args[0])
			}
			return it.ToObject(n)
		})
	thisNum := func(it *Interp, this Value) float64 {
		if n, ok := this.(float64); ok {
			return n
		}
		if o, ok := this.(*Obj); ok && o.Class == "Number" {
			return o.Prim.(float64)
		}
		it.ThrowError("TypeError", "not a number")
		return 0
	}
	it.method(np, "toString", 1, func(it *Interp, this Value, args []Value) Value {
		n := thisNum(it, this)
		if _, u := arg(args, 0).(undefinedT); !u {
			if r := it.ToInteger(arg(args, 0)); r != 10 {
				if r < 2 || r > 36 {
					it.ThrowError("RangeError", "radix")
				}
				panic(&Abort{"Number.prototype.toString with radix is not modelled here"})
			}
		}
		return NumberToString(n)
	})
	it.method(np, "valueOf", 0, func(it *Interp, this Value, args []Value) Value { return thisNum(it, this) })
	// Boolean
	bp := it.newObj("Boolean", it.ObjectProto)
	bp.Prim = false
	it.BooleanProto = bp
	it.ctor("Boolean", 1, bp,
		func(it *Interp, this Value, args []Value) Value { return ToBoolean(arg(args, 0)) },
		func(it *Interp, args []Value) Value { return it.ToObject(ToBoolean(arg(args, 0))) })
	thisBool := func(it *Interp, this Value) bool {
		if b, ok := this.(bool); ok {
			return b
		}
		if o, ok := this.(*Obj); ok && o.Class == "Boolean" {
			return o.Prim.(bool)
		}
		it.ThrowError("TypeError", "not a boolean")
		return false
	}
	it.method(bp, "toString", 0, func(it *Interp, this Value, args []Value) Value {
		if thisBool(it, this) {
			return "true"
		}
		return "false"
	})
	it.method(bp, "valueOf", 0, func(it *Interp, this Value, args []Value) Value { return thisBool(it, this) })
}

// ErrorClasses lists the native error constructors.
var ErrorClasses = []string{"Error", "EvalError", "RangeError", "ReferenceError", "SyntaxError", "TypeError", "URIError"}

func (it *Interp) setupErrors() {
	ep := it.newObj("Error", it.ObjectProto)
	it.ErrorProto = ep
	for _, name := range ErrorClasses {
		name := name
		proto := ep
		if name != "Error" {
			proto = it.newObj("Error", ep)
		}
		it.errProtos[name] = proto
		mk := func(it *Interp, args []Value) Value {
			e := it.newObj("Error", proto)
			if _, u := arg(args, 0).(undefinedT); !u {
				it.DefineOwnProperty(e, "message", DataDesc(it.ToString(arg(args, 0)), true, false, true), false)
			}
			return e
		}
		it.ctor(name, 1, proto, func(it *Interp, this Value, args []Value) Value { return mk(it, args) }, mk)
		it.def(proto, "name", name)
		it.def(proto, "message", "")
	}
	it.method(ep, "toString", 0, func(it *Interp, this Value, args []Value) Value {
		o, ok := this.(*Obj)
		if !ok {
			it.ThrowError("TypeError", "Error.prototype.toString: not an object")
		}
		name := "Error"
		if n := it.Get(o, "name"); n != Undefined {
			name = it.ToString(n)
		}
		msg := ""
		if m := it.Get(o, "message"); m != Undefined {
			msg = it.ToString(m)
		}
		if name == "" {
			return msg
		}
		if msg == "" {
			return name
		}
		return name + ": " + msg
	})
}

// ---------------------------------------------------------------- running

// Result is what the reference model observed for one program.
type Result struct {
	Log        []string
	Completion string // Enc of the completion value ("" if thrown)
	Thrown     bool
	ErrClass   string // name of a thrown Error object, or "non-error:<enc>"
	Aborted    string // non-empty: the model gave up (inconclusive)
}

// ThrownClass classifies a thrown value the way the harness classifies the
// error returned by otto's Run.
func (it *Interp) ThrownClass(v Value) string {
	if o, ok := v.(*Obj); ok && o.Class == "Error" {
		return it.ToString(it.Get(o, "name"))
	}
	return "non-error"
}

// RunGuarded runs fn, capturing JS throws and model aborts.
func (it *Interp) RunGuarded(fn func() Value) (res Result) {
	defer func() {
		if r := recover(); r != nil {
			switch x := r.(type) {
			case *Throw:
				res.Thrown = true
				func() {
					defer func() {
						if r2 := recover(); r2 != nil {
							res.ErrClass = "non-error"
						}
					}()
					res.ErrClass = it.ThrownClass(x.V)
				}()
			case *Abort:
				res.Aborted = x.Why
			default:
				panic(r)
			}
		}
		res.Log = it.Log
	}()
	v := fn()
	res.Completion = Enc(v)
	return
}

// Run evaluates a program on this runtime.
func (it *Interp) Run(p *gt.Program, evals map[string]*gt.Program) Result {
	for k, v := range evals {
		it.EvalTable[k] = v
	}
	return it.RunGuarded(func() Value { return it.RunProgram(p) })
}
