// Package refjs is an executable reference model of the ES5.1 core language
// (clauses 8–13, and the parts of 15 that generated programs use), written
// from the specification text in specification step order so that the order of
// side effects is the specification's. It interprets gt trees directly and
// shares no code with otto.
package refjs

import (
	"math"
	"strconv"
	"strings"
	"unicode/utf16"
)

// Value is undefinedT, nullT, bool, float64, string or *Obj.
type Value interface{}

type undefinedT struct{}
type nullT struct{}

var (
	Undefined Value = undefinedT{}
	Null      Value = nullT{}
)

// Throw is a JavaScript exception travelling as a Go panic.
type Throw struct{ V Value }

// Prop is a property (8.6.1): data or accessor.
type Prop struct {
	Value        Value
	Get, Set     *Obj // accessor (nil = undefined)
	Accessor     bool
	Writable     bool
	Enumerable   bool
	Configurable bool
}

// Obj is an object (8.6.2).
type Obj struct {
	Class      string
	Proto      *Obj
	Extensible bool
	props      map[string]*Prop
	order      []string
	Fn         *Function // callable
	Prim       Value     // [[PrimitiveValue]]
	ParamMap   *argMap   // arguments object (10.6)
	ID         int
}

func (o *Obj) getOwn(name string) *Prop {
	if o.Class == "String" {
		// 15.5.5.2
		if s, ok := o.Prim.(string); ok {
			if idx, ok := arrayIndex(name); ok {
				u := utf16.Encode([]rune(s))
				if int(idx) < len(u) {
					return &Prop{Value: string(utf16.Decode(u[idx : idx+1])), Enumerable: true}
				}
			}
		}
	}
	return o.props[name]
}

func (o *Obj) setOwn(name string, p *Prop) {
	if _, ok := o.props[name]; !ok {
		o.order = append(o.order, name)
	}
	o.props[name] = p
}

func (o *Obj) delOwn(name string) {
	if _, ok := o.props[name]; ok {
		delete(o.props, name)
		for i, k := range o.order {
			if k == name {
				o.order = append(o.order[:i:i], o.order[i+1:]...)
				break
			}
		}
	}
}

// OwnKeys returns own property names in creation order.
func (o *Obj) OwnKeys() []string {
	var ks []string
	if o.Class == "String" {
		if s, ok := o.Prim.(string); ok {
			n := len(utf16.Encode([]rune(s)))
			for i := 0; i < n; i++ {
				ks = append(ks, strconv.Itoa(i))
			}
		}
	}
	return append(ks, o.order...)
}

// arrayIndex: canonical array index string (15.4): ToString(ToUint32(P)) == P and != 2^32-1.
func arrayIndex(s string) (uint32, bool) {
	if s == "" || len(s) > 10 {
		return 0, false
	}
	if s == "0" {
		return 0, true
	}
	if s[0] < '1' || s[0] > '9' {
		return 0, false
	}
	var n uint64
	for i := 0; i < len(s); i++ {
		c := s[i]
		if c < '0' || c > '9' {
			return 0, false
		}
		n = n*10 + uint64(c-'0')
	}
	if n >= 4294967295 {
		return 0, false
	}
	return uint32(n), true
}

// ---------------------------------------------------------------- type tests

func TypeOf(v Value) string {
	switch x := v.(type) {
	case undefinedT:
		return "undefined"
	case nullT:
		return "null"
	case bool:
		return "boolean"
	case float64:
		return "number"
	case string:
		return "string"
	case *Obj:
		_ = x
		return "object"
	}
	panic("refjs: bad value")
}

func isObj(v Value) (*Obj, bool) { o, ok := v.(*Obj); return o, ok }

// ---------------------------------------------------------------- 9.x conversions (primitives)

// ToBoolean 9.2
func ToBoolean(v Value) bool {
	switch x := v.(type) {
	case undefinedT, nullT:
		return false
	case bool:
		return x
	case float64:
		return !(x == 0 || x != x)
	case string:
		return x != ""
	}
	return true
}

func isStrWhite(r rune) bool {
	switch r {
	case 0x9, 0xB, 0xC, 0x20, 0xA0, 0xFEFF, 0xA, 0xD, 0x2028, 0x2029,
		0x1680, 0x180E, 0x2000, 0x2001, 0x2002, 0x2003, 0x2004, 0x2005, 0x2006, 0x2007, 0x2008, 0x2009, 0x200A, 0x202F, 0x205F, 0x3000:
		return true
	}
	return false
}

func trimStrWhite(s string) string {
	rs := []rune(s)
	i, j := 0, len(rs)
	for i < j && isStrWhite(rs[i]) {
		i++
	}
	for j > i && isStrWhite(rs[j-1]) {
		j--
	}
	return string(rs[i:j])
}

// isStrDecimal recognises StrUnsignedDecimalLiteral without Infinity.
func isStrDecimal(s string) bool {
	i, n := 0, len(s)
	d1 := 0
	for i < n && s[i] >= '0' && s[i] <= '9' {
		i++
		d1++
	}
	d2 := 0
	if i < n && s[i] == '.' {
		i++
		for i < n && s[i] >= '0' && s[i] <= '9' {
			i++
			d2++
		}
	}
	if d1 == 0 && d2 == 0 {
		return false
	}
	if i < n && (s[i] == 'e' || s[i] == 'E') {
		i++
		if i < n && (s[i] == '+' || s[i] == '-') {
			i++
		}
		d3 := 0
		for i < n && s[i] >= '0' && s[i] <= '9' {
			i++
			d3++
		}
		if d3 == 0 {
			return false
		}
	}
	return i == n
}

// StringToNumber 9.3.1
func StringToNumber(s string) float64 {
	t := trimStrWhite(s)
	if t == "" {
		return 0
	}
	if len(t) > 2 && t[0] == '0' && (t[1] == 'x' || t[1] == 'X') {
		v := 0.0
		for i := 2; i < len(t); i++ {
			c := t[i]
			var d int
			switch {
			case c >= '0' && c <= '9':
				d = int(c - '0')
			case c >= 'a' && c <= 'f':
				d = int(c-'a') + 10
			case c >= 'A' && c <= 'F':
				d = int(c-'A') + 10
			default:
				return math.NaN()
			}
			v = v*16 + float64(d) // exact below 2^53; callers keep hex strings short
		}
		return v
	}
	sign := 1.0
	u := t
	if u[0] == '+' {
		u = u[1:]
	} else if u[0] == '-' {
		sign = -1
		u = u[1:]
	}
	if u == "Infinity" {
		return sign * math.Inf(1)
	}
	if !isStrDecimal(u) {
		return math.NaN()
	}
	f, err := strconv.ParseFloat(u, 64)
	if err != nil {
		// out of range: ParseFloat returns +-Inf with ErrRange, 0 for underflow
		if ne, ok := err.(*strconv.NumError); ok && ne.Err == strconv.ErrRange {
			return sign * f
		}
		return math.NaN()
	}
	return sign * f
}

// NumberToString 9.8.1. Digits come from strconv's shortest round-trip
// algorithm; the layout is the specification's. (The independent big-number
// oracle for the digits themselves is internal/refnum, used by C06.)
func NumberToString(m float64) string {
	switch {
	case m != m:
		return "NaN"
	case m == 0:
		return "0"
	case m < 0:
		return "-" + NumberToString(-m)
	case math.IsInf(m, 1):
		return "Infinity"
	}
	e := strconv.FormatFloat(m, 'e', -1, 64) // d.ddddde±xx
	mant, exps, _ := strings.Cut(e, "e")
	digits := strings.Replace(mant, ".", "", 1)
	x, _ := strconv.Atoi(exps)
	k := len(digits)
	n := x + 1
	switch {
	case k <= n && n <= 21:
		return digits + strings.Repeat("0", n-k)
	case 0 < n && n <= 21:
		return digits[:n] + "." + digits[n:]
	case -6 < n && n <= 0:
		return "0." + strings.Repeat("0", -n) + digits
	}
	es := strconv.Itoa(n - 1)
	if n-1 > 0 {
		es = "+" + es
	}
	if k == 1 {
		return digits + "e" + es
	}
	return digits[:1] + "." + digits[1:] + "e" + es
}

// ToInteger 9.4 on a number
func ToIntegerN(x float64) float64 {
	if x != x {
		return 0
	}
	if x == 0 || math.IsInf(x, 0) {
		return x
	}
	return math.Trunc(x)
}

// ToUint32N 9.6 on a number
func ToUint32N(x float64) uint32 {
	if x != x || math.IsInf(x, 0) || x == 0 {
		return 0
	}
	p := math.Trunc(x)
	m := math.Mod(p, 4294967296) // exact
	if m < 0 {
		m += 4294967296
	}
	return uint32(m)
}

// ToInt32N 9.5
func ToInt32N(x float64) int32 { return int32(ToUint32N(x)) }

// ToUint16N 9.7
func ToUint16N(x float64) uint16 { return uint16(ToUint32N(x)) }

// SameValue 9.12
func SameValue(a, b Value) bool {
	if TypeOf(a) != TypeOf(b) {
		return false
	}
	switch x := a.(type) {
	case undefinedT, nullT:
		return true
	case float64:
		y := b.(float64)
		if x != x && y != y {
			return true
		}
		if x == 0 && y == 0 {
			return math.Signbit(x) == math.Signbit(y)
		}
		return x == y
	case string:
		return x == b.(string)
	case bool:
		return x == b.(bool)
	}
	return a.(*Obj) == b.(*Obj)
}

// StrictEquals 11.9.6
func StrictEquals(a, b Value) bool {
	if TypeOf(a) != TypeOf(b) {
		return false
	}
	switch x := a.(type) {
	case undefinedT, nullT:
		return true
	case float64:
		return x == b.(float64)
	case string:
		return x == b.(string)
	case bool:
		return x == b.(bool)
	}
	return a.(*Obj) == b.(*Obj)
}

// units converts to UTF-16 code units.
func units(s string) []uint16 { return utf16.Encode([]rune(s)) }

// lessUnits compares strings by code units (11.8.5 step 4).
func lessUnits(a, b string) bool {
	x, y := units(a), units(b)
	for i := 0; i < len(x) && i < len(y); i++ {
		if x[i] != y[i] {
			return x[i] < y[i]
		}
	}
	return len(x) < len(y)
}
