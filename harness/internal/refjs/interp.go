package refjs

import (
	"fmt"
	"math"
	"sort"
	"strconv"

	"verif/internal/gt"
)

// ---------------------------------------------------------------- environments (10.2)

type binding struct {
	v         Value
	mutable   bool
	deletable bool
}

// Env is a lexical environment: declarative or object record + outer link.
type Env struct {
	outer       *Env
	decl        map[string]*binding
	obj         *Obj
	provideThis bool
}

func newDeclEnv(outer *Env) *Env { return &Env{outer: outer, decl: map[string]*binding{}} }
func newObjEnv(o *Obj, outer *Env, provideThis bool) *Env {
	return &Env{outer: outer, obj: o, provideThis: provideThis}
}

func (it *Interp) envHas(e *Env, n string) bool {
	if e.obj != nil {
		return it.HasProperty(e.obj, n)
	}
	_, ok := e.decl[n]
	return ok
}

func (it *Interp) envCreateMutable(e *Env, n string, deletable bool) {
	if e.obj != nil {
		it.DefineOwnProperty(e.obj, n, DataDesc(Undefined, true, true, deletable), true)
		return
	}
	e.decl[n] = &binding{v: Undefined, mutable: true, deletable: deletable}
}

func (it *Interp) envSet(e *Env, n string, v Value) {
	if e.obj != nil {
		it.Put(e.obj, n, v, false)
		return
	}
	b := e.decl[n]
	if b.mutable {
		b.v = v
	}
}

func (it *Interp) envGet(e *Env, n string) Value {
	if e.obj != nil {
		if !it.HasProperty(e.obj, n) {
			return Undefined
		}
		return it.Get(e.obj, n)
	}
	return e.decl[n].v
}

func (it *Interp) envDelete(e *Env, n string) bool {
	if e.obj != nil {
		return it.Delete(e.obj, n, false)
	}
	b, ok := e.decl[n]
	if !ok {
		return true
	}
	if !b.deletable {
		return false
	}
	delete(e.decl, n)
	return true
}

// argMap is the parameter map of an arguments object (10.6).
type argMap struct {
	env   *Env
	names map[string]string // index -> parameter name
}

func (m *argMap) lookup(idx string) *binding {
	if n, ok := m.names[idx]; ok {
		return m.env.decl[n]
	}
	return nil
}
func (m *argMap) remove(idx string) { delete(m.names, idx) }

// Ref is a Reference (8.7).
type Ref struct {
	base         Value // *Obj / primitive for property references
	env          *Env  // environment record reference
	name         string
	unresolvable bool
}

// ---------------------------------------------------------------- interpreter state

// Function is the callable part of a function object.
type Function struct {
	Params      []string
	Body        []gt.Node
	Scope       *Env
	Name        string
	Native      func(it *Interp, this Value, args []Value) Value
	NativeCtor  func(it *Interp, args []Value) Value
	NoConstruct bool
	BoundTarget *Obj
	BoundThis   Value
	BoundArgs   []Value
	IsEval      bool
}

type context struct {
	lex, varEnv *Env
	this        Value
}

// Deviations switches the model to reproduce known defects of the system
// under test (used only to attribute failures to known findings).
type Deviations struct {
	// BoundHasPrototype: Function.prototype.bind gives the bound function an
	// own "prototype" property (ES5 15.3.4.5: it has none).
	BoundHasPrototype bool
}

// Interp is one reference runtime.
type Interp struct {
	Dev                                                                                        Deviations
	Global                                                                                     *Obj
	GlobalEnv                                                                                  *Env
	ctx                                                                                        *context
	ObjectProto, FunctionProto, ArrayProto, StringProto, NumberProto, BooleanProto, ErrorProto *Obj
	errProtos                                                                                  map[string]*Obj
	evalFn                                                                                     *Obj
	EvalTable                                                                                  map[string]*gt.Program
	Log                                                                                        []string
	depth                                                                                      int
	Steps                                                                                      int
	MaxSteps                                                                                   int
	nextID                                                                                     int
	// StepHook, if set, is called at the start of every statement.
	StepHook func()
}

// Abort is raised (as a Go panic) when the model gives up on a case.
type Abort struct{ Why string }

func (it *Interp) newObj(class string, proto *Obj) *Obj {
	it.nextID++
	return &Obj{Class: class, Proto: proto, Extensible: true, props: map[string]*Prop{}, ID: it.nextID}
}

// NewObject creates an ordinary object.
func (it *Interp) NewObject() *Obj { return it.newObj("Object", it.ObjectProto) }

// NewArray creates an array from values.
func (it *Interp) NewArray(vals []Value) *Obj {
	a := it.newObj("Array", it.ArrayProto)
	a.props["length"] = &Prop{Value: float64(0), Writable: true}
	a.order = append(a.order, "length")
	for i, v := range vals {
		it.DefineOwnProperty(a, strconv.Itoa(i), DataDesc(v, true, true, true), false)
	}
	return a
}

// ThrowError throws a native error of the given class.
func (it *Interp) ThrowError(class, msg string) {
	panic(&Throw{V: it.MakeError(class, msg)})
}

// MakeError builds a native error object.
func (it *Interp) MakeError(class, msg string) *Obj {
	e := it.newObj("Error", it.errProtos[class])
	it.DefineOwnProperty(e, "message", DataDesc(msg, true, false, true), false)
	return e
}

// ---------------------------------------------------------------- references

func (it *Interp) resolve(name string) Ref {
	for e := it.ctx.lex; e != nil; e = e.outer {
		if it.envHas(e, name) {
			return Ref{env: e, name: name}
		}
	}
	return Ref{name: name, unresolvable: true}
}

// GetValue 8.7.1
func (it *Interp) getValue(v interface{}) Value {
	r, ok := v.(Ref)
	if !ok {
		return v
	}
	if r.unresolvable {
		it.ThrowError("ReferenceError", r.name+" is not defined")
	}
	if r.env != nil {
		return it.envGet(r.env, r.name)
	}
	if o, ok := r.base.(*Obj); ok {
		return it.Get(o, r.name)
	}
	// primitive base
	o := it.ToObject(r.base)
	return it.getWithThis(o, r.name, r.base)
}

// PutValue 8.7.2
func (it *Interp) putValue(v interface{}, w Value) {
	r, ok := v.(Ref)
	if !ok {
		it.ThrowError("ReferenceError", "invalid assignment target")
	}
	if r.unresolvable {
		it.Put(it.Global, r.name, w, false)
		return
	}
	if r.env != nil {
		it.envSet(r.env, r.name, w)
		return
	}
	if o, ok := r.base.(*Obj); ok {
		it.Put(o, r.name, w, false)
		return
	}
	o := it.ToObject(r.base)
	if !it.CanPut(o, r.name) {
		return
	}
	if own := it.GetOwnProperty(o, r.name); own != nil && !own.Accessor {
		return
	}
	if d := it.GetProperty(o, r.name); d != nil && d.Accessor {
		it.Call(d.Set, r.base, []Value{w})
	}
}

// ---------------------------------------------------------------- functions (13.2)

// NewFunction creates a function object for code.
func (it *Interp) NewFunction(f *gt.Func, scope *Env) *Obj {
	fo := it.newObj("Function", it.FunctionProto)
	fo.Fn = &Function{Params: f.Params, Body: f.Body, Scope: scope, Name: f.Name}
	it.DefineOwnProperty(fo, "length", DataDesc(float64(len(f.Params)), false, false, false), false)
	proto := it.NewObject()
	it.DefineOwnProperty(proto, "constructor", DataDesc(fo, true, false, true), false)
	it.DefineOwnProperty(fo, "prototype", DataDesc(proto, true, false, false), false)
	return fo
}

// NewNative creates a built-in function object.
func (it *Interp) NewNative(name string, length int, fn func(it *Interp, this Value, args []Value) Value) *Obj {
	fo := it.newObj("Function", it.FunctionProto)
	fo.Fn = &Function{Name: name, Native: fn, NoConstruct: true}
	it.DefineOwnProperty(fo, "length", DataDesc(float64(length), false, false, false), false)
	return fo
}

func arg(args []Value, i int) Value {
	if i < len(args) {
		return args[i]
	}
	return Undefined
}

// Call is [[Call]].
func (it *Interp) Call(fo *Obj, this Value, args []Value) Value {
	f := fo.Fn
	if f == nil {
		it.ThrowError("TypeError", "not a function")
	}
	it.depth++
	defer func() { it.depth-- }()
	if it.depth > 400 {
		panic(&Abort{"reference model call depth exceeded"})
	}
	if f.BoundTarget != nil {
		return it.Call(f.BoundTarget, f.BoundThis, append(append([]Value{}, f.BoundArgs...), args...))
	}
	if f.Native != nil {
		return f.Native(it, this, args)
	}
	// 10.4.3 entering function code
	switch this.(type) {
	case undefinedT, nullT:
		this = it.Global
	case *Obj:
	default:
		this = it.ToObject(this)
	}
	env := newDeclEnv(f.Scope)
	saved := it.ctx
	it.ctx = &context{lex: env, varEnv: env, this: this}
	defer func() { it.ctx = saved }()
	it.declBind(f.Body, env, false, fo, args)
	c := it.stmtList(f.Body)
	if c.typ == cReturn {
		return c.val
	}
	return Undefined
}

// Construct is [[Construct]] (13.2.2 / 15.3.4.5.2).
func (it *Interp) Construct(fo *Obj, args []Value) Value {
	f := fo.Fn
	if f == nil || f.NoConstruct && f.NativeCtor == nil {
		it.ThrowError("TypeError", "not a constructor")
	}
	if f.BoundTarget != nil {
		return it.Construct(f.BoundTarget, append(append([]Value{}, f.BoundArgs...), args...))
	}
	if f.NativeCtor != nil {
		return f.NativeCtor(it, args)
	}
	obj := it.newObj("Object", it.ObjectProto)
	if p, ok := it.Get(fo, "prototype").(*Obj); ok {
		obj.Proto = p
	}
	r := it.Call(fo, obj, args)
	if ro, ok := r.(*Obj); ok {
		return ro
	}
	return obj
}

// HasInstance 15.3.5.3 / 15.3.4.5.3
func (it *Interp) HasInstance(fo *Obj, v Value) bool {
	if fo.Fn.BoundTarget != nil {
		return it.HasInstance(fo.Fn.BoundTarget, v)
	}
	vo, ok := v.(*Obj)
	if !ok {
		return false
	}
	po, ok := it.Get(fo, "prototype").(*Obj)
	if !ok {
		it.ThrowError("TypeError", "prototype is not an object")
	}
	for vo = vo.Proto; vo != nil; vo = vo.Proto {
		if vo == po {
			return true
		}
	}
	return false
}

// collectDecls gathers function declarations (top level of body) and var
// names (recursively, not into nested functions) in source order.
func collectDecls(body []gt.Node) (funcs []*gt.Func, vars []string) {
	var walk func(n gt.Node)
	walkList := func(l []gt.Node) {
		for _, s := range l {
			walk(s)
		}
	}
	walk = func(n gt.Node) {
		switch x := n.(type) {
		case *gt.Var:
			for _, d := range x.Decls {
				vars = append(vars, d.Name)
			}
		case *gt.Block:
			if x != nil {
				walkList(x.Body)
			}
		case *gt.If:
			walk(x.Then)
			if x.Else != nil {
				walk(x.Else)
			}
		case *gt.For:
			if v, ok := x.Init.(*gt.Var); ok {
				walk(v)
			}
			walk(x.Body)
		case *gt.ForIn:
			if x.Decl {
				vars = append(vars, x.Left.(*gt.Ident).Name)
			}
			walk(x.Body)
		case *gt.While:
			walk(x.Body)
		case *gt.DoWhile:
			walk(x.Body)
		case *gt.With:
			walk(x.Body)
		case *gt.Switch:
			for _, c := range x.Cases {
				walkList(c.Body)
			}
		case *gt.Labeled:
			walk(x.Body)
		case *gt.Try:
			walk(x.Block)
			if x.Catch != nil {
				walk(x.Catch)
			}
			if x.Finally != nil {
				walk(x.Finally)
			}
		}
	}
	for _, s := range body {
		if f, ok := s.(*gt.Func); ok && f.Decl {
			funcs = append(funcs, f)
			continue
		}
		walk(s)
	}
	return
}

// declBind is Declaration Binding Instantiation (10.5). fo != nil for function code.
func (it *Interp) declBind(body []gt.Node, env *Env, configurable bool, fo *Obj, args []Value) {
	if fo != nil {
		for i, p := range fo.Fn.Params {
			v := arg(args, i)
			if !it.envHas(env, p) {
				it.envCreateMutable(env, p, false)
			}
			it.envSet(env, p, v)
		}
	}
	funcs, vars := collectDecls(body)
	for _, f := range funcs {
		fobj := it.NewFunction(f, it.ctx.varEnv)
		if !it.envHas(env, f.Name) {
			it.envCreateMutable(env, f.Name, configurable)
		} else if env == it.GlobalEnv {
			existing := it.GetProperty(it.Global, f.Name)
			if existing.Configurable {
				it.DefineOwnProperty(it.Global, f.Name, DataDesc(Undefined, true, true, configurable), true)
			} else if existing.Accessor || !(existing.Writable && existing.Enumerable) {
				it.ThrowError("TypeError", "cannot redeclare "+f.Name)
			}
		}
		it.envSet(env, f.Name, fobj)
	}
	if fo != nil && !it.envHas(env, "arguments") {
		ao := it.makeArguments(fo, args, env)
		// non-strict: CreateMutableBinding (not deletable)
		it.envCreateMutable(env, "arguments", false)
		it.envSet(env, "arguments", ao)
	}
	for _, v := range vars {
		if !it.envHas(env, v) {
			it.envCreateMutable(env, v, configurable)
			it.envSet(env, v, Undefined)
		}
	}
}

// makeArguments 10.6 (non-strict)
func (it *Interp) makeArguments(fo *Obj, args []Value, env *Env) *Obj {
	ao := it.newObj("Arguments", it.ObjectProto)
	it.ordinaryDefine(ao, "length", DataDesc(float64(len(args)), true, false, true), false)
	m := &argMap{env: env, names: map[string]string{}}
	mapped := map[string]bool{}
	for indx := len(args) - 1; indx >= 0; indx-- {
		it.ordinaryDefine(ao, strconv.Itoa(indx), DataDesc(args[indx], true, true, true), false)
		if indx < len(fo.Fn.Params) {
			name := fo.Fn.Params[indx]
			if !mapped[name] {
				mapped[name] = true
				m.names[strconv.Itoa(indx)] = name
			}
		}
	}
	// keep index order ascending for enumeration
	sort.SliceStable(ao.order, func(i, j int) bool {
		a, aok := arrayIndex(ao.order[i])
		b, bok := arrayIndex(ao.order[j])
		if aok && bok {
			return a < b
		}
		return false
	})
	if len(m.names) > 0 {
		ao.ParamMap = m
	}
	it.ordinaryDefine(ao, "callee", DataDesc(fo, true, false, true), false)
	return ao
}

// ---------------------------------------------------------------- programs and eval

// RunProgram evaluates global code; returns the completion value (Undefined if
// empty) or panics with *Throw / *Abort.
func (it *Interp) RunProgram(p *gt.Program) Value {
	saved := it.ctx
	it.ctx = &context{lex: it.GlobalEnv, varEnv: it.GlobalEnv, this: it.Global}
	defer func() { it.ctx = saved }()
	it.declBind(p.Body, it.GlobalEnv, false, nil, nil)
	c := it.stmtList(p.Body)
	if c.val == nil {
		return Undefined
	}
	return c.val
}

func (it *Interp) performEval(x Value, direct bool) Value {
	src, ok := x.(string)
	if !ok {
		return x
	}
	prog := it.EvalTable[src]
	if prog == nil {
		panic(&Abort{"eval of text unknown to the reference model: " + src})
	}
	saved := it.ctx
	defer func() { it.ctx = saved }()
	if !direct || saved == nil {
		it.ctx = &context{lex: it.GlobalEnv, varEnv: it.GlobalEnv, this: it.Global}
	} else {
		it.ctx = &context{lex: saved.lex, varEnv: saved.varEnv, this: saved.this}
	}
	it.declBind(prog.Body, it.ctx.varEnv, true, nil, nil)
	c := it.stmtList(prog.Body)
	if c.typ != cNormal {
		// break/continue/return cannot escape valid eval code
		panic(&Abort{"abrupt completion escaping eval code"})
	}
	if c.val == nil {
		return Undefined
	}
	return c.val
}

// ---------------------------------------------------------------- statements (12)

const (
	cNormal = iota
	cBreak
	cContinue
	cReturn
	cThrow
)

type completion struct {
	typ    int
	val    Value // nil = empty
	target string
}

var normalEmpty = completion{}

func (it *Interp) step() {
	it.Steps++
	if it.MaxSteps > 0 && it.Steps > it.MaxSteps {
		panic(&Abort{"reference model step budget exceeded"})
	}
	if it.StepHook != nil {
		it.StepHook()
	}
}

func (it *Interp) stmtList(list []gt.Node) completion {
	var v Value
	for _, s := range list {
		c := it.stmt(s, nil)
		if c.val != nil {
			v = c.val
		}
		if c.typ != cNormal {
			return completion{c.typ, v, c.target}
		}
	}
	return completion{cNormal, v, ""}
}

func inLabels(labels []string, t string) bool {
	if t == "" {
		return true // the empty label is in the label set of every iteration / switch statement
	}
	for _, l := range labels {
		if l == t {
			return true
		}
	}
	return false
}

// loopCheck implements the shared tail of 12.6.x: returns (done, result).
func loopCheck(c completion, labels []string, v Value) (bool, completion) {
	if c.typ != cContinue || !inLabels(labels, c.target) {
		if c.typ == cBreak && inLabels(labels, c.target) {
			return true, completion{cNormal, v, ""}
		}
		if c.typ != cNormal {
			return true, c
		}
	}
	return false, completion{}
}

func (it *Interp) stmt(n gt.Node, labels []string) completion {
	it.step()
	switch x := n.(type) {
	case *gt.Var:
		for _, d := range x.Decls {
			if d.Init != nil {
				lhs := it.resolve(d.Name)
				rhs := it.eval(d.Init)
				it.putValue(lhs, it.getValue(rhs))
			}
		}
		return normalEmpty
	case *gt.ExprStmt:
		return completion{cNormal, it.getValue(it.eval(x.X)), ""}
	case *gt.Block:
		return it.stmtList(x.Body)
	case *gt.Empty, *gt.Debugger:
		return normalEmpty
	case *gt.Func:
		return normalEmpty
	case *gt.If:
		if ToBoolean(it.getValue(it.eval(x.Test))) {
			return it.stmt(x.Then, nil)
		}
		if x.Else != nil {
			return it.stmt(x.Else, nil)
		}
		return normalEmpty
	case *gt.DoWhile:
		var v Value
		for {
			c := it.stmt(x.Body, nil)
			if c.val != nil {
				v = c.val
			}
			if done, r := loopCheck(c, labels, v); done {
				return r
			}
			if !ToBoolean(it.getValue(it.eval(x.Test))) {
				return completion{cNormal, v, ""}
			}
		}
	case *gt.While:
		var v Value
		for {
			if !ToBoolean(it.getValue(it.eval(x.Test))) {
				return completion{cNormal, v, ""}
			}
			c := it.stmt(x.Body, nil)
			if c.val != nil {
				v = c.val
			}
			if done, r := loopCheck(c, labels, v); done {
				return r
			}
		}
	case *gt.For:
		switch i := x.Init.(type) {
		case nil:
		case *gt.Var:
			it.stmt(i, nil)
		default:
			it.getValue(it.eval(i))
		}
		var v Value
		for {
			if x.Test != nil && !ToBoolean(it.getValue(it.eval(x.Test))) {
				return completion{cNormal, v, ""}
			}
			c := it.stmt(x.Body, nil)
			if c.val != nil {
				v = c.val
			}
			if done, r := loopCheck(c, labels, v); done {
				return r
			}
			if x.Update != nil {
				it.getValue(it.eval(x.Update))
			}
		}
	case *gt.ForIn:
		if x.Decl && x.Init != nil {
			it.putValue(it.resolve(x.Left.(*gt.Ident).Name), it.getValue(it.eval(x.Init)))
		}
		ev := it.getValue(it.eval(x.Obj))
		switch ev.(type) {
		case undefinedT, nullT:
			return normalEmpty
		}
		obj := it.ToObject(ev)
		var v Value
		visited := map[string]bool{}
		for o := obj; o != nil; o = o.Proto {
			for _, k := range o.OwnKeys() {
				// a property deleted before it is visited is not visited
				p := it.GetOwnProperty(o, k)
				if p == nil {
					continue
				}
				if visited[k] {
					continue
				}
				visited[k] = true
				if !p.Enumerable {
					continue
				}
				// shadowing and deletion are judged against the live chain
				if cur := it.GetProperty(obj, k); cur == nil {
					continue
				}
				var lhs interface{}
				if x.Decl {
					lhs = it.resolve(x.Left.(*gt.Ident).Name)
				} else {
					lhs = it.eval(x.Left)
				}
				it.putValue(lhs, k)
				c := it.stmt(x.Body, nil)
				if c.val != nil {
					v = c.val
				}
				if done, r := loopCheck(c, labels, v); done {
					return r
				}
			}
		}
		return completion{cNormal, v, ""}
	case *gt.Continue:
		return completion{cContinue, nil, x.Label}
	case *gt.Break:
		return completion{cBreak, nil, x.Label}
	case *gt.Return:
		if x.X == nil {
			return completion{cReturn, Undefined, ""}
		}
		return completion{cReturn, it.getValue(it.eval(x.X)), ""}
	case *gt.With:
		obj := it.ToObject(it.getValue(it.eval(x.Obj)))
		old := it.ctx.lex
		it.ctx.lex = newObjEnv(obj, old, true)
		ctx := it.ctx
		defer func() { ctx.lex = old }()
		return it.stmt(x.Body, nil)
	case *gt.Switch:
		input := it.getValue(it.eval(x.Disc))
		r := it.caseBlock(x, input)
		if r.typ == cBreak && inLabels(labels, r.target) {
			return completion{cNormal, r.val, ""}
		}
		return r
	case *gt.Labeled:
		ls := append(append([]string{}, labels...), x.Label)
		c := it.stmt(x.Body, ls)
		if c.typ == cBreak && c.target == x.Label {
			return completion{cNormal, c.val, ""}
		}
		return c
	case *gt.Throw:
		panic(&Throw{V: it.getValue(it.eval(x.X))})
	case *gt.Try:
		return it.try(x)
	}
	panic(fmt.Sprintf("refjs: unknown statement %T", n))
}

// protected evaluates fn converting a JS throw into a throw completion.
func (it *Interp) protected(fn func() completion) (c completion) {
	ctx := it.ctx
	lex := it.ctx.lex
	depth := it.depth
	defer func() {
		if r := recover(); r != nil {
			if t, ok := r.(*Throw); ok {
				it.ctx = ctx
				it.ctx.lex = lex
				it.depth = depth
				c = completion{cThrow, t.V, ""}
				return
			}
			panic(r)
		}
	}()
	return fn()
}

func (it *Interp) try(x *gt.Try) completion {
	b := it.protected(func() completion { return it.stmtList(x.Block.Body) })
	c := b
	if x.Catch != nil && b.typ == cThrow {
		c = it.protected(func() completion {
			old := it.ctx.lex
			env := newDeclEnv(old)
			it.envCreateMutable(env, x.Param, false)
			it.envSet(env, x.Param, b.val)
			it.ctx.lex = env
			ctx := it.ctx
			defer func() { ctx.lex = old }()
			return it.stmtList(x.Catch.Body)
		})
	}
	if x.Finally != nil {
		f := it.protected(func() completion { return it.stmtList(x.Finally.Body) })
		if f.typ != cNormal {
			c = f
		}
	}
	if c.typ == cThrow {
		panic(&Throw{V: c.val})
	}
	return c
}

// caseBlock 12.11
func (it *Interp) caseBlock(x *gt.Switch, input Value) completion {
	var v Value
	defIdx := -1
	for i, c := range x.Cases {
		if c.Test == nil {
			defIdx = i
		}
	}
	runFrom := func(i int) (completion, bool) {
		for ; i < len(x.Cases); i++ {
			r := it.stmtList(x.Cases[i].Body)
			if r.val != nil {
				v = r.val
			}
			if r.typ != cNormal {
				return completion{r.typ, v, r.target}, true
			}
		}
		return completion{}, false
	}
	if defIdx < 0 {
		for i, c := range x.Cases {
			sel := it.getValue(it.eval(c.Test))
			if StrictEquals(input, sel) {
				if r, abrupt := runFrom(i); abrupt {
					return r
				}
				return completion{cNormal, v, ""}
			}
		}
		return completion{cNormal, v, ""}
	}
	// with default: A = clauses before default, B = after
	for i := 0; i < defIdx; i++ {
		sel := it.getValue(it.eval(x.Cases[i].Test))
		if StrictEquals(input, sel) {
			if r, abrupt := runFrom(i); abrupt {
				return r
			}
			return completion{cNormal, v, ""}
		}
	}
	for i := defIdx + 1; i < len(x.Cases); i++ {
		sel := it.getValue(it.eval(x.Cases[i].Test))
		if StrictEquals(input, sel) {
			if r, abrupt := runFrom(i); abrupt {
				return r
			}
			return completion{cNormal, v, ""}
		}
	}
	if r, abrupt := runFrom(defIdx); abrupt {
		return r
	}
	return completion{cNormal, v, ""}
}

// ---------------------------------------------------------------- expressions (11)

func (it *Interp) evalArgs(args []gt.Node) []Value {
	out := make([]Value, 0, len(args))
	for _, a := range args {
		out = append(out, it.getValue(it.eval(a)))
	}
	return out
}

// eval evaluates an expression to a Value or a Ref.
func (it *Interp) eval(n gt.Node) interface{} {
	switch x := n.(type) {
	case *gt.Num:
		return x.V
	case *gt.Str:
		return x.V
	case *gt.EvalSrc:
		src, ev := gt.RenderStyle(x.Prog, gt.Style{})
		for k, v := range ev {
			it.EvalTable[k] = v
		}
		it.EvalTable[src] = x.Prog
		return src
	case *gt.Bool:
		return x.V
	case *gt.Null:
		return Null
	case *gt.This:
		return it.ctx.this
	case *gt.Paren:
		return it.eval(x.X)
	case *gt.Ident:
		return it.resolve(x.Name)
	case *gt.ArrayLit:
		a := it.NewArray(nil)
		for i, e := range x.Elems {
			if e == nil {
				continue
			}
			v := it.getValue(it.eval(e))
			it.DefineOwnProperty(a, strconv.Itoa(i), DataDesc(v, true, true, true), false)
		}
		it.Put(a, "length", float64(len(x.Elems)), false)
		return a
	case *gt.ObjectLit:
		o := it.NewObject()
		for _, p := range x.Props {
			switch p.Kind {
			case "get":
				fo := it.NewFunction(p.Value.(*gt.Func), it.ctx.lex)
				it.DefineOwnProperty(o, p.Key, Desc{Get: fo, HasGet: true, Enumerable: true, HasEnumerable: true, Configurable: true, HasConfig: true}, false)
			case "set":
				fo := it.NewFunction(p.Value.(*gt.Func), it.ctx.lex)
				it.DefineOwnProperty(o, p.Key, Desc{Set: fo, HasSet: true, Enumerable: true, HasEnumerable: true, Configurable: true, HasConfig: true}, false)
			default:
				v := it.getValue(it.eval(p.Value))
				it.DefineOwnProperty(o, p.Key, DataDesc(v, true, true, true), false)
			}
		}
		return o
	case *gt.Func:
		if x.Name != "" {
			env := newDeclEnv(it.ctx.lex)
			fo := it.NewFunction(x, env)
			env.decl[x.Name] = &binding{v: fo, mutable: false}
			return fo
		}
		return it.NewFunction(x, it.ctx.lex)
	case *gt.Member:
		base := it.getValue(it.eval(x.Obj))
		it.CheckObjectCoercible(base)
		return Ref{base: base, name: x.Name}
	case *gt.Index:
		base := it.getValue(it.eval(x.Obj))
		pv := it.getValue(it.eval(x.Prop))
		it.CheckObjectCoercible(base)
		return Ref{base: base, name: it.ToString(pv)}
	case *gt.New:
		ctor := it.getValue(it.eval(x.Callee))
		args := it.evalArgs(x.Args)
		co, ok := ctor.(*Obj)
		if !ok || co.Fn == nil {
			it.ThrowError("TypeError", "not a constructor")
		}
		return it.Construct(co, args)
	case *gt.Call:
		ref := it.eval(x.Callee)
		fn := it.getValue(ref)
		args := it.evalArgs(x.Args)
		fo, ok := fn.(*Obj)
		if !ok || fo.Fn == nil {
			it.ThrowError("TypeError", "not a function")
		}
		var this Value = Undefined
		if r, isRef := ref.(Ref); isRef {
			if r.env != nil {
				if r.env.obj != nil && r.env.provideThis {
					this = r.env.obj
				}
				if fo == it.evalFn && r.name == "eval" {
					return it.performEval(arg(args, 0), true)
				}
			} else {
				this = r.base
			}
		}
		return it.Call(fo, this, args)
	case *gt.Update:
		lhs := it.eval(x.X)
		old := it.ToNumber(it.getValue(lhs))
		nv := old + 1
		if x.Op == "--" {
			nv = old - 1
		}
		it.putValue(lhs, nv)
		if x.Prefix {
			return nv
		}
		return old
	case *gt.Unary:
		return it.unary(x)
	case *gt.Binary:
		l := it.getValue(it.eval(x.L))
		r := it.getValue(it.eval(x.R))
		return it.BinaryOp(x.Op, l, r)
	case *gt.Logical:
		l := it.getValue(it.eval(x.L))
		if x.Op == "&&" {
			if !ToBoolean(l) {
				return l
			}
		} else if ToBoolean(l) {
			return l
		}
		return it.getValue(it.eval(x.R))
	case *gt.Cond:
		if ToBoolean(it.getValue(it.eval(x.Test))) {
			return it.getValue(it.eval(x.Then))
		}
		return it.getValue(it.eval(x.Else))
	case *gt.Assign:
		lref := it.eval(x.Target)
		if x.Op == "=" {
			rval := it.getValue(it.eval(x.Value))
			it.putValue(lref, rval)
			return rval
		}
		lval := it.getValue(lref)
		rval := it.getValue(it.eval(x.Value))
		r := it.BinaryOp(x.Op[:len(x.Op)-1], lval, rval)
		it.putValue(lref, r)
		return r
	case *gt.Comma:
		var v Value
		for _, e := range x.Exprs {
			v = it.getValue(it.eval(e))
		}
		return v
	}
	panic(fmt.Sprintf("refjs: unknown expression %T", n))
}

func (it *Interp) unary(x *gt.Unary) interface{} {
	switch x.Op {
	case "delete":
		ref := it.eval(x.X)
		r, ok := ref.(Ref)
		if !ok {
			return true
		}
		if r.unresolvable {
			return true
		}
		if r.env != nil {
			return it.envDelete(r.env, r.name)
		}
		return it.Delete(it.ToObject(r.base), r.name, false)
	case "void":
		it.getValue(it.eval(x.X))
		return Undefined
	case "typeof":
		v := it.eval(x.X)
		if r, ok := v.(Ref); ok && r.unresolvable {
			return "undefined"
		}
		val := it.getValue(v)
		if o, ok := val.(*Obj); ok {
			if o.Fn != nil {
				return "function"
			}
			return "object"
		}
		if _, ok := val.(nullT); ok {
			return "object"
		}
		return TypeOf(val)
	case "+":
		return it.ToNumber(it.getValue(it.eval(x.X)))
	case "-":
		return -it.ToNumber(it.getValue(it.eval(x.X)))
	case "~":
		return float64(^it.ToInt32(it.getValue(it.eval(x.X))))
	case "!":
		return !ToBoolean(it.getValue(it.eval(x.X)))
	}
	panic("refjs: unknown unary " + x.Op)
}

// compare is the Abstract Relational Comparison 11.8.5: returns 1 true, 0 false, -1 undefined.
func (it *Interp) compare(x, y Value, leftFirst bool) int {
	var px, py Value
	if leftFirst {
		px = it.ToPrimitive(x, "Number")
		py = it.ToPrimitive(y, "Number")
	} else {
		py = it.ToPrimitive(y, "Number")
		px = it.ToPrimitive(x, "Number")
	}
	sx, okx := px.(string)
	sy, oky := py.(string)
	if okx && oky {
		if lessUnits(sx, sy) {
			return 1
		}
		return 0
	}
	nx := it.ToNumber(px)
	ny := it.ToNumber(py)
	if nx != nx || ny != ny {
		return -1
	}
	if nx < ny {
		return 1
	}
	return 0
}

// AbstractEquals 11.9.3
func (it *Interp) AbstractEquals(x, y Value) bool {
	tx, ty := TypeOf(x), TypeOf(y)
	if tx == ty {
		return StrictEquals(x, y)
	}
	switch {
	case (tx == "null" && ty == "undefined") || (tx == "undefined" && ty == "null"):
		return true
	case tx == "number" && ty == "string":
		return x.(float64) == it.ToNumber(y)
	case tx == "string" && ty == "number":
		return it.ToNumber(x) == y.(float64)
	case tx == "boolean":
		return it.AbstractEquals(it.ToNumber(x), y)
	case ty == "boolean":
		return it.AbstractEquals(x, it.ToNumber(y))
	case (tx == "string" || tx == "number") && ty == "object":
		return it.AbstractEquals(x, it.ToPrimitive(y, ""))
	case tx == "object" && (ty == "string" || ty == "number"):
		return it.AbstractEquals(it.ToPrimitive(x, ""), y)
	}
	return false
}

// BinaryOp applies a binary operator to two values (11.5–11.10), operands
// already evaluated left then right.
func (it *Interp) BinaryOp(op string, l, r Value) Value {
	switch op {
	case "+":
		lp := it.ToPrimitive(l, "")
		rp := it.ToPrimitive(r, "")
		_, ls := lp.(string)
		_, rs := rp.(string)
		if ls || rs {
			return it.ToString(lp) + it.ToString(rp)
		}
		return it.ToNumber(lp) + it.ToNumber(rp)
	case "-":
		a := it.ToNumber(l)
		return a - it.ToNumber(r)
	case "*":
		a := it.ToNumber(l)
		return a * it.ToNumber(r)
	case "/":
		a := it.ToNumber(l)
		return a / it.ToNumber(r)
	case "%":
		a := it.ToNumber(l)
		return math.Mod(a, it.ToNumber(r))
	case "<<":
		a := it.ToInt32(l)
		return float64(a << (it.ToUint32(r) & 31))
	case ">>":
		a := it.ToInt32(l)
		return float64(a >> (it.ToUint32(r) & 31))
	case ">>>":
		a := it.ToUint32(l)
		return float64(a >> (it.ToUint32(r) & 31))
	case "&":
		a := it.ToInt32(l)
		return float64(a & it.ToInt32(r))
	case "|":
		a := it.ToInt32(l)
		return float64(a | it.ToInt32(r))
	case "^":
		a := it.ToInt32(l)
		return float64(a ^ it.ToInt32(r))
	case "<":
		return it.compare(l, r, true) == 1
	case ">":
		return it.compare(r, l, false) == 1
	case "<=":
		return it.compare(r, l, false) == 0
	case ">=":
		return it.compare(l, r, true) == 0
	case "==":
		return it.AbstractEquals(l, r)
	case "!=":
		return !it.AbstractEquals(l, r)
	case "===":
		return StrictEquals(l, r)
	case "!==":
		return !StrictEquals(l, r)
	case "instanceof":
		ro, ok := r.(*Obj)
		if !ok {
			it.ThrowError("TypeError", "instanceof: right operand is not an object")
		}
		if ro.Fn == nil {
			it.ThrowError("TypeError", "instanceof: right operand is not callable")
		}
		return it.HasInstance(ro, l)
	case "in":
		ro, ok := r.(*Obj)
		if !ok {
			it.ThrowError("TypeError", "in: right operand is not an object")
		}
		return it.HasProperty(ro, it.ToString(l))
	}
	panic("refjs: unknown operator " + op)
}
