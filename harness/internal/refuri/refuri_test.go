package refuri

import "testing"

func u(s string) []uint16 { // ASCII / BMP literal helper (no surrogates in literals)
	var o []uint16
	for _, r := range s {
		if r >= 0x10000 {
			r -= 0x10000
			o = append(o, uint16(0xD800+(r>>10)), uint16(0xDC00+(r&0x3FF)))
		} else {
			o = append(o, uint16(r))
		}
	}
	return o
}

func eq(a, b []uint16) bool {
	if len(a) != len(b) {
		return false
	}
	for i := range a {
		if a[i] != b[i] {
			return false
		}
	}
	return true
}

func TestEncodeSets(t *testing.T) {
	// 15.1.3.3: encodeURI leaves uriReserved, uriUnescaped and '#' alone
	keep := ";/?:@&=+$,#" + "abcxyzABCXYZ0189" + "-_.!~*'()"
	got, err := EncodeURI(u(keep))
	if err != nil || !eq(got, u(keep)) {
		t.Errorf("encodeURI(keep)=%v %v", got, err)
	}
	// 15.1.3.4: encodeURIComponent escapes the reserved ones and '#'
	got, err = EncodeURIComponent(u(";/?:@&=+$,#"))
	if err != nil || !eq(got, u("%3B%2F%3F%3A%40%26%3D%2B%24%2C%23")) {
		t.Errorf("encodeURIComponent(reserved)=%v", got)
	}
	got, _ = EncodeURIComponent(u("azAZ09-_.!~*'()"))
	if !eq(got, u("azAZ09-_.!~*'()")) {
		t.Error("encodeURIComponent(unescaped)")
	}
	// everything else in ASCII is escaped by both, upper-case hex
	got, _ = EncodeURI(u(" \"%<>[\\]^`{|}\x00\x7f"))
	if !eq(got, u("%20%22%25%3C%3E%5B%5C%5D%5E%60%7B%7C%7D%00%7F")) {
		t.Errorf("encodeURI(others)=%v", got)
	}
}

func TestEncodeUTF8(t *testing.T) {
	for _, c := range []struct {
		in  []uint16
		out string
	}{
		{[]uint16{0x7F}, "%7F"}, {[]uint16{0x80}, "%C2%80"}, {[]uint16{0x7FF}, "%DF%BF"}, {[]uint16{0x800}, "%E0%A0%80"},
		{[]uint16{0x20AC}, "%E2%82%AC"}, {[]uint16{0xD7FF}, "%ED%9F%BF"}, {[]uint16{0xE000}, "%EE%80%80"}, {[]uint16{0xFFFF}, "%EF%BF%BF"},
		{[]uint16{0xD800, 0xDC00}, "%F0%90%80%80"}, {[]uint16{0xDBFF, 0xDFFF}, "%F4%8F%BF%BF"}, {[]uint16{0xD83D, 0xDE00}, "%F0%9F%98%80"},
	} {
		got, err := EncodeURIComponent(c.in)
		if err != nil || !eq(got, u(c.out)) {
			t.Errorf("encode(%x)=%v,%v want %s", c.in, got, err, c.out)
		}
		back, err := DecodeURIComponent(u(c.out))
		if err != nil || !eq(back, c.in) {
			t.Errorf("decode(%s)=%x,%v want %x", c.out, back, err, c.in)
		}
	}
	for _, bad := range [][]uint16{{0xD800}, {0xDC00}, {0xDFFF}, {0xD800, 0x41}, {0x41, 0xDBFF}, {0xDC00, 0xD800}, {0xD800, 0xD800, 0xDC00}} {
		if _, err := EncodeURI(bad); err != ErrURI {
			t.Errorf("encodeURI(%x) must throw", bad)
		}
	}
}

func TestDecode(t *testing.T) {
	// 15.1.3.1: escapes of the reserved set and '#' stay as written (case preserved)
	got, err := DecodeURI(u("%3B%2f%3F%3a%40%26%3D%2B%24%2C%23%41%7e%20"))
	if err != nil || !eq(got, u("%3B%2f%3F%3a%40%26%3D%2B%24%2C%23A~ ")) {
		t.Errorf("decodeURI(reserved)=%v,%v", got, err)
	}
	got, err = DecodeURIComponent(u("%3B%2f%3F%3a%40%26%3D%2B%24%2C%23%41"))
	if err != nil || !eq(got, u(";/?:@&=+$,#A")) {
		t.Errorf("decodeURIComponent(reserved)=%v", got)
	}
	got, _ = DecodeURI(u("a+b%25"))
	if !eq(got, u("a+b%")) {
		t.Error("plus / percent")
	}
	for _, bad := range []string{"%", "%4", "%zz", "%4z", "a%", "%u0041", "%80", "%BF", "%C3", "%C3%", "%C3%4", "%C3A", "%C3%41", "%C3%C3", "%E2%82", "%E2%82%", "%E2%82%4",
		"%C0%80", "%C1%BF", "%E0%80%80", "%E0%9F%BF", "%F0%80%80%80", "%F0%8F%BF%BF", // overlong
		"%ED%A0%80", "%ED%BF%BF", // surrogates
		"%F4%90%80%80", "%F7%BF%BF%BF", // beyond U+10FFFF
		"%F8%88%80%80%80", "%FC%84%80%80%80%80", "%FE", "%FF", // n > 4
	} {
		if _, err := DecodeURI(u(bad)); err != ErrURI {
			t.Errorf("decodeURI(%q) must throw", bad)
		}
		if _, err := DecodeURIComponent(u(bad)); err != ErrURI {
			t.Errorf("decodeURIComponent(%q) must throw", bad)
		}
	}
	// non-escape characters, including unpaired surrogates, pass through
	in := []uint16{0xD800, 'a', 0xDC00, 0x20AC}
	got, err = DecodeURI(in)
	if err != nil || !eq(got, in) {
		t.Error("pass through")
	}
	// lower-case hex is accepted
	got, _ = DecodeURIComponent(u("%e2%82%ac%c3%a9"))
	if !eq(got, []uint16{0x20AC, 0xE9}) {
		t.Error("lower-case hex")
	}
	got, _ = DecodeURI(u("%00%7F"))
	if !eq(got, []uint16{0, 0x7F}) {
		t.Error("controls")
	}
}

func TestRoundTripAllCodePoints(t *testing.T) {
	for cp := 0; cp <= 0x10FFFF; cp++ {
		if cp >= 0xD800 && cp <= 0xDFFF {
			continue
		}
		s := u(string(rune(cp)))
		for _, f := range []struct {
			enc, dec func([]uint16) ([]uint16, error)
		}{{EncodeURI, DecodeURI}, {EncodeURIComponent, DecodeURIComponent}} {
			e, err := f.enc(s)
			if err != nil {
				t.Fatalf("encode U+%X: %v", cp, err)
			}
			d, err := f.dec(e)
			if err != nil || !eq(d, s) {
				t.Fatalf("round trip U+%X: %x -> %x", cp, e, d)
			}
		}
	}
	// escape/unescape over every code unit
	for c := 0; c <= 0xFFFF; c++ {
		s := []uint16{uint16(c)}
		if !eq(Unescape(Escape(s)), s) {
			t.Fatalf("unescape(escape(%x))", c)
		}
	}
}

func TestEscape(t *testing.T) {
	if got := Escape(u("ABCxyz019@*_+-./")); !eq(got, u("ABCxyz019@*_+-./")) {
		t.Errorf("escape(set)=%v", got)
	}
	if got := Escape(u(" !\"#$%&'(),:;<=>?[\\]^`{|}~")); !eq(got, u("%20%21%22%23%24%25%26%27%28%29%2C%3A%3B%3C%3D%3E%3F%5B%5C%5D%5E%60%7B%7C%7D%7E")) {
		t.Errorf("escape(ascii others)=%v", string(rune(0)))
	}
	if got := Escape([]uint16{0xE9, 0xFF, 0x100, 0x20AC, 0xD83D, 0xDE00, 0}); !eq(got, u("%E9%FF%u0100%u20AC%uD83D%uDE00%00")) {
		t.Errorf("escape(non-ascii)=%v", got)
	}
}

func TestUnescape(t *testing.T) {
	for _, c := range []struct {
		in  string
		out []uint16
	}{
		{"%u0041%41", []uint16{0x41, 0x41}}, {"%u00e9%E9%e9", []uint16{0xE9, 0xE9, 0xE9}}, {"%uD83D%uDE00", []uint16{0xD83D, 0xDE00}}, {"%uD800", []uint16{0xD800}},
		{"%", u("%")}, {"%4", u("%4")}, {"%zz", u("%zz")}, {"%u004", u("%u004")}, {"%u00", u("%u00")}, {"%u", u("%u")}, {"%%41", u("%A")}, {"%u00g1", u("%u00g1")},
		{"%ug041", u("%ug041")}, {"%uABCDE", []uint16{0xABCD, 'E'}}, {"a%20b", u("a b")}, {"%u004%41", u("%u004A")}, {"%4%41", u("%4A")}, {"%ue9", u("%ue9")},
	} {
		if got := Unescape(u(c.in)); !eq(got, c.out) {
			t.Errorf("unescape(%q)=%x want %x", c.in, got, c.out)
		}
	}
	// "%ue9": %u + not 4 hex -> step 14: %XX with XX="ue" not hex -> '%' literal
	in := []uint16{0xE9, 0x20AC, 0xD800}
	if !eq(Unescape(in), in) {
		t.Error("pass through")
	}
}

func TestWellFormed(t *testing.T) {
	if !WellFormed([]uint16{0x41, 0xD800, 0xDC00, 0xFFFF}) || WellFormed([]uint16{0xD800}) || WellFormed([]uint16{0xDC00, 0xD800}) || WellFormed([]uint16{0xD800, 0x41}) {
		t.Error("WellFormed")
	}
}
