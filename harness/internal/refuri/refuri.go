// Package refuri is ES5.1 15.1.3 (URI handling: Encode / Decode and the four
// functions built on them) and Annex B.2.1 / B.2.2 (escape / unescape),
// written from the specification text over sequences of UTF-16 code units.
// It does not use net/url, unicode/utf8, unicode/utf16 or encoding/hex.
package refuri

import "errors"

// ErrURI stands for a thrown URIError.
var ErrURI = errors.New("URIError")

func in(set string, c uint16) bool {
	if c >= 0x80 {
		return false
	}
	for i := 0; i < len(set); i++ {
		if set[i] == byte(c) {
			return true
		}
	}
	return false
}

// The grammar of 15.1.3.
const (
	uriReserved  = ";/?:@&=+$,"
	uriAlpha     = "abcdefghijklmnopqrstuvwxyzABCDEFGHIJKLMNOPQRSTUVWXYZ"
	decimalDigit = "0123456789"
	uriMark      = "-_.!~*'()"
	uriUnescaped = uriAlpha + decimalDigit + uriMark
)

// Reserved sets / unescaped sets of 15.1.3.1 - 15.1.3.4.
const (
	DecodeURIReserved           = uriReserved + "#" // 15.1.3.1
	DecodeURIComponentReserved  = ""                // 15.1.3.2
	EncodeURIUnescaped          = uriReserved + uriUnescaped + "#"
	EncodeURIComponentUnescaped = uriUnescaped
)

const hexUpper = "0123456789ABCDEF"

func hexVal(c uint16) (uint32, bool) {
	switch {
	case c >= '0' && c <= '9':
		return uint32(c - '0'), true
	case c >= 'a' && c <= 'f':
		return uint32(c-'a') + 10, true
	case c >= 'A' && c <= 'F':
		return uint32(c-'A') + 10, true
	}
	return 0, false
}

// utf8Octets is the UTF-8 transformation of Table 21 for a code point.
func utf8Octets(v uint32) []byte {
	switch {
	case v <= 0x7F:
		return []byte{byte(v)}
	case v <= 0x7FF:
		return []byte{0xC0 | byte(v>>6), 0x80 | byte(v&0x3F)}
	case v <= 0xFFFF:
		return []byte{0xE0 | byte(v>>12), 0x80 | byte((v>>6)&0x3F), 0x80 | byte(v&0x3F)}
	}
	return []byte{0xF0 | byte(v>>18), 0x80 | byte((v>>12)&0x3F), 0x80 | byte((v>>6)&0x3F), 0x80 | byte(v&0x3F)}
}

// Encode is the abstract operation Encode(string, unescapedSet) of 15.1.3.
func Encode(str []uint16, unescapedSet string) ([]uint16, error) {
	strLen := len(str)
	var r []uint16
	for k := 0; k < strLen; k++ {
		c := str[k]
		if in(unescapedSet, c) {
			r = append(r, c)
			continue
		}
		if c >= 0xDC00 && c <= 0xDFFF {
			return nil, ErrURI
		}
		var v uint32
		if c < 0xD800 || c > 0xDBFF {
			v = uint32(c)
		} else {
			k++
			if k == strLen {
				return nil, ErrURI
			}
			kChar := str[k]
			if kChar < 0xDC00 || kChar > 0xDFFF {
				return nil, ErrURI
			}
			v = (uint32(c)-0xD800)*0x400 + (uint32(kChar) - 0xDC00) + 0x10000
		}
		for _, o := range utf8Octets(v) {
			r = append(r, '%', uint16(hexUpper[o>>4]), uint16(hexUpper[o&15]))
		}
	}
	return r, nil
}

// Decode is the abstract operation Decode(string, reservedSet) of 15.1.3.
func Decode(str []uint16, reservedSet string) ([]uint16, error) {
	strLen := len(str)
	var r []uint16
	hexAt := func(k int) (byte, bool) {
		h, ok1 := hexVal(str[k+1])
		l, ok2 := hexVal(str[k+2])
		return byte(h<<4 | l), ok1 && ok2
	}
	for k := 0; k < strLen; k++ {
		c := str[k]
		if c != '%' {
			r = append(r, c)
			continue
		}
		start := k
		if k+2 >= strLen {
			return nil, ErrURI
		}
		b, ok := hexAt(k)
		if !ok {
			return nil, ErrURI
		}
		k += 2
		if b&0x80 == 0 {
			if !in(reservedSet, uint16(b)) {
				r = append(r, uint16(b))
			} else {
				r = append(r, str[start:k+1]...)
			}
			continue
		}
		n := 0
		for (b<<uint(n))&0x80 != 0 {
			n++
		}
		if n == 1 || n > 4 {
			return nil, ErrURI
		}
		octets := []byte{b}
		if k+3*(n-1) >= strLen {
			return nil, ErrURI
		}
		for j := 1; j < n; j++ {
			k++
			if str[k] != '%' {
				return nil, ErrURI
			}
			b, ok := hexAt(k)
			if !ok {
				return nil, ErrURI
			}
			if b&0xC0 != 0x80 {
				return nil, ErrURI
			}
			k += 2
			octets = append(octets, b)
		}
		// "Let V be the value obtained by applying the UTF-8 transformation to
		// Octets ... If Octets does not contain a valid UTF-8 encoding of a
		// Unicode code point throw a URIError exception."
		var v uint32
		switch n {
		case 2:
			v = uint32(octets[0]&0x1F)<<6 | uint32(octets[1]&0x3F)
			if v < 0x80 {
				return nil, ErrURI // overlong
			}
		case 3:
			v = uint32(octets[0]&0x0F)<<12 | uint32(octets[1]&0x3F)<<6 | uint32(octets[2]&0x3F)
			if v < 0x800 || (v >= 0xD800 && v <= 0xDFFF) {
				return nil, ErrURI // overlong or surrogate
			}
		case 4:
			v = uint32(octets[0]&0x07)<<18 | uint32(octets[1]&0x3F)<<12 | uint32(octets[2]&0x3F)<<6 | uint32(octets[3]&0x3F)
			if v < 0x10000 || v > 0x10FFFF {
				return nil, ErrURI // overlong or beyond Unicode
			}
		}
		if v < 0x10000 {
			if !in(reservedSet, uint16(v)) {
				r = append(r, uint16(v))
			} else {
				r = append(r, str[start:k+1]...)
			}
		} else {
			l := uint16((v-0x10000)&0x3FF) + 0xDC00
			h := uint16(((v-0x10000)>>10)&0x3FF) + 0xD800
			r = append(r, h, l)
		}
	}
	return r, nil
}

func EncodeURI(s []uint16) ([]uint16, error)          { return Encode(s, EncodeURIUnescaped) }
func EncodeURIComponent(s []uint16) ([]uint16, error) { return Encode(s, EncodeURIComponentUnescaped) }
func DecodeURI(s []uint16) ([]uint16, error)          { return Decode(s, DecodeURIReserved) }
func DecodeURIComponent(s []uint16) ([]uint16, error) { return Decode(s, DecodeURIComponentReserved) }

// escapeSet is the 69 characters of B.2.1 step 6.
const escapeSet = "ABCDEFGHIJKLMNOPQRSTUVWXYZabcdefghijklmnopqrstuvwxyz0123456789@*_+-./"

// Escape is B.2.1.
func Escape(str []uint16) []uint16 {
	var r []uint16
	for _, c := range str {
		switch {
		case in(escapeSet, c):
			r = append(r, c)
		case c < 256:
			r = append(r, '%', uint16(hexUpper[c>>4]), uint16(hexUpper[c&15]))
		default:
			r = append(r, '%', 'u', uint16(hexUpper[c>>12]), uint16(hexUpper[(c>>8)&15]), uint16(hexUpper[(c>>4)&15]), uint16(hexUpper[c&15]))
		}
	}
	return r
}

// Unescape is B.2.2 (step numbers in the comments).
func Unescape(str []uint16) []uint16 {
	n := len(str)
	var r []uint16
	for k := 0; k < n; k++ {
		c := str[k]
		if c == '%' { // 6
			done := false
			if k <= n-6 && str[k+1] == 'u' { // 7, 8
				var v uint32
				ok := true
				for i := 2; i <= 5; i++ { // 9
					h, isHex := hexVal(str[k+i])
					ok = ok && isHex
					v = v<<4 | h
				}
				if ok {
					c = uint16(v) // 10
					k += 5        // 11
					done = true
				}
			}
			if !done && k <= n-3 { // 14
				h, ok1 := hexVal(str[k+1])
				l, ok2 := hexVal(str[k+2])
				if ok1 && ok2 { // 15
					c = uint16(h<<4 | l) // 16
					k += 2               // 17
				}
			}
		}
		r = append(r, c) // 18
	}
	return r
}

// WellFormed: no unpaired surrogate code unit.
func WellFormed(s []uint16) bool {
	for i := 0; i < len(s); i++ {
		c := s[i]
		switch {
		case c >= 0xD800 && c <= 0xDBFF:
			if i+1 >= len(s) || s[i+1] < 0xDC00 || s[i+1] > 0xDFFF {
				return false
			}
			i++
		case c >= 0xDC00 && c <= 0xDFFF:
			return false
		}
	}
	return true
}
