// Package refnum is an arbitrary-precision reference model of the ES5.1
// Number <-> text conversions, written from the specification text:
//
//	9.8.1   ToString applied to the Number type (shortest digits + layout)
//	15.7.4.2 Number.prototype.toString(radix) for integer-valued doubles
//	15.7.4.5 toFixed, 15.7.4.6 toExponential, 15.7.4.7 toPrecision
//	9.3.1   ToNumber applied to the String type
//	15.1.2.2 parseInt, 15.1.2.3 parseFloat
//	7.8.3   NumericLiteral (+ B.1.1 legacy octal)
//
// It uses math/big and bit-level access to doubles only. It deliberately does
// NOT use strconv or fmt for any float formatting/parsing (otto delegates to
// strconv; the oracle must be independent of it).
package refnum

import (
	"math"
	"math/big"
	"strings"
	"sync"
)

// ------------------------------------------------------------------ basics

var (
	bigOne = big.NewInt(1)
	bigTwo = big.NewInt(2)
	bigTen = big.NewInt(10)
)

var pow10cache struct {
	sync.Mutex
	p []*big.Int
}

// Pow10 returns 10^n (n >= 0) as a shared, read-only big.Int.
func Pow10(n int) *big.Int {
	if n < 0 {
		panic("refnum.Pow10: negative")
	}
	pow10cache.Lock()
	defer pow10cache.Unlock()
	for len(pow10cache.p) <= n {
		if len(pow10cache.p) == 0 {
			pow10cache.p = append(pow10cache.p, big.NewInt(1))
			continue
		}
		last := pow10cache.p[len(pow10cache.p)-1]
		pow10cache.p = append(pow10cache.p, new(big.Int).Mul(last, bigTen))
	}
	return pow10cache.p[n]
}

func pow2(n int) *big.Int { return new(big.Int).Lsh(bigOne, uint(n)) }

// Finite reports whether x is neither NaN nor infinite.
func Finite(x float64) bool { return x == x && !math.IsInf(x, 0) }

// Decompose returns (m, e) with |x| = m * 2^e exactly, m < 2^53, for finite x.
func Decompose(x float64) (m uint64, e int) {
	b := math.Float64bits(x)
	frac := b & (1<<52 - 1)
	eb := int(b>>52) & 0x7ff
	if eb == 0 {
		return frac, -1074
	}
	return frac | 1<<52, eb - 1075
}

// Exact returns |x| as an exact rational (finite x).
func Exact(x float64) *big.Rat {
	m, e := Decompose(x)
	r := new(big.Rat).SetInt(new(big.Int).SetUint64(m))
	if e >= 0 {
		return r.Mul(r, new(big.Rat).SetInt(pow2(e)))
	}
	return r.Quo(r, new(big.Rat).SetInt(pow2(-e)))
}

// RoundRat rounds a non-negative rational to the nearest double, ties to
// even (IEEE 754 roundTiesToEven; ES5 8.5 "the Number value for x"): values
// >= 2^1024 - 2^970 (the midpoint beyond MaxFloat64) round to +Inf.
func RoundRat(r *big.Rat) float64 {
	if r.Sign() < 0 {
		panic("refnum.RoundRat: negative")
	}
	return roundFrac(r.Num(), r.Denom())
}

// roundFrac rounds a/b (a>=0, b>0).
func roundFrac(a, b *big.Int) float64 {
	if a.Sign() == 0 {
		return 0
	}
	// choose e so that 2^52 <= a/(b*2^e) < 2^53, but e >= -1074.
	e := a.BitLen() - b.BitLen() - 53
	var q, rem, num, den *big.Int
	for iter := 0; ; iter++ {
		if e < -1074 {
			e = -1074
		}
		num, den = a, b
		if e < 0 {
			num = new(big.Int).Lsh(a, uint(-e))
		} else if e > 0 {
			den = new(big.Int).Lsh(b, uint(e))
		}
		q, rem = new(big.Int).QuoRem(num, den, new(big.Int))
		bl := q.BitLen()
		if bl > 53 {
			e++
			continue
		}
		if bl < 53 && e > -1074 {
			e--
			continue
		}
		break
	}
	// round to nearest, ties to even
	c := new(big.Int).Lsh(rem, 1).Cmp(den)
	if c > 0 || (c == 0 && q.Bit(0) == 1) {
		q.Add(q, bigOne)
	}
	// q <= 2^53 is exactly representable; Ldexp is exact (or overflows to +Inf).
	return math.Ldexp(float64(q.Uint64()), e)
}

// ToInteger is ES5 9.4 on a number.
func ToInteger(x float64) float64 {
	if x != x {
		return 0
	}
	if x == 0 || math.IsInf(x, 0) {
		return x
	}
	return math.Trunc(x)
}

// ToInt32 is ES5 9.5 on a number.
func ToInt32(x float64) int32 {
	if !Finite(x) || x == 0 {
		return 0
	}
	t := math.Trunc(x)
	m := math.Mod(t, 4294967296)
	if m < 0 {
		m += 4294967296
	}
	if m >= 2147483648 {
		m -= 4294967296
	}
	return int32(m)
}

// cmpPow10 compares |x| = m*2^e with 10^n (n may be negative).
func cmpPow10(m uint64, e int, n int) int {
	l := new(big.Int).SetUint64(m)
	r := big.NewInt(1)
	if e >= 0 {
		l.Lsh(l, uint(e))
	} else {
		r.Lsh(r, uint(-e))
	}
	if n >= 0 {
		r.Mul(r, Pow10(n))
	} else {
		l.Mul(l, Pow10(-n))
	}
	return l.Cmp(r)
}

// Magnitude returns n with 10^(n-1) <= |x| < 10^n for finite non-zero x.
func Magnitude(x float64) int {
	m, e := Decompose(x)
	bl := 64 - leadingZeros(m) + e // 2^(bl-1) <= x < 2^bl
	n := int(math.Floor(float64(bl-1)*0.30102999566398119521)) + 1
	for cmpPow10(m, e, n) >= 0 { // x >= 10^n
		n++
	}
	for cmpPow10(m, e, n-1) < 0 { // x < 10^(n-1)
		n--
	}
	return n
}

func leadingZeros(m uint64) int {
	n := 0
	for i := 63; i >= 0; i-- {
		if m>>uint(i)&1 == 1 {
			break
		}
		n++
	}
	return n
}

// ------------------------------------------------------------------ 9.8.1

// Shortest computes, for finite x > 0, the ES5 9.8.1 step 5 triple: the
// smallest k such that some k-digit integer s with "the Number value for
// s*10^(n-k)" equal to x exists. It returns the digit string of the s that is
// closest to x (the NOTE's recommendation; ties -> even s), its n, and, as
// complete 9.8.1 strings, every admissible (s, n) of that minimal length (the
// normative set: the least significant digit is "not necessarily uniquely
// determined").
func Shortest(x float64) (digits string, n int, all []string) {
	if !(x > 0) || math.IsInf(x, 0) {
		panic("refnum.Shortest: need finite x > 0")
	}
	m, e := Decompose(x)
	// Work in units of 2^(e-2): X = 4m, upper midpoint 4m+2, lower midpoint
	// 4m-2, or 4m-1 when x is a power of two with a narrower gap below.
	b := math.Float64bits(x)
	narrow := b&(1<<52-1) == 0 && (b>>52)&0x7ff > 1
	X := new(big.Int).SetUint64(m)
	X.Lsh(X, 2)
	HI := new(big.Int).Add(X, bigTwo)
	LO := new(big.Int).Sub(X, bigTwo)
	if narrow {
		LO.Sub(X, bigOne)
	}
	inclusive := m&1 == 0 // ties go to the even significand
	n0 := Magnitude(x)
	type cand struct {
		s    *big.Int
		n    int
		dist *big.Rat // |s*10^(n-k) - x| in units of 2^(e-2)
	}
	xr := new(big.Rat).SetInt(X)
	for k := 1; k <= 17; k++ {
		var cands []cand
		// 10^(n-1) <= s*10^(n-k) < 10^n; the rounding interval of x lies within
		// [10^(n0-2), 10^(n0+1)), so only these n can occur. (For subnormals the
		// interval is wide enough that two different n may both have candidates.)
		for _, nn := range []int{n0 - 1, n0, n0 + 1} {
			t := nn - k
			// s*10^t = V*2^(e-2)  <=>  s*B = V*A
			A := big.NewInt(1) // multiplies V
			B := big.NewInt(1) // multiplies s
			if e-2 >= 0 {
				A.Lsh(A, uint(e-2))
			} else {
				B.Lsh(B, uint(2-e))
			}
			if t >= 0 {
				B.Mul(B, Pow10(t))
			} else {
				A.Mul(A, Pow10(-t))
			}
			lo := new(big.Int).Mul(LO, A)
			hi := new(big.Int).Mul(HI, A)
			smin, r := new(big.Int).QuoRem(lo, B, new(big.Int))
			if r.Sign() != 0 || !inclusive {
				smin.Add(smin, bigOne) // ceil, or strictly greater
			}
			smax, r2 := new(big.Int).QuoRem(hi, B, new(big.Int))
			if r2.Sign() == 0 && !inclusive {
				smax.Sub(smax, bigOne)
			}
			if pl := Pow10(k - 1); smin.Cmp(pl) < 0 {
				smin = new(big.Int).Set(pl)
			}
			if ph := new(big.Int).Sub(Pow10(k), bigOne); smax.Cmp(ph) > 0 {
				smax = ph
			}
			for s := new(big.Int).Set(smin); s.Cmp(smax) <= 0; s = new(big.Int).Add(s, bigOne) {
				d := new(big.Rat).SetFrac(new(big.Int).Mul(s, B), A)
				d.Sub(d, xr)
				d.Abs(d)
				cands = append(cands, cand{s: s, n: nn, dist: d})
			}
		}
		if len(cands) == 0 {
			continue
		}
		best := 0
		for i := 1; i < len(cands); i++ {
			c := cands[i].dist.Cmp(cands[best].dist)
			if c < 0 || (c == 0 && cands[i].s.Bit(0) == 0) {
				best = i
			}
		}
		for _, c := range cands {
			all = append(all, Layout(c.s.Text(10), c.n))
		}
		return cands[best].s.Text(10), cands[best].n, all
	}
	panic("refnum.Shortest: no 17-digit representation (impossible)")
}

// Layout applies 9.8.1 steps 6-10 to a digit string (k digits) and n.
func Layout(digits string, n int) string {
	k := len(digits)
	switch {
	case k <= n && n <= 21:
		return digits + strings.Repeat("0", n-k)
	case 0 < n && n <= 21:
		return digits[:n] + "." + digits[n:]
	case -6 < n && n <= 0:
		return "0." + strings.Repeat("0", -n) + digits
	}
	return ExpLayout(digits, n)
}

// ExpLayout is 9.8.1 steps 9-10 (exponential form) regardless of n.
func ExpLayout(digits string, n int) string {
	ex := n - 1
	sign := "+"
	if ex < 0 {
		sign = "-"
		ex = -ex
	}
	es := big.NewInt(int64(ex)).Text(10)
	if len(digits) == 1 {
		return digits + "e" + sign + es
	}
	return digits[:1] + "." + digits[1:] + "e" + sign + es
}

// FixedLayout writes digits*10^(n-k) in positional notation regardless of n
// (the layout 9.8.1 uses for -6 < n <= 21), used by deviation models.
func FixedLayout(digits string, n int) string {
	k := len(digits)
	switch {
	case k <= n:
		return digits + strings.Repeat("0", n-k)
	case 0 < n:
		return digits[:n] + "." + digits[n:]
	}
	return "0." + strings.Repeat("0", -n) + digits
}

// ToString is ES5 9.8.1.
func ToString(x float64) string {
	switch {
	case x != x:
		return "NaN"
	case x == 0:
		return "0"
	case x < 0:
		return "-" + ToString(-x)
	case math.IsInf(x, 1):
		return "Infinity"
	}
	d, n, _ := Shortest(x)
	return Layout(d, n)
}

// ToStringAll returns every string 9.8.1 admits for x (normally one).
func ToStringAll(x float64) []string {
	if !Finite(x) || x == 0 {
		return []string{ToString(x)}
	}
	sign := ""
	if x < 0 {
		sign, x = "-", -x
	}
	_, _, all := Shortest(x)
	out := make([]string, len(all))
	for i, d := range all {
		out[i] = sign + d
	}
	return out
}

// ExactDecimal returns the exact positional decimal expansion of finite |x|.
func ExactDecimal(x float64) string {
	m, e := Decompose(x)
	mi := new(big.Int).SetUint64(m)
	if e >= 0 {
		return mi.Lsh(mi, uint(e)).Text(10)
	}
	// m / 2^-e = m*5^-e / 10^-e
	f := -e
	mi.Mul(mi, new(big.Int).Exp(big.NewInt(5), big.NewInt(int64(f)), nil))
	s := mi.Text(10)
	if len(s) <= f {
		s = strings.Repeat("0", f-len(s)+1) + s
	}
	ip, fp := s[:len(s)-f], strings.TrimRight(s[len(s)-f:], "0")
	if fp == "" {
		return ip
	}
	return ip + "." + fp
}

// ------------------------------------------------------------------ 15.7.4.2

// IsInteger reports whether finite x has no fractional part.
func IsInteger(x float64) bool { return Finite(x) && x == math.Trunc(x) }

// BigInt returns the exact integer value of an integer-valued double.
func BigInt(x float64) *big.Int {
	m, e := Decompose(x)
	v := new(big.Int).SetUint64(m)
	if e >= 0 {
		v.Lsh(v, uint(e))
	} else {
		v.Rsh(v, uint(-e))
	}
	if x < 0 {
		v.Neg(v)
	}
	return v
}

const digitChars = "0123456789abcdefghijklmnopqrstuvwxyz"

// IntText writes a non-negative integer in the given radix (own digit loop).
func IntText(v *big.Int, radix int) string {
	if v.Sign() == 0 {
		return "0"
	}
	neg := v.Sign() < 0
	q := new(big.Int).Abs(v)
	r := new(big.Int)
	br := big.NewInt(int64(radix))
	var buf []byte
	for q.Sign() > 0 {
		q.QuoRem(q, br, r)
		buf = append(buf, digitChars[r.Int64()])
	}
	for i, j := 0, len(buf)-1; i < j; i, j = i+1, j-1 {
		buf[i], buf[j] = buf[j], buf[i]
	}
	if neg {
		return "-" + string(buf)
	}
	return string(buf)
}

// ToStringRadix is 15.7.4.2 for the cases ES5 defines exactly: radix 10
// (= ToString), NaN/Infinity/zero, and integer-valued x. ok=false for
// non-integers with radix != 10 (implementation-dependent).
func ToStringRadix(x float64, radix int) (s string, ok bool) {
	if radix == 10 {
		return ToString(x), true
	}
	switch {
	case x != x:
		return "NaN", true
	case x == 0:
		return "0", true
	case math.IsInf(x, 1):
		return "Infinity", true
	case math.IsInf(x, -1):
		return "-Infinity", true
	}
	if !IsInteger(x) {
		return "", false
	}
	return IntText(BigInt(x), radix), true
}

// RadixValue parses [-]digits[.digits] in the given radix to an exact
// rational (nil when s is not of that form). Used for the weak check on
// non-integer radix conversions.
func RadixValue(s string, radix int) (neg bool, r *big.Rat) {
	if strings.HasPrefix(s, "-") {
		neg, s = true, s[1:]
	}
	ip, fp := s, ""
	if i := strings.IndexByte(s, '.'); i >= 0 {
		ip, fp = s[:i], s[i+1:]
		if fp == "" {
			return neg, nil
		}
	}
	if ip == "" {
		return neg, nil
	}
	num := new(big.Int)
	br := big.NewInt(int64(radix))
	for _, c := range ip + fp {
		d := strings.IndexRune(digitChars, c)
		if d < 0 || d >= radix {
			return neg, nil
		}
		num.Mul(num, br)
		num.Add(num, big.NewInt(int64(d)))
	}
	den := new(big.Int).Exp(br, big.NewInt(int64(len(fp))), nil)
	return neg, new(big.Rat).SetFrac(num, den)
}

// ------------------------------------------------------------------ 15.7.4.5-7

// roundScaled returns the integer n for which n - x*10^f is as close to zero
// as possible; if there are two such n, the larger (x finite, >= 0; f may be
// negative).
func roundScaled(x float64, f int) *big.Int { return roundScaledMode(x, f, false) }

// roundScaledMode is roundScaled with a selectable tie rule: halfEven=false is
// the ES5 rule (the larger n); halfEven=true picks the even n instead (the
// IEEE/strconv rule - used only by deviation models of known defects).
func roundScaledMode(x float64, f int, halfEven bool) *big.Int {
	m, e := Decompose(x)
	num := new(big.Int).SetUint64(m)
	den := big.NewInt(1)
	if e >= 0 {
		num.Lsh(num, uint(e))
	} else {
		den.Lsh(den, uint(-e))
	}
	if f >= 0 {
		num.Mul(num, Pow10(f))
	} else {
		den.Mul(den, Pow10(-f))
	}
	q, r := new(big.Int).QuoRem(num, den, new(big.Int))
	c := new(big.Int).Lsh(r, 1).Cmp(den)
	if c > 0 || (c == 0 && (!halfEven || q.Bit(0) == 1)) {
		q.Add(q, bigOne)
	}
	return q
}

// IsTieScaled reports whether x*10^f lies exactly half way between two
// integers (the case where "pick the larger n" matters).
func IsTieScaled(x float64, f int) bool {
	m, e := Decompose(math.Abs(x))
	num := new(big.Int).SetUint64(m)
	den := big.NewInt(1)
	if e >= 0 {
		num.Lsh(num, uint(e))
	} else {
		den.Lsh(den, uint(-e))
	}
	if f >= 0 {
		num.Mul(num, Pow10(f))
	} else {
		den.Mul(den, Pow10(-f))
	}
	r := new(big.Int).Rem(num, den)
	return r.Sign() != 0 && new(big.Int).Lsh(r, 1).Cmp(den) == 0
}

// ToFixed is 15.7.4.5 steps 3-10 for an already validated f (0..20; larger f
// follows the same algorithm, for implementations that extend the range).
func ToFixed(x float64, f int) string { return ToFixedMode(x, f, false) }

// ToFixedMode is ToFixed with a selectable tie rule (see roundScaledMode).
func ToFixedMode(x float64, f int, halfEven bool) string {
	if x != x {
		return "NaN"
	}
	s := ""
	if x < 0 {
		s, x = "-", -x
	}
	if x >= 1e21 {
		return s + ToString(x)
	}
	n := roundScaledMode(x, f, halfEven)
	m := n.Text(10) // "0" when n = 0
	if f != 0 {
		k := len(m)
		if k <= f {
			m = strings.Repeat("0", f+1-k) + m
			k = f + 1
		}
		m = m[:k-f] + "." + m[k-f:]
	}
	return s + m
}

// DigitsExp returns the (f+1)-digit string of n and the exponent e with
// 10^f <= n < 10^(f+1) and n*10^(e-f) - x as close to zero as possible, the
// larger n*10^(e-f) on ties (15.7.4.6 step 9.b / 15.7.4.7 step 10.a); x finite > 0.
func DigitsExp(x float64, f int) (string, int) { return DigitsExpMode(x, f, false) }

// DigitsExpMode is DigitsExp with a selectable tie rule (see roundScaledMode).
func DigitsExpMode(x float64, f int, halfEven bool) (string, int) {
	e := Magnitude(x) - 1 // 10^e <= x < 10^(e+1)
	n := roundScaledMode(x, f-e, halfEven)
	if n.Cmp(Pow10(f+1)) >= 0 { // rounded up to the next power of ten
		n = new(big.Int).Set(Pow10(f))
		e++
	}
	return n.Text(10), e
}

// IsTieDigits reports whether x is exactly half way between two (f+1)-digit
// decimal floating values.
func IsTieDigits(x float64, f int) bool {
	if !Finite(x) || x == 0 {
		return false
	}
	e := Magnitude(math.Abs(x)) - 1
	return IsTieScaled(x, f-e)
}

func expSuffix(e int) string {
	c := "+"
	if e < 0 {
		c, e = "-", -e
	}
	return "e" + c + big.NewInt(int64(e)).Text(10)
}

// ToExponential is 15.7.4.6 steps 3-6 and 8-14. undef selects "as many
// significand digits as necessary"; otherwise f fraction digits.
func ToExponential(x float64, f int, undef bool) string {
	if x != x {
		return "NaN"
	}
	s := ""
	if x < 0 {
		s, x = "-", -x
	}
	if math.IsInf(x, 1) {
		return s + "Infinity"
	}
	var m string
	var e int
	if x == 0 {
		if undef {
			f = 0
		}
		m, e = strings.Repeat("0", f+1), 0
	} else if undef {
		var n int
		m, n, _ = Shortest(x)
		e = n - 1
		f = len(m) - 1
	} else {
		m, e = DigitsExp(x, f)
	}
	if f != 0 {
		m = m[:1] + "." + m[1:]
	}
	return s + m + expSuffix(e)
}

// ToPrecision is 15.7.4.7 steps 4-7 and 9-15 for an already validated p >= 1.
func ToPrecision(x float64, p int) string {
	if x != x {
		return "NaN"
	}
	s := ""
	if x < 0 {
		s, x = "-", -x
	}
	if math.IsInf(x, 1) {
		return s + "Infinity"
	}
	var m string
	var e int
	if x == 0 {
		m, e = strings.Repeat("0", p), 0
	} else {
		m, e = DigitsExp(x, p-1)
		if e < -6 || e >= p {
			if p != 1 {
				m = m[:1] + "." + m[1:]
			}
			return s + m + expSuffix(e)
		}
	}
	if e == p-1 {
		return s + m
	}
	if e >= 0 {
		return s + m[:e+1] + "." + m[e+1:]
	}
	return s + "0." + strings.Repeat("0", -(e+1)) + m
}
