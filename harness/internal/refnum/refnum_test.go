package refnum

import (
	"math"
	"math/big"
	"strconv"
	"testing"
)

// The tests pin the model on facts stated in (or directly derivable from) the
// ES5.1 text, and cross-check its two numeric kernels (RoundRat, Shortest)
// against independent implementations (math/big's Rat.Float64, and - in the
// test only, never in the oracle - strconv).

var pointOne, pointTwo = 0.1, 0.2 // variables: Go folds constant 0.1+0.2 exactly

func TestToStringFacts(t *testing.T) {
	cases := []struct {
		x float64
		s string
	}{
		{pointOne + pointTwo, "0.30000000000000004"},
		{5e-324, "5e-324"},
		{1e21, "1e+21"},
		{123456789012345680000, "123456789012345680000"},
		{999999999999999900000, "999999999999999900000"},
		{1e-6, "0.000001"},
		{1e-7, "1e-7"},
		{1.5e-7, "1.5e-7"},
		{0.000001234, "0.000001234"},
		{math.Copysign(0, -1), "0"},
		{0, "0"},
		{-1.5, "-1.5"},
		{math.NaN(), "NaN"},
		{math.Inf(1), "Infinity"},
		{math.Inf(-1), "-Infinity"},
		{1.7976931348623157e308, "1.7976931348623157e+308"},
		{2.2250738585072014e-308, "2.2250738585072014e-308"},
		{9007199254740992, "9007199254740992"},
		{9007199254740993, "9007199254740992"},
		{1e23, "1e+23"},
		{100, "100"},
		{123.456, "123.456"},
		{4294967296, "4294967296"},
		{0.5, "0.5"},
		{1 / 3.0, "0.3333333333333333"},
		{2 / 3.0, "0.6666666666666666"},
		{9.5367431640625e-7, "9.5367431640625e-7"},
		{4.35, "4.35"},
		{5e-7, "5e-7"},
		{123456789e-15, "1.23456789e-7"},
	}
	for _, c := range cases {
		if got := ToString(c.x); got != c.s {
			t.Errorf("ToString(%b) = %q, want %q", c.x, got, c.s)
		}
	}
}

func TestRoundRatAgainstBigAndNeighbours(t *testing.T) {
	seed := uint64(12345)
	next := func() uint64 {
		seed += 0x9e3779b97f4a7c15
		z := seed
		z = (z ^ (z >> 30)) * 0xbf58476d1ce4e5b9
		z = (z ^ (z >> 27)) * 0x94d049bb133111eb
		return z ^ (z >> 31)
	}
	for i := 0; i < 20000; i++ {
		x := math.Float64frombits(next() &^ (1 << 63))
		if !Finite(x) {
			continue
		}
		if i%4 == 0 { // subnormals and smallest normals
			x = math.Float64frombits(next() >> 11 >> uint(next()%53))
		}
		// exact value rounds to itself
		if got := RoundRat(Exact(x)); got != x {
			t.Fatalf("RoundRat(Exact(%b)) = %b", x, got)
		}
		up := math.Nextafter(x, math.Inf(1))
		if math.IsInf(up, 1) {
			continue
		}
		// the midpoint between x and its upper neighbour goes to the even one
		mid := new(big.Rat).Add(Exact(x), Exact(up))
		mid.Quo(mid, big.NewRat(2, 1))
		want := x
		if math.Float64bits(x)&1 == 1 {
			want = up
		}
		if got := RoundRat(mid); got != want {
			t.Fatalf("midpoint above %b rounded to %b, want %b", x, got, want)
		}
		// just below / above the midpoint
		eps := new(big.Rat).SetFrac(big.NewInt(1), new(big.Int).Lsh(big.NewInt(1), 1200))
		if got := RoundRat(new(big.Rat).Sub(mid, eps)); got != x {
			t.Fatalf("below midpoint above %b -> %b", x, got)
		}
		if got := RoundRat(new(big.Rat).Add(mid, eps)); got != up {
			t.Fatalf("above midpoint above %b -> %b", x, got)
		}
		// independent implementation: big.Rat.Float64 (nearest even)
		r := new(big.Rat).Add(mid, new(big.Rat).SetFrac(big.NewInt(int64(next()%1000)-500), new(big.Int).Lsh(big.NewInt(1), 1100)))
		if r.Sign() >= 0 {
			bf, _ := r.Float64()
			if got := RoundRat(r); got != bf {
				t.Fatalf("RoundRat disagrees with big.Rat.Float64 on %v: %b vs %b", r, got, bf)
			}
		}
	}
	// overflow boundary: 2^1024 - 2^970 is the first value rounding to +Inf
	lim := new(big.Int).Sub(new(big.Int).Lsh(big.NewInt(1), 1024), new(big.Int).Lsh(big.NewInt(1), 970))
	if got := roundFrac(lim, big.NewInt(1)); !math.IsInf(got, 1) {
		t.Errorf("2^1024-2^970 -> %v, want +Inf", got)
	}
	if got := roundFrac(new(big.Int).Sub(lim, big.NewInt(1)), big.NewInt(1)); got != math.MaxFloat64 {
		t.Errorf("2^1024-2^970-1 -> %v, want MaxFloat64", got)
	}
	// underflow boundary: 2^-1075 is a tie between 0 and 5e-324 -> even -> 0
	half := new(big.Rat).SetFrac(big.NewInt(1), new(big.Int).Lsh(big.NewInt(1), 1075))
	if got := RoundRat(half); got != 0 {
		t.Errorf("2^-1075 -> %v, want 0", got)
	}
	if got := RoundRat(new(big.Rat).Mul(half, big.NewRat(3, 2))); got != 5e-324 {
		t.Errorf("1.5*2^-1075 -> %v, want 5e-324", got)
	}
	if got := RoundRat(new(big.Rat).Mul(half, big.NewRat(3, 1))); got != 1e-323 {
		t.Errorf("3*2^-1075 (tie 1,2 denormal units) -> %v, want 1e-323", got)
	}
}

func TestShortestCrossCheck(t *testing.T) {
	seed := uint64(777)
	next := func() uint64 {
		seed += 0x9e3779b97f4a7c15
		z := seed
		z = (z ^ (z >> 30)) * 0xbf58476d1ce4e5b9
		z = (z ^ (z >> 27)) * 0x94d049bb133111eb
		return z ^ (z >> 31)
	}
	check := func(x float64) {
		d, n, all := Shortest(x)
		// definition: the number value for s*10^(n-k) is x
		for _, s := range all {
			if got, _ := StringToNumber(s); got != x {
				t.Fatalf("Shortest(%b): candidate %s rounds to %b", x, s, got)
			}
		}
		_ = n
		// differential (test only): strconv's shortest digits
		g := strconv.FormatFloat(x, 'e', -1, 64)
		// d.ddddde+-xx
		mant, exp := g, 0
		for i := range g {
			if g[i] == 'e' {
				mant = g[:i]
				exp, _ = strconv.Atoi(g[i+1:])
			}
		}
		digs := ""
		for _, c := range mant {
			if c != '.' {
				digs += string(c)
			}
		}
		if digs != d || exp+1 != n {
			t.Fatalf("Shortest(%b) = %s n=%d (all %v), strconv %s", x, d, n, all, g)
		}
	}
	for i := 0; i < 30000; i++ {
		x := math.Float64frombits(next() &^ (1 << 63))
		if !Finite(x) || x == 0 {
			continue
		}
		check(x)
	}
	for e := -323; e <= 308; e++ {
		x, _ := strconv.ParseFloat("1e"+strconv.Itoa(e), 64)
		check(x)
		check(math.Nextafter(x, 0))
		check(math.Nextafter(x, math.Inf(1)))
	}
	for e := -1074; e <= 1023; e++ {
		x := math.Ldexp(1, e)
		check(x)
		if e > -1074 {
			check(math.Nextafter(x, 0))
		}
		check(math.Nextafter(x, math.Inf(1)))
	}
}

func TestToFixedFacts(t *testing.T) {
	cases := []struct {
		x float64
		f int
		s string
	}{
		{1.005, 2, "1.00"}, // 1.005 is 1.00499999999999989...
		{0.5, 0, "1"},      // tie: larger n
		{2.5, 0, "3"},
		{1.5, 0, "2"},
		{-2.5, 0, "-3"}, // sign is split off first, then larger n
		{-0.5, 0, "-1"},
		{1.125, 2, "1.13"},
		{0.125, 2, "0.13"},
		{1000000000000000128, 0, "1000000000000000128"}, // 15.7.4.5 NOTE
		{1e21, 2, "1e+21"},
		{math.Copysign(0, -1), 2, "0.00"}, // "If x < 0" is false for -0
		{0, 0, "0"},
		{-1e-10, 2, "-0.00"},
		{1.23e-20, 2, "0.00"},
		{12345.6789, 0, "12346"},
		{12345.6789, 6, "12345.678900"},
		{0.000001, 7, "0.0000010"},
		{123.456, 20, "123.45600000000000306954"},
		{math.NaN(), 2, "NaN"},
		{math.Inf(1), 2, "Infinity"},
		{math.Inf(-1), 2, "-Infinity"},
		{999999999999999900000, 1, "999999999999999868928.0"},
	}
	for _, c := range cases {
		if got := ToFixed(c.x, c.f); got != c.s {
			t.Errorf("ToFixed(%v,%d) = %q, want %q", c.x, c.f, got, c.s)
		}
	}
}

func TestToExponentialFacts(t *testing.T) {
	cases := []struct {
		x     float64
		f     int
		undef bool
		s     string
	}{
		{25, 0, false, "3e+1"}, // tie: larger
		{35, 0, false, "4e+1"},
		{451, 2, false, "4.51e+2"},
		{77.1234, 0, true, "7.71234e+1"},
		{77.1234, 4, false, "7.7123e+1"},
		{77.1234, 2, false, "7.71e+1"},
		{77, 0, true, "7.7e+1"},
		{0, 0, true, "0e+0"},
		{0, 2, false, "0.00e+0"},
		{math.Copysign(0, -1), 2, false, "0.00e+0"},
		{1, 0, true, "1e+0"},
		{0.00015, 1, false, "1.5e-4"},
		{9.5, 0, false, "1e+1"},
		{99.95, 2, false, "1.00e+2"}, // 99.95 = 99.9500000000000028...
		{-1.5e-7, 3, false, "-1.500e-7"},
		{math.Inf(1), 5, false, "Infinity"},
		{math.Inf(-1), 0, true, "-Infinity"},
		{math.NaN(), 5, false, "NaN"},
		{123456, 20, false, "1.23456000000000000000e+5"},
		{1e21, 0, true, "1e+21"},
		{5e-324, 0, true, "5e-324"},
		{5e-324, 3, false, "4.941e-324"},
	}
	for _, c := range cases {
		if got := ToExponential(c.x, c.f, c.undef); got != c.s {
			t.Errorf("ToExponential(%v,%d,%v) = %q, want %q", c.x, c.f, c.undef, got, c.s)
		}
	}
}

func TestToPrecisionFacts(t *testing.T) {
	cases := []struct {
		x float64
		p int
		s string
	}{
		{451, 1, "5e+2"},
		{451, 2, "4.5e+2"},
		{451, 3, "451"},
		{451, 5, "451.00"},
		{5.123456, 5, "5.1235"},
		{5.123456, 2, "5.1"},
		{25, 1, "3e+1"}, // tie: larger
		{2.5, 1, "3"},
		{0.25, 1, "0.3"},
		{1.25, 2, "1.3"},
		{0.000001, 2, "0.0000010"}, // e = -6: fixed
		{0.0000001, 2, "1.0e-7"},   // e = -7: exponential
		{123456, 6, "123456"},
		{123456, 5, "1.2346e+5"},
		{0, 3, "0.00"},
		{0, 1, "0"},
		{math.Copysign(0, -1), 3, "0.00"},
		{-1.5, 3, "-1.50"},
		{math.Inf(1), 3, "Infinity"},
		{math.NaN(), 3, "NaN"},
		{0.463647609000806116, 10, "0.4636476090"},
		{1e21, 21, "1.00000000000000000000e+21"},
		{1e20, 21, "100000000000000000000"},
		{99.99, 3, "100"},
		{99.99, 2, "1.0e+2"},
	}
	for _, c := range cases {
		if got := ToPrecision(c.x, c.p); got != c.s {
			t.Errorf("ToPrecision(%v,%d) = %q, want %q", c.x, c.p, got, c.s)
		}
	}
}

func TestRadix(t *testing.T) {
	cases := []struct {
		x float64
		r int
		s string
	}{
		{451, 8, "703"},
		{255, 16, "ff"},
		{-255, 16, "-ff"},
		{35, 36, "z"},
		{0, 2, "0"},
		{math.Copysign(0, -1), 2, "0"},
		{math.NaN(), 2, "NaN"},
		{math.Inf(-1), 7, "-Infinity"},
		{9223372036854775808, 16, "8000000000000000"},
		{18446744073709551616, 2, "1" + zeros(64)},
		{1e21, 10, "1e+21"},
		{1e21, 16, "3635c9adc5dea00000"},
	}
	for _, c := range cases {
		got, ok := ToStringRadix(c.x, c.r)
		if !ok || got != c.s {
			t.Errorf("ToStringRadix(%v,%d) = %q,%v want %q", c.x, c.r, got, ok, c.s)
		}
	}
	if _, ok := ToStringRadix(0.5, 2); ok {
		t.Errorf("0.5 radix 2 must be reported as implementation-dependent")
	}
	if neg, r := RadixValue("-0.1", 2); !neg || r.Cmp(big.NewRat(1, 2)) != 0 {
		t.Errorf("RadixValue")
	}
}

func zeros(n int) string {
	b := make([]byte, n)
	for i := range b {
		b[i] = '0'
	}
	return string(b)
}

func same(a, b float64) bool {
	if a != a {
		return b != b
	}
	return math.Float64bits(a) == math.Float64bits(b)
}

func TestStringToNumber(t *testing.T) {
	nan := math.NaN()
	inf := math.Inf(1)
	cases := []struct {
		s string
		v float64
	}{
		{"", 0}, {"   ", 0}, {"\t\n\v\f\r \u00a0\ufeff\u2028\u2029\u1680\u2000\u200a\u202f\u205f\u3000", 0},
		{"0", 0}, {"-0", math.Copysign(0, -1)}, {"+0", 0}, {"-0.0e5", math.Copysign(0, -1)},
		{"1", 1}, {" 12 ", 12}, {"\ufeff12\u00a0", 12},
		{"1.5", 1.5}, {".5", 0.5}, {"5.", 5}, {"+.5", 0.5}, {"-.5e1", -5}, {"5.e1", 50},
		{"1e3", 1000}, {"1E3", 1000}, {"1e+3", 1000}, {"1e-3", 0.001},
		{".", nan}, {"e5", nan}, {"1e", nan}, {"1e+", nan}, {"+", nan}, {"-", nan}, {".e1", nan},
		{"1_0", nan}, {"inf", nan}, {"Inf", nan}, {"INFINITY", nan}, {"infinity", nan}, {"Infinityx", nan},
		{"Infinity", inf}, {"+Infinity", inf}, {"-Infinity", -inf}, {" Infinity ", inf},
		{"0x", nan}, {"0x10", 16}, {"0X1f", 31}, {"0xg", nan}, {"-0x10", nan}, {"+0x10", nan}, {"0x1_0", nan},
		{"0x1.8p1", nan}, {"0x1p3", nan}, {"0b1", nan}, {"0o7", nan}, {"010", 10}, {"08", 8},
		{"1 2", nan}, {"1,5", nan}, {"1.2.3", nan}, {"--1", nan}, {"+-1", nan}, {"1e1.5", nan},
		{"\u200b1", nan}, {"\u00851", nan}, {"1\u0000", nan}, {"nan", nan}, {"NaN", nan},
		{"0xffffffffffffffffff", 4722366482869645213696},
		{"0x20000000000001", 9007199254740992}, // 2^53+1: tie -> even
		{"0x20000000000003", 9007199254740996}, // 2^53+3: tie -> even
		{"9007199254740993", 9007199254740992},
		{"9007199254740993.0000000000000000000000000000000000001", 9007199254740994},
		{"1e400", inf}, {"-1e400", -inf}, {"1e-400", 0}, {"-1e-400", math.Copysign(0, -1)},
		{"1e99999999999999999999", inf}, {"1e-99999999999999999999", 0}, {"0e99999999999999999999", 0},
		{"1.7976931348623158e308", 1.7976931348623157e308},
		{"1.7976931348623159e308", inf}, // beyond the midpoint 1.797693134862315807e308
		{"4.9e-324", 5e-324}, {"2.4703282292062327e-324", 0}, {"2.4703282292062328e-324", 5e-324},
		{"2.2250738585072011e-308", 2.225073858507201e-308},
		{"0.1", 0.1}, {"0.30000000000000004", pointOne + pointTwo},
		{"00012", 12}, {"000.5", 0.5},
	}
	for _, c := range cases {
		got, _ := StringToNumber(c.s)
		if !same(got, c.v) {
			t.Errorf("StringToNumber(%q) = %v, want %v", c.s, got, c.v)
		}
	}
}

func TestParseFloat(t *testing.T) {
	nan := math.NaN()
	inf := math.Inf(1)
	cases := []struct {
		s string
		v float64
	}{
		{"", nan}, {" ", nan}, {"3.14abc", 3.14}, {"  3.14  ", 3.14}, {".5.", 0.5}, {"5.e", 5}, {"1e", 1}, {"1e+", 1}, {"1e+5x", 1e5},
		{"-.5", -0.5}, {"-", nan}, {".", nan}, {"e5", nan}, {"0x10", 0}, {"0x", 0}, {"1_0", 1}, {"Infinityx", inf}, {"-Infinity1", -inf},
		{"infinity", nan}, {"Inf", nan}, {"INFINITY", nan}, {"1infinity", 1}, {"5 inf", 5}, {"-0", math.Copysign(0, -1)},
		{"1e1000", inf}, {"-1e1000", -inf}, {"1e-1000", 0}, {"0x1p3", 0}, {"1.2.3", 1.2}, {"+ 1", nan}, {"\u20281", 1}, {"\u200b1", nan},
		{"11x", 11}, {"Infinit", nan}, {"+Infinity", inf},
	}
	for _, c := range cases {
		if got := ParseFloat(c.s); !same(got, c.v) {
			t.Errorf("ParseFloat(%q) = %v, want %v", c.s, got, c.v)
		}
	}
}

func TestParseInt(t *testing.T) {
	nan := math.NaN()
	u := math.NaN() // undefined radix -> ToNumber -> NaN
	cases := []struct {
		s string
		r float64
		v float64
	}{
		{"0", u, 0}, {"11", u, 11}, {" 11\n", 16, 17}, {"Xyzzy", u, nan}, {" 0x11\n", 16, 17}, {"0x0aXyzzy", 16, 10},
		{"0x1", 0, 1}, {"0x10000000000000000000", 16, 75557863725914323419136}, {"0x", u, nan}, {"0x", 16, nan},
		{"-0", u, math.Copysign(0, -1)}, {"-0x10", u, -16}, {"+0X1F", u, 31}, {"0x10", 10, 0}, {"0x10", 8, 0},
		{"010", u, 10}, {"010", 8, 8}, {"12", 2, 1}, {"2", 2, nan}, {"z", 36, 35}, {"Z", 36, 35}, {"z", 35, nan},
		{"11", 1, nan}, {"11", 37, nan}, {"11", -1, nan}, {"11", 4294967298, 3}, {"11", 4294967296 + 16, 17}, {"11", math.Inf(1), 11}, {"11", 2.9, 3},
		{"9007199254740993", u, 9007199254740992}, {"9007199254740995", u, 9007199254740996},
		{"-9223372036854775808", u, -9223372036854775808}, {"18446744073709551616", u, 18446744073709551616},
		{"1e3", u, 1}, {"1.9", u, 1}, {"", u, nan}, {"-", u, nan}, {"+", u, nan}, {"- 1", u, nan}, {"1_0", u, 1}, {"\ufeff\u00a0 7", u, 7},
		{"100000000000000000000000000000000000000000000000000000001", 2, 72057594037927936}, // 2^56+1 -> 2^56
		{"100000000000000000000000000000000000000000000000000001001", 2, 72057594037927952}, // 2^56+9 -> 2^56+16
	}
	for _, c := range cases {
		got, _ := ParseInt(c.s, c.r)
		if !same(got, c.v) {
			t.Errorf("ParseInt(%q,%v) = %v, want %v", c.s, c.r, got, c.v)
		}
	}
	_, info := ParseInt("123456789012345678901234", u)
	if !info.HasAlt || info.SigDigits != 24 {
		t.Errorf("alt info: %+v", info)
	}
}

func TestScanLiteral(t *testing.T) {
	cases := []struct {
		s    string
		ok   bool
		n    int
		v    float64
		kind string
	}{
		{"0", true, 1, 0, "decimal"}, {"5.", true, 2, 5, "decimal"}, {".5", true, 2, 0.5, "decimal"}, {"1e3", true, 3, 1000, "decimal"},
		{"1.e3", true, 4, 1000, "decimal"}, {"0.5e-3", true, 6, 0.0005, "decimal"}, {"0x1F", true, 4, 31, "hex"}, {"0X1f", true, 4, 31, "hex"},
		{"010", true, 3, 8, "octal"}, {"00", true, 2, 0, "octal"}, {"08", false, 0, 0, ""}, {"0778", false, 0, 0, ""},
		{"1_0", false, 0, 0, ""}, {"0x", false, 0, 0, ""}, {"0b1", false, 0, 0, ""}, {"1e", false, 0, 0, ""}, {"1e+", false, 0, 0, ""}, {".", false, 0, 0, ""},
		{"1a", false, 0, 0, ""}, {"0x1g", false, 0, 0, ""}, {"1..e5", true, 2, 1, "decimal"}, {"1.5.e", true, 3, 1.5, "decimal"}, {"0e5", true, 3, 0, "decimal"},
		{"9007199254740993", true, 16, 9007199254740992, "decimal"}, {"0x20000000000001", true, 16, 9007199254740992, "hex"},
		{"1e400", true, 5, math.Inf(1), "decimal"}, {"Infinity", false, 0, 0, ""},
	}
	for _, c := range cases {
		l := ScanLiteral(c.s)
		if l.OK != c.ok || (c.ok && (l.Len != c.n || !same(l.Value, c.v) || l.Kind != c.kind)) {
			t.Errorf("ScanLiteral(%q) = %+v, want ok=%v n=%d v=%v %s", c.s, l, c.ok, c.n, c.v, c.kind)
		}
	}
}

func TestParseDifferential(t *testing.T) {
	// test-only differential of Decimal.Value against strconv on random digit strings
	seed := uint64(99)
	next := func() uint64 {
		seed += 0x9e3779b97f4a7c15
		z := seed
		z = (z ^ (z >> 30)) * 0xbf58476d1ce4e5b9
		z = (z ^ (z >> 27)) * 0x94d049bb133111eb
		return z ^ (z >> 31)
	}
	for i := 0; i < 20000; i++ {
		nd := int(next()%30) + 1
		b := make([]byte, 0, 40)
		for j := 0; j < nd; j++ {
			b = append(b, byte('0'+next()%10))
			if j == int(next()%uint64(nd)) && !contains(b, '.') {
				b = append(b, '.')
			}
		}
		s := string(b) + "e" + strconv.Itoa(int(next()%700)-350)
		want, _ := strconv.ParseFloat(s, 64)
		got, _ := StringToNumber(s)
		if !same(got, want) {
			t.Fatalf("StringToNumber(%q) = %v, strconv %v", s, got, want)
		}
	}
	// exact decimal expansions and shortest strings parse back
	for i := 0; i < 5000; i++ {
		x := math.Float64frombits(next() &^ (1 << 63))
		if !Finite(x) {
			continue
		}
		if got, _ := StringToNumber(ExactDecimal(x)); got != x {
			t.Fatalf("ExactDecimal(%b) = %s parses to %b", x, ExactDecimal(x), got)
		}
		if got, _ := StringToNumber(ToString(x)); got != x {
			t.Fatalf("ToString(%b) = %s parses to %b", x, ToString(x), got)
		}
	}
}

func contains(b []byte, c byte) bool {
	for _, x := range b {
		if x == c {
			return true
		}
	}
	return false
}

func TestDigitsDifferential(t *testing.T) {
	// test-only differential of DigitsExp (non-tie inputs) against strconv %e
	seed := uint64(4242)
	next := func() uint64 {
		seed += 0x9e3779b97f4a7c15
		z := seed
		z = (z ^ (z >> 30)) * 0xbf58476d1ce4e5b9
		z = (z ^ (z >> 27)) * 0x94d049bb133111eb
		return z ^ (z >> 31)
	}
	for i := 0; i < 20000; i++ {
		x := math.Float64frombits(next() &^ (1 << 63))
		if !Finite(x) || x == 0 {
			continue
		}
		f := int(next() % 21)
		if IsTieDigits(x, f) {
			continue
		}
		d, e := DigitsExp(x, f)
		g := strconv.FormatFloat(x, 'e', f, 64)
		want := d[:1]
		if f > 0 {
			want += "." + d[1:]
		}
		sign := "+"
		ee := e
		if e < 0 {
			sign, ee = "-", -e
		}
		es := strconv.Itoa(ee)
		if len(es) < 2 {
			es = "0" + es
		}
		want += "e" + sign + es
		if g != want {
			t.Fatalf("DigitsExp(%b,%d) = %s,%d ; strconv %s", x, f, d, e, g)
		}
	}
}
