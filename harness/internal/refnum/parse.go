package refnum

import (
	"math"
	"math/big"
	"strings"
)

// ------------------------------------------------------------------ white space

// IsStrWhiteSpace is StrWhiteSpaceChar of 9.3.1: WhiteSpace (7.2: TAB, VT, FF,
// SP, NBSP, BOM, any Unicode Zs) or LineTerminator (7.3: LF, CR, LS, PS).
// U+180E was category Zs in the Unicode versions current for ES5.1 (3.0-6.2)
// and Cf from 6.3 on; it is accepted here but workloads do not generate it.
func IsStrWhiteSpace(r rune) bool {
	switch r {
	case 0x0009, 0x000B, 0x000C, 0x0020, 0x00A0, 0xFEFF, // WhiteSpace
		0x000A, 0x000D, 0x2028, 0x2029, // LineTerminator
		0x1680, 0x180E, 0x202F, 0x205F, 0x3000: // Zs
		return true
	}
	return r >= 0x2000 && r <= 0x200A // Zs
}

func trimLeft(s []rune) []rune {
	for len(s) > 0 && IsStrWhiteSpace(s[0]) {
		s = s[1:]
	}
	return s
}

func trimRight(s []rune) []rune {
	for len(s) > 0 && IsStrWhiteSpace(s[len(s)-1]) {
		s = s[:len(s)-1]
	}
	return s
}

func isDigit(r rune) bool { return r >= '0' && r <= '9' }

func digitVal(r rune) int {
	switch {
	case r >= '0' && r <= '9':
		return int(r - '0')
	case r >= 'a' && r <= 'z':
		return int(r-'a') + 10
	case r >= 'A' && r <= 'Z':
		return int(r-'A') + 10
	}
	return 99
}

// ------------------------------------------------------------------ decimal value

// Decimal is a scanned decimal literal: value = Int.Frac * 10^Exp.
type Decimal struct {
	Int, Frac string // digit runs (either may be empty, not both)
	ExpNeg    bool
	ExpDigits string // "" when there is no ExponentPart
	Infinity  bool
}

// SigDigits counts significant digits (after stripping leading zeros; trailing
// zeros count, as in 9.3.1's definition "not part of an ExponentPart and (it
// is not 0 or there is a nonzero digit to its left and a nonzero digit, not
// in the ExponentPart, to its right)") - here: digits between the first and
// the last nonzero digit inclusive.
func (d Decimal) SigDigits() int {
	all := strings.TrimLeft(d.Int+d.Frac, "0")
	all = strings.TrimRight(all, "0")
	return len(all)
}

// Value is the Number value for the MV of the literal (8.5: round to nearest,
// ties to even), non-negative.
func (d Decimal) Value() float64 {
	if d.Infinity {
		return math.Inf(1)
	}
	digits := d.Int + d.Frac
	scale := -len(d.Frac) // value = digits * 10^(scale+exp)
	digits = strings.TrimLeft(digits, "0")
	if digits == "" {
		return 0
	}
	// strip trailing zeros into the scale to keep numbers small
	t := strings.TrimRight(digits, "0")
	scale += len(digits) - len(t)
	digits = t
	// exponent, clamped: anything beyond +-100000 is decided by magnitude alone
	exp := 0
	if d.ExpDigits != "" {
		ed := strings.TrimLeft(d.ExpDigits, "0")
		if len(ed) > 7 {
			exp = 10000000
		} else {
			for _, c := range ed {
				exp = exp*10 + int(c-'0')
			}
		}
		if d.ExpNeg {
			exp = -exp
		}
	}
	total := scale + exp // value = digits * 10^total
	mag := len(digits) + total
	// value in [10^(mag-1), 10^mag)
	if mag > 310 {
		return math.Inf(1)
	}
	if mag < -330 {
		return 0
	}
	num, _ := new(big.Int).SetString(digits, 10)
	den := big.NewInt(1)
	if total >= 0 {
		num.Mul(num, Pow10(total))
	} else {
		den = Pow10(-total)
	}
	return roundFrac(num, den)
}

// scanUnsignedDecimal scans the longest StrUnsignedDecimalLiteral prefix of s
// (9.3.1); allowInfinity selects whether "Infinity" is part of the grammar
// (it is for StrDecimalLiteral, not for 7.8.3 DecimalLiteral). It returns the
// number of runes consumed (0 = no match).
func scanUnsignedDecimal(s []rune, allowInfinity bool) (Decimal, int) {
	var d Decimal
	if allowInfinity && strings.HasPrefix(string(s), "Infinity") {
		d.Infinity = true
		return d, 8
	}
	i := 0
	for i < len(s) && isDigit(s[i]) {
		i++
	}
	d.Int = string(s[:i])
	if i < len(s) && s[i] == '.' {
		j := i + 1
		for j < len(s) && isDigit(s[j]) {
			j++
		}
		d.Frac = string(s[i+1 : j])
		if d.Int == "" && d.Frac == "" {
			return Decimal{}, 0 // "." alone
		}
		i = j
	} else if d.Int == "" {
		return Decimal{}, 0
	}
	// ExponentPart (optional; only taken when complete)
	if i < len(s) && (s[i] == 'e' || s[i] == 'E') {
		j := i + 1
		neg := false
		if j < len(s) && (s[j] == '+' || s[j] == '-') {
			neg = s[j] == '-'
			j++
		}
		k := j
		for k < len(s) && isDigit(s[k]) {
			k++
		}
		if k > j {
			d.ExpNeg = neg
			d.ExpDigits = string(s[j:k])
			i = k
		}
	}
	return d, i
}

// ------------------------------------------------------------------ 9.3.1

// NumInfo describes how StringToNumber classified its input.
type NumInfo struct {
	Kind      string // empty | decimal | hex | infinity | invalid
	SigDigits int
}

// StringToNumber is ToNumber applied to the String type (9.3.1).
func StringToNumber(str string) (float64, NumInfo) {
	s := trimRight(trimLeft([]rune(str)))
	if len(s) == 0 {
		return 0, NumInfo{Kind: "empty"}
	}
	// HexIntegerLiteral
	if len(s) > 2 && s[0] == '0' && (s[1] == 'x' || s[1] == 'X') {
		v := new(big.Int)
		for _, c := range s[2:] {
			dv := digitVal(c)
			if dv >= 16 {
				return math.NaN(), NumInfo{Kind: "invalid"}
			}
			v.Lsh(v, 4)
			v.Add(v, big.NewInt(int64(dv)))
		}
		return roundFrac(v, bigOne), NumInfo{Kind: "hex"}
	}
	neg := false
	t := s
	if t[0] == '+' || t[0] == '-' {
		neg = t[0] == '-'
		t = t[1:]
	}
	d, n := scanUnsignedDecimal(t, true)
	if n == 0 || n != len(t) {
		return math.NaN(), NumInfo{Kind: "invalid"}
	}
	v := d.Value()
	if neg {
		v = -v // -0 when the MV is 0 and the first character is '-'
	}
	if d.Infinity {
		return v, NumInfo{Kind: "infinity"}
	}
	return v, NumInfo{Kind: "decimal", SigDigits: d.SigDigits()}
}

// ------------------------------------------------------------------ 15.1.2.3

// ParseFloat is 15.1.2.3 applied to an already-string argument.
func ParseFloat(str string) float64 {
	s := trimLeft([]rune(str))
	neg := false
	if len(s) > 0 && (s[0] == '+' || s[0] == '-') {
		neg = s[0] == '-'
		s = s[1:]
	}
	d, n := scanUnsignedDecimal(s, true)
	if n == 0 {
		return math.NaN()
	}
	v := d.Value()
	if neg {
		v = -v
	}
	return v
}

// ------------------------------------------------------------------ 15.1.2.2

// IntInfo describes the parseInt computation.
type IntInfo struct {
	Radix     int    // effective radix R (0 when the result is NaN by radix)
	Digits    string // Z
	SigDigits int    // significant digits of Z (leading zeros stripped)
	// Exact reports whether ES5 requires the exact value: R in
	// {2,4,8,10,16,32}, or at most 20 significant digits.
	Exact bool
	// Alt is, for R == 10 with more than 20 significant digits, the other
	// value 15.1.2.2 step 13 permits (digits after the 20th replaced by 0).
	Alt    float64
	HasAlt bool
}

// ParseInt is 15.1.2.2 applied to an already-string first argument and an
// already-numeric radix (ToNumber(radix); undefined -> NaN).
func ParseInt(str string, radix float64) (float64, IntInfo) {
	s := trimLeft([]rune(str))
	sign := 1.0
	if len(s) > 0 && s[0] == '-' {
		sign = -1
	}
	if len(s) > 0 && (s[0] == '+' || s[0] == '-') {
		s = s[1:]
	}
	R := int(ToInt32(radix))
	strip := true
	if R != 0 {
		if R < 2 || R > 36 {
			return math.NaN(), IntInfo{}
		}
		if R != 16 {
			strip = false
		}
	} else {
		R = 10
	}
	if strip && len(s) >= 2 && s[0] == '0' && (s[1] == 'x' || s[1] == 'X') {
		s = s[2:]
		R = 16
	}
	end := 0
	for end < len(s) && digitVal(s[end]) < R {
		end++
	}
	info := IntInfo{Radix: R, Digits: string(s[:end])}
	if end == 0 {
		return math.NaN(), info
	}
	sig := strings.TrimLeft(info.Digits, "0")
	info.SigDigits = len(sig)
	switch R {
	case 2, 4, 8, 10, 16, 32:
		info.Exact = true
	default:
		info.Exact = info.SigDigits <= 20
	}
	v := new(big.Int)
	br := big.NewInt(int64(R))
	for _, c := range sig {
		v.Mul(v, br)
		v.Add(v, big.NewInt(int64(digitVal(c))))
	}
	num := roundFrac(v, bigOne)
	if R == 10 && info.SigDigits > 20 {
		a, _ := new(big.Int).SetString(sig[:20], 10)
		a.Mul(a, Pow10(len(sig)-20))
		info.Alt = sign * roundFrac(a, bigOne)
		info.HasAlt = true
	}
	return sign * num, info // sign * 0 = -0 for "-0"
}

// ------------------------------------------------------------------ 7.8.3

func isIdentStartASCII(r rune) bool {
	return r == '$' || r == '_' || (r >= 'a' && r <= 'z') || (r >= 'A' && r <= 'Z')
}

// Literal is the result of scanning source text that begins with a
// NumericLiteral.
type Literal struct {
	OK     bool    // a NumericLiteral was recognised at the start
	Len    int     // runes consumed
	Value  float64 // its Number value
	Kind   string  // decimal | hex | octal (B.1.1 legacy, optional in ES5)
	SigDig int
}

// ScanLiteral recognises the longest NumericLiteral (7.8.3) at the start of
// src, including the B.1.1 LegacyOctalIntegerLiteral, and enforces "the source
// character immediately following a NumericLiteral must not be an
// IdentifierStart or DecimalDigit" (ASCII identifier starts only; workloads
// use ASCII).
func ScanLiteral(src string) Literal {
	s := []rune(src)
	fail := Literal{}
	if len(s) == 0 {
		return fail
	}
	follow := func(i int) bool {
		return i >= len(s) || !(isIdentStartASCII(s[i]) || isDigit(s[i]) || s[i] == '\\')
	}
	if s[0] == '0' && len(s) > 1 && (s[1] == 'x' || s[1] == 'X') {
		i := 2
		v := new(big.Int)
		for i < len(s) && digitVal(s[i]) < 16 {
			v.Lsh(v, 4)
			v.Add(v, big.NewInt(int64(digitVal(s[i]))))
			i++
		}
		if i == 2 || !follow(i) {
			return fail
		}
		return Literal{OK: true, Len: i, Value: roundFrac(v, bigOne), Kind: "hex"}
	}
	if s[0] == '0' && len(s) > 1 && isDigit(s[1]) {
		// DecimalIntegerLiteral is "0" alone; a following digit is only legal
		// as B.1.1 legacy octal 0[0-7]+
		i := 1
		v := new(big.Int)
		for i < len(s) && s[i] >= '0' && s[i] <= '7' {
			v.Lsh(v, 3)
			v.Add(v, big.NewInt(int64(s[i]-'0')))
			i++
		}
		if !follow(i) {
			return fail
		}
		return Literal{OK: true, Len: i, Value: roundFrac(v, bigOne), Kind: "octal"}
	}
	d, n := scanUnsignedDecimal(s, false)
	if n == 0 || !follow(n) {
		return fail
	}
	return Literal{OK: true, Len: n, Value: d.Value(), Kind: "decimal", SigDig: d.SigDigits()}
}
