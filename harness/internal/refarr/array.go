package refarr

import (
	"math"
	"sort"
)

// Every function below is one algorithm of ES5.1 15.4; the step numbers in the
// comments are those of the specification text.

func arg(args []Value, i int) Value {
	if i < len(args) {
		return args[i]
	}
	return Undefined
}

func ks(k float64) string { return NumberToString(k) }

func (r *Realm) lenOf(o *Obj) float64 {
	lenVal := r.Get(o, "length")
	return r.ToUint32(lenVal)
}

// thisObj is step 1 of every 15.4.4 algorithm: ToObject(this value).
func (r *Realm) thisObj(this Value) *Obj {
	if this.K == KUndef && r.Dev&DevUndefinedThis != 0 {
		return r.Global
	}
	return r.ToObject(this)
}

func elemDesc(v Value) Desc { return DataDesc(v, true, true, true) }

// fixResultLength applies the ES2015 correction of the ES5.1 erratum that
// concat/slice/splice never set the length of the array they create (trailing
// holes are lost) unless the ES5.1-literal variant is selected.
func (r *Realm) fixResultLength(a *Obj, n float64) {
	if r.Dev&DevResultHoles != 0 {
		r.devFillHoles(a, n)
		return
	}
	if a.props["length"].Value.N != n {
		r.Touched |= VarResultLength
		if r.Variant&VarResultLength == 0 {
			r.Put(a, "length", Num(n), true)
		}
	}
}

func (r *Realm) devFillHoles(a *Obj, n float64) {
	a.props["length"].Value = Num(n)
	for k := 0.0; k < n; k++ {
		r.tick()
		if a.props[ks(k)] == nil {
			a.setRaw(ks(k), &Prop{Value: Undefined, W: true, E: true, C: true})
		}
	}
}

// ArrayConstruct is 15.4.1 / 15.4.2 (Array called as a function behaves like
// the constructor).
func (r *Realm) ArrayConstruct(args []Value) *Obj {
	if len(args) == 1 {
		// 15.4.2.2
		l := args[0]
		if l.K == KNum {
			if Uint32OfNumber(l.N) != l.N {
				throwRange("new Array(len): invalid length")
			}
			return r.NewArray(uint32(l.N))
		}
		a := r.NewArray(1)
		a.setRaw("0", &Prop{Value: l, W: true, E: true, C: true})
		return a
	}
	// 15.4.2.1
	return r.NewArrayOf(args, nil)
}

// IsArray is 15.4.3.2.
func IsArray(v Value) bool { return v.K == KObj && v.O.Class == "Array" }

// 15.4.4.2
func (r *Realm) ArrayToString(this Value, _ []Value) Value {
	array := r.thisObj(this)  // 1
	f := r.Get(array, "join") // 2
	if !IsCallable(f) {       // 3
		f = ObjV(r.ObjectProtoToString)
	}
	return r.Call(f, ObjV(array)) // 4
}

// 15.4.4.3
func (r *Realm) ArrayToLocaleString(this Value, _ []Value) Value {
	array := r.thisObj(this) // 1
	n := r.lenOf(array)      // 2,3
	sep := ","               // 4
	if n == 0 {              // 5
		return Str("")
	}
	one := func(e Value) string {
		if e.K == KUndef || e.K == KNull {
			return ""
		}
		eo := r.ToObject(e)
		f := r.Get(eo, "toLocaleString")
		if !IsCallable(f) {
			throwType("toLocaleString not callable")
		}
		res := r.Call(f, ObjV(eo))
		if res.K != KStr {
			panic(Unsupported{"toLocaleString returning a non-string (ES5.1 text omits ToString)"})
		}
		return res.S
	}
	R := one(r.Get(array, "0")) // 6-8
	for k := 1.0; k < n; k++ {  // 9,10
		r.tick()
		S := R + sep
		R = S + one(r.Get(array, ks(k)))
	}
	return Str(R) // 11
}

// 15.4.4.4
func (r *Realm) ArrayConcat(this Value, args []Value) Value {
	O := r.thisObj(this)                       // 1
	A := r.NewArray(0)                         // 2
	n := 0.0                                   // 3
	items := append([]Value{ObjV(O)}, args...) // 4
	for _, E := range items {                  // 5
		if E.K == KObj && E.O.Class == "Array" { // b
			length := r.Get(E.O, "length").N // ii (E is an Array: the value is a uint32 Number)
			for k := 0.0; k < length; k++ {  // iii
				r.tick()
				P := ks(k)
				if r.HasProperty(E.O, P) {
					sub := r.Get(E.O, P)
					r.DefineOwnProperty(A, ks(n), elemDesc(sub), false)
				}
				n++
			}
		} else { // c
			r.DefineOwnProperty(A, ks(n), elemDesc(E), false)
			n++
		}
	}
	r.fixResultLength(A, n)
	return ObjV(A) // 6
}

// 15.4.4.5
func (r *Realm) ArrayJoin(this Value, args []Value) Value {
	sepV := arg(args, 0)
	if sepV.K == KUndef { // 4
		sepV = Str(",")
	}
	var sep string
	if r.Dev&DevJoinSepFirst != 0 {
		sep = r.ToString(sepV)
	}
	O := r.thisObj(this) // 1
	n := r.lenOf(O)      // 2,3
	if r.Dev&DevJoinSepFirst == 0 {
		sep = r.ToString(sepV) // 5
	}
	if n == 0 { // 6
		return Str("")
	}
	one := func(e Value) string {
		if e.K == KUndef || e.K == KNull {
			return ""
		}
		return r.ToString(e)
	}
	R := one(r.Get(O, "0"))    // 7,8
	for k := 1.0; k < n; k++ { // 9,10
		r.tick()
		S := R + sep
		R = S + one(r.Get(O, ks(k)))
	}
	return Str(R) // 11
}

// 15.4.4.6
func (r *Realm) ArrayPop(this Value, _ []Value) Value {
	O := r.thisObj(this) // 1
	n := r.lenOf(O)      // 2,3
	if n == 0 {          // 4
		r.Put(O, "length", Num(0), true)
		return Undefined
	}
	indx := ks(n - 1)         // 5a
	element := r.Get(O, indx) // b
	r.Delete(O, indx, true)   // c
	// d: the ES5.1 text puts the String indx; ES2015 corrected this to the number.
	if O.Class != "Array" {
		r.Touched |= VarPopStringLength
	}
	if r.Variant&VarPopStringLength != 0 {
		r.Put(O, "length", Str(indx), true)
	} else {
		r.Put(O, "length", Num(n-1), true)
	}
	return element // e
}

// 15.4.4.7
func (r *Realm) ArrayPush(this Value, args []Value) Value {
	O := r.thisObj(this)     // 1
	n := r.lenOf(O)          // 2,3
	for _, E := range args { // 4,5
		r.Put(O, ks(n), E, true)
		n++
	}
	r.Put(O, "length", Num(n), true) // 6
	return Num(n)                    // 7
}

// 15.4.4.8
func (r *Realm) ArrayReverse(this Value, _ []Value) Value {
	O := r.thisObj(this)        // 1
	n := r.lenOf(O)             // 2,3
	middle := math.Floor(n / 2) // 4
	lower := 0.0                // 5
	for lower != middle {       // 6
		r.tick()
		upper := n - lower - 1
		upperP, lowerP := ks(upper), ks(lower)
		lowerValue := r.Get(O, lowerP)
		upperValue := r.Get(O, upperP)
		lowerExists := r.HasProperty(O, lowerP)
		upperExists := r.HasProperty(O, upperP)
		switch {
		case lowerExists && upperExists:
			r.Put(O, lowerP, upperValue, true)
			r.Put(O, upperP, lowerValue, true)
		case !lowerExists && upperExists && r.Dev&DevReverseDeleteFirst != 0:
			r.Delete(O, upperP, true)
			r.Put(O, lowerP, upperValue, true)
		case !lowerExists && upperExists:
			r.Put(O, lowerP, upperValue, true)
			r.Delete(O, upperP, true)
		case lowerExists && !upperExists:
			r.Delete(O, lowerP, true)
			r.Put(O, upperP, lowerValue, true)
		}
		lower++
	}
	if r.Dev&DevReturnsThisValue != 0 && !(this.K == KUndef && r.Dev&DevUndefinedThis != 0) {
		return this
	}
	return ObjV(O) // 7
}

// 15.4.4.9
func (r *Realm) ArrayShift(this Value, _ []Value) Value {
	O := r.thisObj(this) // 1
	n := r.lenOf(O)      // 2,3
	if n == 0 {          // 4
		r.Put(O, "length", Num(0), true)
		return Undefined
	}
	first := r.Get(O, "0")     // 5
	for k := 1.0; k < n; k++ { // 6,7
		r.tick()
		from, to := ks(k), ks(k-1)
		if r.HasProperty(O, from) {
			r.Put(O, to, r.Get(O, from), true)
		} else {
			r.Delete(O, to, true)
		}
	}
	r.Delete(O, ks(n-1), true)         // 8
	r.Put(O, "length", Num(n-1), true) // 9
	return first                       // 10
}

func (r *Realm) relative(v Value, n float64) float64 {
	rel := r.ToInteger(v)
	if rel < 0 {
		return math.Max(n+rel, 0)
	}
	return math.Min(rel, n)
}

// 15.4.4.10
func (r *Realm) ArraySlice(this Value, args []Value) Value {
	O := r.thisObj(this)             // 1
	A := r.NewArray(0)               // 2
	n := r.lenOf(O)                  // 3,4
	k := r.relative(arg(args, 0), n) // 5,6
	final := n                       // 7,8
	if end := arg(args, 1); end.K != KUndef {
		final = r.relative(end, n)
	}
	cnt := 0.0      // 9
	for k < final { // 10
		r.tick()
		Pk := ks(k)
		if r.HasProperty(O, Pk) {
			r.DefineOwnProperty(A, ks(cnt), elemDesc(r.Get(O, Pk)), false)
		}
		k++
		cnt++
	}
	r.fixResultLength(A, cnt)
	return ObjV(A) // 11
}

// SortCompare is the abstract operation of 15.4.4.11 on two element VALUES
// (both present).
func (r *Realm) SortCompare(x, y Value, comparefn Value) float64 {
	if x.K == KUndef && y.K == KUndef {
		return 0
	}
	if x.K == KUndef {
		return 1
	}
	if y.K == KUndef {
		return -1
	}
	if comparefn.K != KUndef {
		if !IsCallable(comparefn) {
			throwType("comparefn not callable")
		}
		return r.ToNumber(r.Call(comparefn, Undefined, x, y))
	}
	xs, ys := r.ToString(x), r.ToString(y)
	switch {
	case xs < ys:
		return -1
	case xs > ys:
		return 1
	}
	return 0
}

// 15.4.4.12
func (r *Realm) ArraySplice(this Value, args []Value) Value {
	O := r.thisObj(this)                       // 1
	A := r.NewArray(0)                         // 2
	n := r.lenOf(O)                            // 3,4
	actualStart := r.relative(arg(args, 0), n) // 5,6
	var dc float64
	if len(args) < 2 && len(args) > 0 {
		r.Touched |= VarSpliceOmitted
	}
	if len(args) == 0 && r.Dev&DevSpliceNoArgs != 0 {
		dc = n - actualStart
	} else if len(args) == 1 && r.Variant&VarSpliceOmitted != 0 {
		dc = n - actualStart
	} else {
		dc = r.ToInteger(arg(args, 1))
	}
	actualDeleteCount := math.Min(math.Max(dc, 0), n-actualStart) // 7
	for k := 0.0; k < actualDeleteCount; k++ {                    // 8,9
		r.tick()
		from := ks(actualStart + k)
		if r.HasProperty(O, from) {
			r.DefineOwnProperty(A, ks(k), elemDesc(r.Get(O, from)), false)
		}
	}
	r.fixResultLength(A, actualDeleteCount)
	var items []Value // 10
	if len(args) > 2 {
		items = args[2:]
	}
	itemCount := float64(len(items))   // 11
	if itemCount < actualDeleteCount { // 12
		for k := actualStart; k < n-actualDeleteCount; k++ {
			r.tick()
			from, to := ks(k+actualDeleteCount), ks(k+itemCount)
			if r.HasProperty(O, from) {
				r.Put(O, to, r.Get(O, from), true)
			} else {
				r.Delete(O, to, true)
			}
		}
		for k := n; k > n-actualDeleteCount+itemCount; k-- {
			r.tick()
			r.Delete(O, ks(k-1), true)
		}
	} else if itemCount > actualDeleteCount { // 13
		for k := n - actualDeleteCount; k > actualStart; k-- {
			r.tick()
			from, to := ks(k+actualDeleteCount-1), ks(k+itemCount-1)
			if r.HasProperty(O, from) {
				r.Put(O, to, r.Get(O, from), true)
			} else {
				r.Delete(O, to, true)
			}
		}
	}
	k := actualStart          // 14
	for _, E := range items { // 15
		r.Put(O, ks(k), E, true)
		k++
	}
	r.Put(O, "length", Num(n-actualDeleteCount+itemCount), true) // 16
	return ObjV(A)                                               // 17
}

// 15.4.4.13
func (r *Realm) ArrayUnshift(this Value, args []Value) Value {
	O := r.thisObj(this)           // 1
	n := r.lenOf(O)                // 2,3
	argCount := float64(len(args)) // 4
	for k := n; k > 0; k-- {       // 5,6
		r.tick()
		from, to := ks(k-1), ks(k+argCount-1)
		if r.HasProperty(O, from) {
			r.Put(O, to, r.Get(O, from), true)
		} else {
			r.Delete(O, to, true)
		}
	}
	for j, E := range args { // 7-9
		r.Put(O, ks(float64(j)), E, true)
	}
	r.Put(O, "length", Num(n+argCount), true) // 10
	return Num(n + argCount)                  // 11
}

// 15.4.4.14
func (r *Realm) ArrayIndexOf(this Value, args []Value) Value {
	O := r.thisObj(this) // 1
	n := r.lenOf(O)      // 2,3
	if n == 0 {          // 4
		return Num(-1)
	}
	from := 0.0 // 5
	if len(args) > 1 {
		from = r.ToInteger(args[1])
	}
	if from >= n { // 6
		return Num(-1)
	}
	var k float64
	if from >= 0 { // 7
		k = from + 0 // mathematical value: -0 is 0
	} else { // 8
		k = n - math.Abs(from)
		if k < 0 {
			k = 0
		}
	}
	search := arg(args, 0)
	for ; k < n; k++ { // 9
		r.tick()
		Pk := ks(k)
		if r.HasProperty(O, Pk) {
			if StrictEquals(search, r.Get(O, Pk)) {
				return Num(k)
			}
		}
	}
	return Num(-1) // 10
}

// 15.4.4.15
func (r *Realm) ArrayLastIndexOf(this Value, args []Value) Value {
	O := r.thisObj(this)                     // 1
	n := r.lenOf(O)                          // 2,3
	if n == 0 && r.Dev&DevLastIndexOf == 0 { // 4
		return Num(-1)
	}
	from := n - 1 // 5
	if len(args) > 1 {
		from = r.ToInteger(args[1])
	}
	var k float64
	if from >= 0 && from == n && r.Dev&DevLastIndexOf != 0 {
		k = n
	} else if from >= 0 { // 6
		k = math.Min(from, n-1) + 0
	} else { // 7
		k = n - math.Abs(from)
	}
	search := arg(args, 0)
	for ; k >= 0; k-- { // 8
		r.tick()
		Pk := ks(k)
		if r.HasProperty(O, Pk) {
			if StrictEquals(search, r.Get(O, Pk)) {
				return Num(k)
			}
		}
	}
	return Num(-1) // 9
}

// iterate is the common skeleton of 15.4.4.16-20: steps 1-5 and the loop of
// step 7 (6 for filter/map is done by the caller through pre()).
func (r *Realm) iterate(this Value, args []Value, pre func(O *Obj, n float64), body func(O *Obj, k float64, kValue, res Value) (stop bool)) {
	O := r.thisObj(this) // 1
	cb := arg(args, 0)
	if r.Dev&DevCallableFirst != 0 && !IsCallable(cb) {
		throwType("callbackfn is not callable")
	}
	n := r.lenOf(O)      // 2,3
	if !IsCallable(cb) { // 4
		throwType("callbackfn is not callable")
	}
	T := arg(args, 1) // 5
	if pre != nil {
		pre(O, n)
	}
	for k := 0.0; k < n; k++ { // 6,7
		r.tick()
		Pk := ks(k)
		if r.HasProperty(O, Pk) {
			kValue := r.Get(O, Pk)
			res := r.Call(cb, T, kValue, Num(k), ObjV(O))
			if body(O, k, kValue, res) {
				return
			}
		}
	}
}

// 15.4.4.16
func (r *Realm) ArrayEvery(this Value, args []Value) Value {
	out := true
	r.iterate(this, args, nil, func(_ *Obj, _ float64, _, res Value) bool {
		if !ToBoolean(res) {
			out = false
			return true
		}
		return false
	})
	return Bool(out)
}

// 15.4.4.17
func (r *Realm) ArraySome(this Value, args []Value) Value {
	out := false
	r.iterate(this, args, nil, func(_ *Obj, _ float64, _, res Value) bool {
		if ToBoolean(res) {
			out = true
			return true
		}
		return false
	})
	return Bool(out)
}

// 15.4.4.18
func (r *Realm) ArrayForEach(this Value, args []Value) Value {
	r.iterate(this, args, nil, func(*Obj, float64, Value, Value) bool { return false })
	return Undefined
}

// 15.4.4.19
func (r *Realm) ArrayMap(this Value, args []Value) Value {
	var A *Obj
	r.iterate(this, args, func(_ *Obj, n float64) {
		if n > 1<<20 && r.Dev&DevMapEagerAlloc != 0 {
			panic(Budget{})
		}
		A = r.NewArray(uint32(n)) // 6: new Array(len)
	}, func(_ *Obj, k float64, _, res Value) bool {
		r.DefineOwnProperty(A, ks(k), elemDesc(res), false)
		return false
	})
	if r.Dev&DevResultHoles != 0 {
		r.devFillHoles(A, A.props["length"].Value.N)
	}
	return ObjV(A)
}

// 15.4.4.20
func (r *Realm) ArrayFilter(this Value, args []Value) Value {
	var A *Obj
	to := 0.0
	r.iterate(this, args, func(*Obj, float64) {
		A = r.NewArray(0) // 6
	}, func(_ *Obj, _ float64, kValue, res Value) bool {
		if ToBoolean(res) {
			r.DefineOwnProperty(A, ks(to), elemDesc(kValue), false)
			to++
		}
		return false
	})
	return ObjV(A)
}

// 15.4.4.21
func (r *Realm) ArrayReduce(this Value, args []Value) Value {
	O := r.thisObj(this) // 1
	cb := arg(args, 0)
	if r.Dev&DevCallableFirst != 0 && !IsCallable(cb) {
		throwType("callbackfn is not callable")
	}
	n := r.lenOf(O)      // 2,3
	if !IsCallable(cb) { // 4
		throwType("callbackfn is not callable")
	}
	if n == 0 && len(args) < 2 { // 5
		throwType("reduce of empty array with no initial value")
	}
	k := 0.0 // 6
	var acc Value
	if len(args) >= 2 { // 7
		acc = args[1]
	} else { // 8
		kPresent := false
		for !kPresent && k < n {
			r.tick()
			Pk := ks(k)
			kPresent = r.HasProperty(O, Pk)
			if kPresent {
				acc = r.Get(O, Pk)
			}
			k++
		}
		if !kPresent {
			if r.Dev&DevReduceNoElement == 0 {
				throwType("reduce of empty array with no initial value")
			}
			acc = Undefined
		}
	}
	for ; k < n; k++ { // 9
		r.tick()
		Pk := ks(k)
		if r.HasProperty(O, Pk) {
			kValue := r.Get(O, Pk)
			acc = r.Call(cb, Undefined, acc, kValue, Num(k), ObjV(O))
		}
	}
	return acc // 10
}

// 15.4.4.22
func (r *Realm) ArrayReduceRight(this Value, args []Value) Value {
	O := r.thisObj(this) // 1
	cb := arg(args, 0)
	if r.Dev&DevCallableFirst != 0 && !IsCallable(cb) {
		throwType("callbackfn is not callable")
	}
	n := r.lenOf(O)      // 2,3
	if !IsCallable(cb) { // 4
		throwType("callbackfn is not callable")
	}
	if n == 0 && len(args) < 2 { // 5
		throwType("reduceRight of empty array with no initial value")
	}
	k := n - 1 // 6
	var acc Value
	if len(args) >= 2 { // 7
		acc = args[1]
	} else { // 8
		kPresent := false
		for !kPresent && k >= 0 {
			r.tick()
			Pk := ks(k)
			kPresent = r.HasProperty(O, Pk)
			if kPresent {
				acc = r.Get(O, Pk)
			}
			k--
		}
		if !kPresent {
			if r.Dev&DevReduceNoElement == 0 {
				throwType("reduceRight of empty array with no initial value")
			}
			acc = Undefined
		}
	}
	for ; k >= 0; k-- { // 9
		r.tick()
		Pk := ks(k)
		if r.HasProperty(O, Pk) {
			kValue := r.Get(O, Pk)
			idx := Num(k)
			if r.Dev&DevReduceRightIndex != 0 {
				idx = Str(Pk)
			}
			acc = r.Call(cb, Undefined, acc, kValue, idx, ObjV(O))
		}
	}
	return acc // 10
}

// Methods maps the 15.4.4 method names to their algorithms (sort is checked by
// relation, see SortCompare; it has no entry).
func (r *Realm) Methods() map[string]func(Value, []Value) Value {
	return map[string]func(Value, []Value) Value{
		"toString": r.ArrayToString, "toLocaleString": r.ArrayToLocaleString,
		"concat": r.ArrayConcat, "join": r.ArrayJoin, "pop": r.ArrayPop, "push": r.ArrayPush,
		"reverse": r.ArrayReverse, "shift": r.ArrayShift, "slice": r.ArraySlice,
		"splice": r.ArraySplice, "unshift": r.ArrayUnshift, "indexOf": r.ArrayIndexOf,
		"lastIndexOf": r.ArrayLastIndexOf, "every": r.ArrayEvery, "some": r.ArraySome,
		"forEach": r.ArrayForEach, "map": r.ArrayMap, "filter": r.ArrayFilter,
		"reduce": r.ArrayReduce, "reduceRight": r.ArrayReduceRight,
	}
}

func (r *Realm) installArrayProto(def func(o *Obj, name string, f Func) *Obj) {
	ms := r.Methods()
	names := make([]string, 0, len(ms))
	for name := range ms {
		names = append(names, name)
	}
	sort.Strings(names)
	for _, name := range names {
		m := ms[name]
		def(r.ArrayProto, name, func(_ *Realm, this Value, args []Value) Value { return m(this, args) })
	}
}
