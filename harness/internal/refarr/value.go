// Package refarr is a standalone reference model of the part of ECMAScript 5.1
// that Array objects and the Array.prototype methods (clause 15.4) are defined
// by: a small value model, ordinary objects with property attributes
// (8.6, 8.10, 8.12), the type conversions of clause 9 for the value kinds the
// workload uses, the Array exotic [[DefineOwnProperty]] (15.4.5.1) and every
// algorithm of 15.4.4 written step by step as in the specification text.
//
// It does not import otto and shares no code with it.
//
// Domain restrictions (violations panic with Unsupported, never silently
// approximate): strings are ASCII; Number->String is implemented for integers
// below 2^53 and for short dyadic fractions; String->Number for literals whose
// mantissa is below 2^53 and whose decimal exponent is within +-22 (exact by
// construction: one correctly rounded IEEE operation).
package refarr

import (
	"math"
	"strconv"
	"strings"
)

// Kind is the ES type tag of a Value.
type Kind uint8

const (
	KUndef Kind = iota
	KNull
	KBool
	KNum
	KStr
	KObj
)

// Value is an ECMAScript language value.
type Value struct {
	K Kind
	B bool
	N float64
	S string
	O *Obj
}

var (
	Undefined = Value{K: KUndef}
	Null      = Value{K: KNull}
)

func Bool(b bool) Value       { return Value{K: KBool, B: b} }
func Num(n float64) Value     { return Value{K: KNum, N: n} }
func Str(s string) Value      { return Value{K: KStr, S: s} }
func ObjV(o *Obj) Value       { return Value{K: KObj, O: o} }
func (v Value) IsUndef() bool { return v.K == KUndef }
func (v Value) IsObj() bool   { return v.K == KObj }

// Throw is an ECMAScript exception travelling as a Go panic. Class is the
// native error class ("TypeError", "RangeError") or "" when a callback threw
// an arbitrary value (Val).
type Throw struct {
	Class string
	Val   Value
	Why   string
}

// Unsupported is raised when an input leaves the domain the model implements
// exactly. The case must then be skipped, never compared.
type Unsupported struct{ Why string }

// Budget is raised when the model exceeded its step budget.
type Budget struct{}

func throwType(why string)  { panic(&Throw{Class: "TypeError", Why: why}) }
func throwRange(why string) { panic(&Throw{Class: "RangeError", Why: why}) }

// ------------------------------------------------------------------ 9.x

// ToBoolean is 9.2.
func ToBoolean(v Value) bool {
	switch v.K {
	case KBool:
		return v.B
	case KNum:
		return !(v.N == 0 || v.N != v.N)
	case KStr:
		return v.S != ""
	case KObj:
		return true
	}
	return false
}

// ToPrimitive is 9.1.
func (r *Realm) ToPrimitive(v Value, hint string) Value {
	if v.K != KObj {
		return v
	}
	return r.DefaultValue(v.O, hint)
}

// ToNumber is 9.3.
func (r *Realm) ToNumber(v Value) float64 {
	switch v.K {
	case KUndef:
		return math.NaN()
	case KNull:
		return 0
	case KBool:
		if v.B {
			return 1
		}
		return 0
	case KNum:
		return v.N
	case KStr:
		return StringToNumber(v.S)
	}
	return r.ToNumber(r.ToPrimitive(v, "Number"))
}

// ToInteger is 9.4.
func (r *Realm) ToInteger(v Value) float64 {
	n := r.ToNumber(v)
	if n != n {
		return 0
	}
	if n == 0 || math.IsInf(n, 0) {
		return n
	}
	// sign(number) * floor(abs(number))
	f := math.Floor(math.Abs(n))
	if n < 0 {
		return -f
	}
	return f
}

// Uint32OfNumber is steps 2-5 of 9.6.
func Uint32OfNumber(n float64) float64 {
	if n != n || n == 0 || math.IsInf(n, 0) {
		return 0
	}
	posInt := math.Floor(math.Abs(n))
	if n < 0 {
		posInt = -posInt
	}
	const two32 = 4294967296.0
	m := math.Mod(posInt, two32) // exact
	if m < 0 {
		m += two32
	}
	return m + 0 // +0, never -0
}

// ToUint32 is 9.6.
func (r *Realm) ToUint32(v Value) float64 { return Uint32OfNumber(r.ToNumber(v)) }

// ToString is 9.8.
func (r *Realm) ToString(v Value) string {
	switch v.K {
	case KUndef:
		return "undefined"
	case KNull:
		return "null"
	case KBool:
		if v.B {
			return "true"
		}
		return "false"
	case KNum:
		return NumberToString(v.N)
	case KStr:
		return v.S
	}
	return r.ToString(r.ToPrimitive(v, "String"))
}

// ToObject is 9.9.
func (r *Realm) ToObject(v Value) *Obj {
	switch v.K {
	case KUndef, KNull:
		throwType("ToObject(undefined/null)")
	case KBool:
		o := r.NewObject("Boolean", r.BooleanProto)
		o.Prim = v
		return o
	case KNum:
		o := r.NewObject("Number", r.NumberProto)
		o.Prim = v
		return o
	case KStr:
		return r.NewStringObject(v.S)
	}
	return v.O
}

// IsCallable is 9.11.
func IsCallable(v Value) bool { return v.K == KObj && v.O.Call != nil }

// SameValue is 9.12.
func SameValue(x, y Value) bool {
	if x.K != y.K {
		return false
	}
	switch x.K {
	case KUndef, KNull:
		return true
	case KNum:
		if x.N != x.N && y.N != y.N {
			return true
		}
		if x.N == 0 && y.N == 0 {
			return math.Signbit(x.N) == math.Signbit(y.N)
		}
		return x.N == y.N
	case KStr:
		return x.S == y.S
	case KBool:
		return x.B == y.B
	}
	return x.O == y.O
}

// StrictEquals is 11.9.6.
func StrictEquals(x, y Value) bool {
	if x.K != y.K {
		return false
	}
	switch x.K {
	case KUndef, KNull:
		return true
	case KNum:
		return x.N == y.N // NaN != NaN, +0 == -0
	case KStr:
		return x.S == y.S
	case KBool:
		return x.B == y.B
	}
	return x.O == y.O
}

// ------------------------------------------------------------------ 9.8.1

// NumberToString is 9.8.1 on the supported domain.
func NumberToString(m float64) string {
	switch {
	case m != m:
		return "NaN"
	case m == 0:
		return "0"
	case m < 0:
		return "-" + NumberToString(-m)
	case math.IsInf(m, 1):
		return "Infinity"
	}
	ip := math.Floor(m)
	if ip >= 9007199254740992 {
		panic(Unsupported{"NumberToString >= 2^53"})
	}
	s := strconv.FormatUint(uint64(ip), 10)
	fr := m - ip // exact
	if fr == 0 {
		return s
	}
	if m < 1e-6 {
		panic(Unsupported{"NumberToString < 1e-6"})
	}
	var digs []byte
	for i := 0; i < 12 && fr != 0; i++ {
		fr *= 10 // exact while fr is a short dyadic fraction
		d := math.Floor(fr)
		digs = append(digs, byte('0'+int(d)))
		fr -= d
	}
	if fr != 0 || len(s)+len(digs) > 15 {
		panic(Unsupported{"NumberToString: fraction too long"})
	}
	return s + "." + string(digs)
}

// ------------------------------------------------------------------ 9.3.1

func isStrWhite(c rune) bool {
	switch c {
	case '\t', '\n', '\v', '\f', '\r', ' ', 0xA0, 0xFEFF, 0x2028, 0x2029,
		0x1680, 0x180E, 0x202F, 0x205F, 0x3000:
		return true
	}
	return c >= 0x2000 && c <= 0x200A
}

// StringToNumber is 9.3.1 on the supported domain.
func StringToNumber(s string) float64 {
	s = strings.TrimFunc(s, isStrWhite)
	if s == "" {
		return 0
	}
	if len(s) > 2 && s[0] == '0' && (s[1] == 'x' || s[1] == 'X') {
		var v float64
		for _, c := range s[2:] {
			var d int
			switch {
			case c >= '0' && c <= '9':
				d = int(c - '0')
			case c >= 'a' && c <= 'f':
				d = int(c-'a') + 10
			case c >= 'A' && c <= 'F':
				d = int(c-'A') + 10
			default:
				return math.NaN()
			}
			v = v*16 + float64(d)
			if v >= 9007199254740992 {
				panic(Unsupported{"hex literal >= 2^53"})
			}
		}
		return v
	}
	neg := false
	i := 0
	if s[0] == '+' || s[0] == '-' {
		neg = s[0] == '-'
		i = 1
	}
	if s[i:] == "Infinity" {
		if neg {
			return math.Inf(-1)
		}
		return math.Inf(1)
	}
	var mant uint64
	exp10 := 0
	nd := 0
	big := false
	for ; i < len(s) && s[i] >= '0' && s[i] <= '9'; i++ {
		nd++
		if !big {
			mant = mant*10 + uint64(s[i]-'0')
			big = mant >= 1<<53
		}
	}
	if i < len(s) && s[i] == '.' {
		i++
		for ; i < len(s) && s[i] >= '0' && s[i] <= '9'; i++ {
			nd++
			if !big {
				mant = mant*10 + uint64(s[i]-'0')
				big = mant >= 1<<53
			}
			exp10--
		}
	}
	if nd == 0 {
		return math.NaN()
	}
	if i < len(s) && (s[i] == 'e' || s[i] == 'E') {
		i++
		eneg := false
		if i < len(s) && (s[i] == '+' || s[i] == '-') {
			eneg = s[i] == '-'
			i++
		}
		ed := 0
		e := 0
		for ; i < len(s) && s[i] >= '0' && s[i] <= '9'; i++ {
			ed++
			e = e*10 + int(s[i]-'0')
			if e > 10000 {
				panic(Unsupported{"exponent too large"})
			}
		}
		if ed == 0 {
			return math.NaN()
		}
		if eneg {
			e = -e
		}
		exp10 += e
	}
	if i != len(s) {
		return math.NaN()
	}
	if big {
		panic(Unsupported{"mantissa >= 2^53"})
	}
	v := float64(mant)
	switch {
	case mant == 0:
	case exp10 > 22 || exp10 < -22:
		panic(Unsupported{"decimal exponent outside +-22"})
	case exp10 > 0:
		v *= pow10[exp10]
	case exp10 < 0:
		v /= pow10[-exp10]
	}
	if neg {
		v = -v
	}
	return v
}

var pow10 = [...]float64{1, 1e1, 1e2, 1e3, 1e4, 1e5, 1e6, 1e7, 1e8, 1e9, 1e10, 1e11, 1e12, 1e13, 1e14, 1e15, 1e16, 1e17, 1e18, 1e19, 1e20, 1e21, 1e22}

// ------------------------------------------------------------------ 15.4

// ArrayIndex implements the definition of 15.4 literally: P is an array index
// iff ToString(ToUint32(P)) == P and ToUint32(P) != 2^32-1.
func ArrayIndex(p string) (uint32, bool) {
	// A name that cannot be a canonical uint32 decimal is rejected before the
	// numeric conversion so that arbitrary property names never leave the
	// supported StringToNumber domain; the literal definition is applied to the
	// rest.
	if len(p) == 0 || len(p) > 10 {
		return 0, false
	}
	for i := 0; i < len(p); i++ {
		if !(p[i] >= '0' && p[i] <= '9') && !strings.ContainsRune(" +-.eExX\t", rune(p[i])) {
			return 0, false
		}
	}
	n := func() (n float64) {
		defer func() {
			if e := recover(); e != nil {
				if _, ok := e.(Unsupported); ok {
					n = math.NaN()
					return
				}
				panic(e)
			}
		}()
		return StringToNumber(p)
	}()
	u := Uint32OfNumber(n)
	if NumberToString(u) != p {
		return 0, false
	}
	if u == 4294967295 {
		return 0, false
	}
	return uint32(u), true
}
