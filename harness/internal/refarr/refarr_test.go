package refarr

import (
	"fmt"
	"math"
	"regexp"
	"strings"
	"testing"
)

// show renders an array-like compactly: present values, "_" for holes.
func show(r *Realm, o *Obj) string {
	n := o.GetOwnProperty("length")
	if n == nil {
		return "nolength"
	}
	ln := int(r.ToUint32(n.Value))
	var parts []string
	for i := 0; i < ln; i++ {
		p := o.GetOwnProperty(itoa(i))
		switch {
		case p == nil:
			parts = append(parts, "_")
		case p.Accessor:
			parts = append(parts, "acc")
		default:
			parts = append(parts, showV(r, p.Value))
		}
	}
	return fmt.Sprintf("%d[%s]", ln, strings.Join(parts, ","))
}

func showV(r *Realm, v Value) string {
	switch v.K {
	case KStr:
		return "'" + v.S + "'"
	case KObj:
		if v.O.Class == "Array" {
			return show(r, v.O)
		}
		return "obj"
	}
	if v.K == KNum && v.N == 0 && math.Signbit(v.N) {
		return "-0"
	}
	return r.ToString(v)
}

var H = Value{K: 99} // hole marker in test literals

func arr(r *Realm, vs ...Value) *Obj {
	hole := make([]bool, len(vs))
	for i, v := range vs {
		hole[i] = v.K == 99
	}
	return r.NewArrayOf(vs, hole)
}

func nums(xs ...float64) []Value {
	out := make([]Value, len(xs))
	for i, x := range xs {
		out[i] = Num(x)
	}
	return out
}

func catch(f func()) (cls string) {
	defer func() {
		if e := recover(); e != nil {
			if t, ok := e.(*Throw); ok {
				cls = t.Class
				return
			}
			panic(e)
		}
	}()
	f()
	return ""
}

func TestConversions(t *testing.T) {
	r := NewRealm(0)
	for _, c := range []struct {
		in   string
		want float64
	}{{"", 0}, {" 12 ", 12}, {"1e3", 1000}, {"0x10", 16}, {"-0", math.Copysign(0, -1)}, {"1.5", 1.5}, {".5", .5}, {"5.", 5},
		{"+1", 1}, {"Infinity", math.Inf(1)}, {"-Infinity", math.Inf(-1)}, {"4294967296", 4294967296}, {"1e-2", 0.01}} {
		got := StringToNumber(c.in)
		if got != c.want || math.Signbit(got) != math.Signbit(c.want) {
			t.Errorf("StringToNumber(%q)=%v want %v", c.in, got, c.want)
		}
	}
	for _, s := range []string{"abc", "1e", "1 2", "0x", "-0x10", "e5", ".", "+", "infinity", "1_0"} {
		if g := StringToNumber(s); g == g {
			t.Errorf("StringToNumber(%q)=%v want NaN", s, g)
		}
	}
	for _, c := range []struct {
		in   float64
		want string
	}{{0, "0"}, {math.Copysign(0, -1), "0"}, {1, "1"}, {-7, "-7"}, {4294967295, "4294967295"}, {1.5, "1.5"}, {-0.5, "-0.5"}, {0.25, "0.25"}, {math.NaN(), "NaN"}, {math.Inf(-1), "-Infinity"}, {9007199254740991, "9007199254740991"}} {
		if g := NumberToString(c.in); g != c.want {
			t.Errorf("NumberToString(%v)=%q want %q", c.in, g, c.want)
		}
	}
	for _, c := range []struct{ in, want float64 }{{-1, 4294967295}, {4294967296, 0}, {4294967297, 1}, {2.7, 2}, {-2.7, 4294967294}, {math.NaN(), 0}, {math.Inf(1), 0}, {-4294967296, 0}, {9223372036854777856, 2048}} {
		if g := Uint32OfNumber(c.in); g != c.want {
			t.Errorf("ToUint32(%v)=%v want %v", c.in, g, c.want)
		}
	}
	for _, c := range []struct{ in, want float64 }{{-0.5, 0}, {0.9, 0}, {-7.9, -7}, {math.NaN(), 0}, {math.Inf(-1), math.Inf(-1)}} {
		if g := r.ToInteger(Num(c.in)); g != c.want {
			t.Errorf("ToInteger(%v)=%v want %v", c.in, g, c.want)
		}
	}
}

// The literal definition of "array index" agrees with the syntactic one.
func TestArrayIndexDefinition(t *testing.T) {
	canon := regexp.MustCompile(`^(0|[1-9][0-9]*)$`)
	names := []string{"0", "00", "01", "+1", "1.0", "1e0", " 1", "1 ", "-0", "-1", "1.5", "4294967294", "4294967295", "4294967296",
		"length", "", "abc", "0x1", "9", "10", "4294967293", "42949672950", "1e400", "Infinity", "NaN", "١"}
	for i := 0; i < 3000; i++ {
		names = append(names, itoa(i*1431655+i))
	}
	for _, n := range names {
		_, got := ArrayIndex(n)
		want := false
		if canon.MatchString(n) && len(n) <= 10 {
			var v uint64
			for _, c := range n {
				v = v*10 + uint64(c-'0')
			}
			want = v < 4294967295
		}
		if got != want {
			t.Errorf("ArrayIndex(%q)=%v want %v", n, got, want)
		}
	}
}

func TestLengthSemantics(t *testing.T) {
	r := NewRealm(0)
	a := arr(r, nums(1, 2, 3)...)
	r.Put(a, "5", Num(9), false)
	if s := show(r, a); s != "6[1,2,3,_,_,9]" {
		t.Fatal(s)
	}
	r.Put(a, "length", Num(2), false)
	if s := show(r, a); s != "2[1,2]" {
		t.Fatal(s)
	}
	for _, bad := range []Value{Num(-1), Num(1.5), Num(4294967296), Num(math.NaN()), Str("abc"), Undefined} {
		if c := catch(func() { r.Put(a, "length", bad, false) }); c != "RangeError" {
			t.Errorf("length=%v: %q", bad, c)
		}
	}
	r.Put(a, "length", Str("3"), false)
	if s := show(r, a); s != "3[1,2,_]" {
		t.Fatal(s)
	}
	// non-canonical names are plain properties
	for _, n := range []string{"01", "+1", "1.0", "1e0", " 1", "-0", "4294967295", "4294967296"} {
		r.Put(a, n, Num(7), false)
	}
	if s := show(r, a); s != "3[1,2,_]" {
		t.Fatal(s)
	}
	r.Put(a, "4294967294", Num(7), false)
	if l := a.GetOwnProperty("length").Value.N; l != 4294967295 {
		t.Fatal(l)
	}
	// shrinking stops at a non-configurable element (15.4.5.1 3.l)
	b := arr(r, nums(0, 1, 2, 3, 4)...)
	r.DefineOwnProperty(b, "2", Desc{HasC: true, C: false}, true)
	r.Put(b, "length", Num(0), false)
	if s := show(r, b); s != "3[0,1,2]" {
		t.Fatal(s)
	}
	if c := catch(func() { r.Put(b, "length", Num(0), true) }); c != "TypeError" {
		t.Fatal(c)
	}
	// {value:1, writable:false} shrinking past a non-configurable element leaves length non-writable
	c := arr(r, nums(0, 1, 2, 3)...)
	r.DefineOwnProperty(c, "1", Desc{HasC: true, C: false}, true)
	ok := r.DefineOwnProperty(c, "length", Desc{HasValue: true, Value: Num(0), HasW: true, W: false}, false)
	if ok || show(r, c) != "2[0,1]" || c.GetOwnProperty("length").W {
		t.Fatal(ok, show(r, c), c.GetOwnProperty("length").W)
	}
	// non-writable length: append rejected, in-range write allowed
	if cl := catch(func() { r.Put(c, "2", Num(5), true) }); cl != "TypeError" {
		t.Fatal(cl)
	}
	r.Put(c, "0", Num(5), true)
	if s := show(r, c); s != "2[5,1]" {
		t.Fatal(s)
	}
	if cl := catch(func() { r.ArrayPush(ObjV(c), nums(1)) }); cl != "TypeError" {
		t.Fatal(cl)
	}
	// frozen
	f := arr(r, nums(1, 2)...)
	r.Freeze(f)
	for name, fn := range map[string]func(){
		"push": func() { r.ArrayPush(ObjV(f), nums(1)) }, "pop": func() { r.ArrayPop(ObjV(f), nil) },
		"shift": func() { r.ArrayShift(ObjV(f), nil) }, "reverse": func() { r.ArrayReverse(ObjV(f), nil) },
		"unshift0": func() { r.ArrayUnshift(ObjV(f), nil) },
	} {
		want := "TypeError"
		if name == "unshift0" {
			want = "TypeError" // Put("length", 2, true) on a non-writable length: [[CanPut]] false
		}
		if cl := catch(fn); cl != want {
			t.Errorf("frozen %s: %q", name, cl)
		}
	}
	if s := show(r, f); s != "2[1,2]" {
		t.Fatal(s)
	}
}

func TestMethods(t *testing.T) {
	r := NewRealm(0)
	A := func(vs ...Value) Value { return ObjV(arr(r, vs...)) }
	sh := func(v Value) string { return showV(r, v) }
	eq := func(name, got, want string) {
		t.Helper()
		if got != want {
			t.Errorf("%s: got %s want %s", name, got, want)
		}
	}
	eq("concat", sh(r.ArrayConcat(A(Num(1), H), []Value{A(H, Num(2)), Num(3), A()})), "5[1,_,_,2,3]")
	eq("concat trailing hole (corrected)", sh(r.ArrayConcat(A(Num(1), H), nil)), "2[1,_]")
	r.Variant = VarResultLength
	eq("concat trailing hole (literal)", sh(r.ArrayConcat(A(Num(1), H), nil)), "1[1]")
	r.Variant = 0
	eq("join", sh(r.ArrayJoin(A(Num(1), H, Null, Undefined, Str("x"), A(Num(2), Num(3))), []Value{Str("-")})), "'1----x-2,3'")
	eq("join default", sh(r.ArrayJoin(A(Num(1), Num(2)), nil)), "'1,2'")
	eq("toString", sh(r.ArrayToString(A(Num(1), A(Num(2), H)), nil)), "'1,2,'")
	o := r.NewObject("Object", r.ObjectProto)
	eq("toString generic", sh(r.ArrayToString(ObjV(o), nil)), "'[object Object]'")

	a := A(nums(1, 2, 3)...)
	eq("pop", sh(r.ArrayPop(a, nil)), "3")
	eq("pop recv", sh(a), "2[1,2]")
	eq("push", sh(r.ArrayPush(a, nums(7, 8))), "4")
	eq("shift", sh(r.ArrayShift(a, nil)), "1")
	eq("shift recv", sh(a), "3[2,7,8]")
	eq("unshift", sh(r.ArrayUnshift(a, nums(0, 1))), "5")
	eq("unshift recv", sh(a), "5[0,1,2,7,8]")
	eq("reverse odd", sh(r.ArrayReverse(a, nil)), "5[8,7,2,1,0]")
	eq("reverse holes", sh(r.ArrayReverse(A(Num(1), H, Num(3), H), nil)), "4[_,3,_,1]")
	eq("slice", sh(r.ArraySlice(A(nums(0, 1, 2, 3, 4)...), nums(1, -1))), "3[1,2,3]")
	eq("slice neg", sh(r.ArraySlice(A(nums(0, 1, 2, 3, 4)...), nums(-2))), "2[3,4]")
	eq("slice hole", sh(r.ArraySlice(A(Num(0), H, Num(2)), nums(0, 2))), "2[0,_]")
	eq("slice end undefined", sh(r.ArraySlice(A(nums(0, 1, 2)...), []Value{Num(1), Undefined})), "2[1,2]")
	s := A(nums(0, 1, 2, 3, 4)...)
	eq("splice", sh(r.ArraySplice(s, []Value{Num(1), Num(2), Str("a"), Str("b"), Str("c")})), "2[1,2]")
	eq("splice recv", sh(s), "6[0,'a','b','c',3,4]")
	eq("splice shrink", sh(r.ArraySplice(s, nums(-3, 100))), "3['c',3,4]")
	eq("splice shrink recv", sh(s), "3[0,'a','b']")
	eq("splice omitted (ES5.1 text)", sh(r.ArraySplice(s, nums(1))), "0[]")
	r.Variant = VarSpliceOmitted
	eq("splice omitted (web)", sh(r.ArraySplice(s, nums(1))), "2['a','b']")
	r.Variant = 0
	eq("indexOf", sh(r.ArrayIndexOf(A(nums(1, 2, 1)...), nums(1, 1))), "2")
	eq("indexOf NaN", sh(r.ArrayIndexOf(A(Num(math.NaN())), []Value{Num(math.NaN())})), "-1")
	eq("indexOf strict", sh(r.ArrayIndexOf(A(Str("1")), nums(1))), "-1")
	eq("indexOf -0", sh(r.ArrayIndexOf(A(Num(0)), []Value{Num(math.Copysign(0, -1)), Num(math.Copysign(0, -1))})), "0")
	eq("indexOf hole", sh(r.ArrayIndexOf(A(H, Undefined), []Value{Undefined})), "1")
	eq("indexOf neg", sh(r.ArrayIndexOf(A(nums(1, 2, 3)...), nums(1, -1))), "-1")
	eq("indexOf from>=len", sh(r.ArrayIndexOf(A(nums(1, 2, 3)...), nums(3, 3))), "-1")
	eq("lastIndexOf", sh(r.ArrayLastIndexOf(A(nums(1, 2, 1)...), nums(1))), "2")
	eq("lastIndexOf from", sh(r.ArrayLastIndexOf(A(nums(1, 2, 1)...), nums(1, 1))), "0")
	eq("lastIndexOf undefined from", sh(r.ArrayLastIndexOf(A(nums(1, 2, 1)...), []Value{Num(1), Undefined})), "0")
	eq("lastIndexOf neg", sh(r.ArrayLastIndexOf(A(nums(1, 2, 1)...), nums(1, -1))), "2")
	eq("lastIndexOf -inf", sh(r.ArrayLastIndexOf(A(nums(1, 2, 1)...), nums(1, math.Inf(-1)))), "-1")
	// array-like whose property at index len must not be seen
	al := r.NewObject("Object", r.ObjectProto)
	r.Put(al, "length", Num(2), true)
	r.Put(al, "2", Str("x"), true)
	eq("lastIndexOf from==len", sh(r.ArrayLastIndexOf(ObjV(al), []Value{Str("x"), Num(2)})), "-1")

	var log []string
	cb := ObjV(r.NewFunction("cb", func(r *Realm, this Value, args []Value) Value {
		log = append(log, fmt.Sprintf("%s@%s", sh(args[0]), sh(args[1])))
		return Bool(args[0].N > 1)
	}))
	eq("filter", sh(r.ArrayFilter(A(Num(1), H, Num(2), Num(3)), []Value{cb})), "2[2,3]")
	eq("filter log", strings.Join(log, " "), "1@0 2@2 3@3")
	log = nil
	eq("map", sh(r.ArrayMap(A(Num(1), H, Num(2)), []Value{cb})), "3[false,_,true]")
	eq("every", sh(r.ArrayEvery(A(Num(2), Num(1), Num(3)), []Value{cb})), "false")
	eq("some", sh(r.ArraySome(A(Num(0), Num(5), Num(3)), []Value{cb})), "true")
	eq("every empty", sh(r.ArrayEvery(A(H, H), []Value{cb})), "true")
	sum := ObjV(r.NewFunction("sum", func(r *Realm, this Value, args []Value) Value {
		if args[2].K != KNum {
			t.Errorf("index is not a Number")
		}
		return Num(args[0].N*10 + args[1].N)
	}))
	eq("reduce", sh(r.ArrayReduce(A(H, Num(1), Num(2), H, Num(3)), []Value{sum})), "123")
	eq("reduceRight", sh(r.ArrayReduceRight(A(H, Num(1), Num(2), H, Num(3)), []Value{sum})), "321")
	eq("reduce init", sh(r.ArrayReduce(A(), []Value{sum, Num(4)})), "4")
	for name, f := range map[string]func(){
		"reduce empty":        func() { r.ArrayReduce(A(), []Value{sum}) },
		"reduce holes":        func() { r.ArrayReduce(A(H, H), []Value{sum}) },
		"reduceRight holes":   func() { r.ArrayReduceRight(A(H, H), []Value{sum}) },
		"forEach noncallable": func() { r.ArrayForEach(A(), []Value{Num(1)}) },
		"call on undefined":   func() { r.ArrayJoin(Undefined, nil) },
	} {
		if c := catch(f); c != "TypeError" {
			t.Errorf("%s: %q", name, c)
		}
	}
	// elements appended during iteration are not visited; deleted ones skipped
	log = nil
	var recv *Obj
	mut := ObjV(r.NewFunction("mut", func(r *Realm, this Value, args []Value) Value {
		log = append(log, sh(args[0]))
		if args[1].N == 0 {
			r.ArrayPush(ObjV(recv), nums(9))
			r.Delete(recv, "1", false)
		}
		return Undefined
	}))
	recv = arr(r, nums(1, 2, 3)...)
	r.ArrayForEach(ObjV(recv), []Value{mut})
	eq("forEach mutation", strings.Join(log, " "), "1 3")

	// constructor
	eq("Array(3)", sh(ObjV(r.ArrayConstruct(nums(3)))), "3[_,_,_]")
	eq("Array('3')", sh(ObjV(r.ArrayConstruct([]Value{Str("3")}))), "1['3']")
	eq("Array(1,2)", sh(ObjV(r.ArrayConstruct(nums(1, 2)))), "2[1,2]")
	for _, bad := range []float64{-1, 1.5, 4294967296, math.NaN(), math.Inf(1)} {
		if c := catch(func() { r.ArrayConstruct(nums(bad)) }); c != "RangeError" {
			t.Errorf("Array(%v): %q", bad, c)
		}
	}
	// generic receivers: string wrapper is read-only
	if c := catch(func() { r.ArrayPush(Str("ab"), []Value{Str("c")}) }); c != "TypeError" {
		t.Errorf("push on string: %q", c)
	}
	eq("join string", sh(r.ArrayJoin(Str("abc"), []Value{Str("-")})), "'a-b-c'")
	// pop on a generic object: ES5.1 literal text stores the string index
	g := r.NewObject("Object", r.ObjectProto)
	r.Put(g, "length", Num(2.7), true)
	r.Put(g, "1", Str("x"), true)
	eq("generic pop", sh(r.ArrayPop(ObjV(g), nil)), "'x'")
	eq("generic pop len", sh(g.GetOwnProperty("length").Value), "1")
	// inherited index participates through HasProperty/Get
	r.Put(r.ArrayProto, "1", Str("P"), true)
	h := arr(r, Num(1), H, Num(3))
	eq("inherited join", sh(r.ArrayJoin(ObjV(h), nil)), "'1,P,3'")
	eq("inherited shift", sh(r.ArrayShift(ObjV(h), nil)), "1")
	eq("inherited shift recv", show(r, h), "2['P',3]")
}
