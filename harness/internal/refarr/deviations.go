package refarr

// Models of KNOWN deviations of the implementation under test (see Realm.Dev).
// Each constant reproduces, inside the otherwise pure ES5.1 model, what one
// recorded defect does. They exist only so that a known-finding matcher can
// decide "this failure is exactly what defect X yields" (a deviation model)
// instead of matching on input regions. The oracle never sets them.
const (
	// DevResultHoles: concat, slice, splice and map create their result from a
	// Go slice whose absent positions hold the zero Value (= undefined), so holes
	// come back as own properties with value undefined.
	DevResultHoles = 1 << iota
	// DevReduceRightIndex: reduceRight passes the property KEY (a String) as the
	// index argument.
	DevReduceRightIndex
	// DevReduceNoElement: reduce/reduceRight over a non-empty array-like without
	// any present element and without initialValue return undefined instead of
	// throwing TypeError (15.4.4.21/22 step 8.c).
	DevReduceNoElement
	// DevLengthOneConversion: 15.4.5.1 step 3 converts the new length once
	// instead of ToUint32(v) followed by ToNumber(v).
	DevLengthOneConversion
	// DevSpliceNoArgs: splice() without arguments deletes len-start elements.
	DevSpliceNoArgs
	// DevLooseIndex: the array index test is strconv.ParseInt (accepts "01",
	// "+1", "-0", "007"); the element is stored under the canonical name, and
	// when the index is below length the property is ALSO defined under the
	// original spelling.
	DevLooseIndex
	// DevUndefinedThis: Function.prototype.call(undefined, ...) hands the global
	// object to a built-in as its this value (ES5.1 15.3.4.4 passes thisArg
	// unchanged, so 15.4.4.x step 1 ToObject(undefined) must throw TypeError).
	DevUndefinedThis
	// DevReverseDeleteFirst: in reverse, when only the upper element exists, the
	// upper element is deleted before the lower one is put (15.4.4.8 step 6.i
	// puts first); observable when one of the two operations throws.
	DevReverseDeleteFirst
	// DevReturnsThisValue: reverse and sort return the original this value
	// instead of the result of ToObject(this) (15.4.4.8 step 7, 15.4.4.11).
	DevReturnsThisValue
	// DevLastIndexOf: lastIndexOf has no "len is 0 -> -1" exit before fromIndex
	// is converted, and clamps fromIndex with > len instead of >= len, so the
	// property named ToString(len) is examined when fromIndex == len.
	DevLastIndexOf
	// DevCallableFirst: the callback methods test IsCallable(callbackfn) before
	// reading and converting length (15.4.4.16-22 steps 2-4).
	DevCallableFirst
	// DevJoinSepFirst: join converts the separator before reading length
	// (15.4.4.5 steps 2-5).
	DevJoinSepFirst
	// DevLengthSameValue: defining length with its current value on an array
	// whose length is not writable is rejected (the "newLen >= oldLen" test of
	// 15.4.5.1 step 3.f is implemented as ">").
	DevLengthSameValue
	// DevMapEagerAlloc: map allocates ToUint32(length) result slots before the
	// first callback call; with a huge length the process dies (out of memory)
	// although the algorithm would stop early (throwing callback). Modelled as
	// "infeasible" (Budget) so such cases are not run against the implementation.
	DevMapEagerAlloc
)

// looseIndex is the index recognition of the implementation under test:
// an optionally signed run of decimal digits whose value is in [0, 2^32-1).
func looseIndex(p string) (float64, bool) {
	s := p
	neg := false
	if len(s) > 0 && (s[0] == '+' || s[0] == '-') {
		neg = s[0] == '-'
		s = s[1:]
	}
	if len(s) == 0 || len(s) > 18 {
		return 0, false
	}
	var v float64
	for i := 0; i < len(s); i++ {
		if s[i] < '0' || s[i] > '9' {
			return 0, false
		}
		v = v*10 + float64(s[i]-'0')
	}
	if neg && v != 0 {
		return 0, false
	}
	if v >= 4294967295 {
		return 0, false
	}
	return v, true
}
