package refarr

// Models of known deviations of the implementation under test. See Realm.Dev.
const (
	devNone = 0
)
