package refarr

// Prop is a property: a data property (Value, W) or an accessor property
// (Get, Set), plus the shared attributes E and C (8.6.1).
type Prop struct {
	Accessor bool
	Value    Value
	Get, Set *Obj // nil = undefined
	W, E, C  bool
	// uW/uE/uC: the attribute was absent from the descriptor that CREATED the
	// property and has not been defined since. Irrelevant for ES5.1 (absent
	// means false); the implementation under test remembers "unset" and leaves
	// such fields out of the descriptors Object.freeze/seal and [[Put]] build,
	// which is observable only together with DevLooseIndex (see fullDescDev).
	uW, uE, uC bool
}

// Desc is a Property Descriptor (8.10): every field may be absent.
type Desc struct {
	HasValue, HasW, HasGet, HasSet, HasE, HasC bool
	Value                                      Value
	W, E, C                                    bool
	Get, Set                                   *Obj
}

func (d Desc) isAccessor() bool { return d.HasGet || d.HasSet }           // 8.10.1
func (d Desc) isData() bool     { return d.HasValue || d.HasW }           // 8.10.2
func (d Desc) isGeneric() bool  { return !d.isAccessor() && !d.isData() } // 8.10.3

// DataDesc is the fully populated data descriptor {V, w, e, c}.
func DataDesc(v Value, w, e, c bool) Desc {
	return Desc{HasValue: true, Value: v, HasW: true, W: w, HasE: true, E: e, HasC: true, C: c}
}

// Func is the signature of a callable object's [[Call]].
type Func func(r *Realm, this Value, args []Value) Value

// Obj is an object.
type Obj struct {
	Class string
	Proto *Obj
	Ext   bool
	keys  []string
	props map[string]*Prop
	Call  Func
	Prim  Value  // [[PrimitiveValue]] of wrappers
	Name  string // identity label used by dumps ("" = anonymous)
}

// Realm holds the intrinsics a case runs against and the step budget.
type Realm struct {
	ObjectProto, FunctionProto, ArrayProto, StringProto, NumberProto, BooleanProto *Obj
	ObjectProtoToString                                                            *Obj
	// Global stands for the global object (only reachable through DevUndefinedThis).
	Global *Obj

	Steps, MaxSteps int

	// Variant selects between readings where ES5.1 is known to be erroneous or
	// where it diverges from the web (see Variant* constants); Touched records
	// which of those points an execution actually reached.
	Variant, Touched int

	// Dev switches on models of KNOWN deviations of the implementation under
	// test (Dev* constants in deviations.go). It is used only by known-finding
	// matchers to decide whether an observed failure is an instance of a recorded
	// defect; the oracle always runs with Dev == 0 (pure ES5.1).
	Dev int
}

const (
	// VarSpliceOmitted: splice(start) with deleteCount omitted. ES5.1 text:
	// ToInteger(undefined)=0. Bit set: web/ES2015 reading len-start.
	VarSpliceOmitted = 1 << iota
	// VarResultLength: concat/slice/splice build the result with
	// [[DefineOwnProperty]] only, so trailing holes do not count towards its
	// length in the ES5.1 text (erratum, fixed in ES2015 by an explicit Put of
	// "length"). Bit set: ES5.1 literal text (length not set); clear: corrected.
	VarResultLength
	// VarPopStringLength: 15.4.4.6 step 5.d puts the *string* indx as length.
	// Bit set: ES5.1 literal text (string); clear: number len-1.
	VarPopStringLength
)

func (r *Realm) tick() {
	r.Steps++
	if r.MaxSteps > 0 && r.Steps > r.MaxSteps {
		panic(Budget{})
	}
}

// NewObject creates an ordinary extensible object.
func (r *Realm) NewObject(class string, proto *Obj) *Obj {
	return &Obj{Class: class, Proto: proto, Ext: true, props: map[string]*Prop{}}
}

// NewFunction creates a callable object.
func (r *Realm) NewFunction(name string, f Func) *Obj {
	o := r.NewObject("Function", r.FunctionProto)
	o.Call = f
	o.Name = name
	return o
}

// NewArray creates an Array object of the given length (15.4.2).
func (r *Realm) NewArray(length uint32) *Obj {
	o := r.NewObject("Array", r.ArrayProto)
	o.setRaw("length", &Prop{Value: Num(float64(length)), W: true})
	return o
}

// NewArrayOf creates an array from present values / holes (hole[i] true).
func (r *Realm) NewArrayOf(vals []Value, hole []bool) *Obj {
	a := r.NewArray(uint32(len(vals)))
	for i, v := range vals {
		if hole != nil && hole[i] {
			continue
		}
		a.setRaw(itoa(i), &Prop{Value: v, W: true, E: true, C: true})
	}
	return a
}

// NewStringObject creates a String wrapper (15.5.5: length and the index
// properties of 15.5.5.2 are materialised; they are immutable so this is
// equivalent).
func (r *Realm) NewStringObject(s string) *Obj {
	o := r.NewObject("String", r.StringProto)
	o.Prim = Str(s)
	for i := 0; i < len(s); i++ {
		o.setRaw(itoa(i), &Prop{Value: Str(s[i : i+1]), E: true})
	}
	o.setRaw("length", &Prop{Value: Num(float64(len(s)))})
	return o
}

// NewArguments creates an unmapped arguments object (10.6 for a function
// without formal parameters).
func (r *Realm) NewArguments(vals []Value, callee *Obj) *Obj {
	o := r.NewObject("Arguments", r.ObjectProto)
	for i, v := range vals {
		o.setRaw(itoa(i), &Prop{Value: v, W: true, E: true, C: true})
	}
	o.setRaw("length", &Prop{Value: Num(float64(len(vals))), W: true, C: true})
	o.setRaw("callee", &Prop{Value: ObjV(callee), W: true, C: true})
	return o
}

func itoa(i int) string { return NumberToString(float64(i)) }

func (o *Obj) setRaw(p string, pr *Prop) {
	if _, ok := o.props[p]; !ok {
		o.keys = append(o.keys, p)
	}
	o.props[p] = pr
}

func (o *Obj) removeRaw(p string) {
	if _, ok := o.props[p]; !ok {
		return
	}
	delete(o.props, p)
	for i, k := range o.keys {
		if k == p {
			o.keys = append(o.keys[:i:i], o.keys[i+1:]...)
			break
		}
	}
}

// OwnKeys lists own property names in creation order.
func (o *Obj) OwnKeys() []string { return append([]string(nil), o.keys...) }

// GetOwnProperty is 8.12.1 (the returned Prop is the live record).
func (o *Obj) GetOwnProperty(p string) *Prop { return o.props[p] }

// GetProperty is 8.12.2.
func (o *Obj) GetProperty(p string) *Prop {
	for x := o; x != nil; x = x.Proto {
		if pr := x.props[p]; pr != nil {
			return pr
		}
	}
	return nil
}

// Get is 8.12.3.
func (r *Realm) Get(o *Obj, p string) Value {
	r.tick()
	d := o.GetProperty(p)
	if d == nil {
		return Undefined
	}
	if !d.Accessor {
		return d.Value
	}
	if d.Get == nil {
		return Undefined
	}
	return d.Get.Call(r, ObjV(o), nil)
}

// CanPut is 8.12.4.
func (o *Obj) CanPut(p string) bool {
	if d := o.props[p]; d != nil {
		if d.Accessor {
			return d.Set != nil
		}
		return d.W
	}
	if o.Proto == nil {
		return o.Ext
	}
	inh := o.Proto.GetProperty(p)
	if inh == nil {
		return o.Ext
	}
	if inh.Accessor {
		return inh.Set != nil
	}
	if !o.Ext {
		return false
	}
	return inh.W
}

// Put is 8.12.5.
func (r *Realm) Put(o *Obj, p string, v Value, throw bool) {
	r.tick()
	if !o.CanPut(p) {
		if throw {
			throwType("[[Put]] " + p + ": cannot put")
		}
		return
	}
	own := o.props[p]
	if own != nil && !own.Accessor {
		valueDesc := Desc{HasValue: true, Value: v}
		if r.Dev&DevLooseIndex != 0 {
			// the implementation under test passes the complete current descriptor;
			// only observable together with the loose index recognition
			valueDesc = r.fullDescDev(own)
			valueDesc.Value = v
		}
		r.DefineOwnProperty(o, p, valueDesc, throw)
		return
	}
	d := o.GetProperty(p)
	if d != nil && d.Accessor {
		d.Set.Call(r, ObjV(o), []Value{v})
		return
	}
	r.DefineOwnProperty(o, p, DataDesc(v, true, true, true), throw)
}

// HasProperty is 8.12.6.
func (r *Realm) HasProperty(o *Obj, p string) bool {
	r.tick()
	return o.GetProperty(p) != nil
}

// Delete is 8.12.7.
func (r *Realm) Delete(o *Obj, p string, throw bool) bool {
	r.tick()
	d := o.props[p]
	if d == nil {
		return true
	}
	if d.C {
		o.removeRaw(p)
		return true
	}
	if throw {
		throwType("[[Delete]] " + p + ": not configurable")
	}
	return false
}

// DefaultValue is 8.12.8.
func (r *Realm) DefaultValue(o *Obj, hint string) Value {
	order := [2]string{"valueOf", "toString"}
	if hint == "String" {
		order = [2]string{"toString", "valueOf"}
	}
	for _, name := range order {
		f := r.Get(o, name)
		if IsCallable(f) {
			v := f.O.Call(r, ObjV(o), nil)
			if v.K != KObj {
				return v
			}
		}
	}
	throwType("[[DefaultValue]]: no primitive")
	return Undefined
}

// DefineOwnProperty dispatches on the object class: Array objects use
// 15.4.5.1, everything else 8.12.9.
func (r *Realm) DefineOwnProperty(o *Obj, p string, d Desc, throw bool) bool {
	if o.Class == "Array" {
		return r.arrayDefineOwnProperty(o, p, d, throw)
	}
	return r.ordinaryDefineOwnProperty(o, p, d, throw)
}

func sameObj(a, b *Obj) bool { return a == b }

// ordinaryDefineOwnProperty is 8.12.9.
func (r *Realm) ordinaryDefineOwnProperty(o *Obj, p string, d Desc, throw bool) bool {
	reject := func(why string) bool {
		if throw {
			throwType("[[DefineOwnProperty]] " + p + ": " + why)
		}
		return false
	}
	cur := o.props[p] // 1
	ext := o.Ext      // 2
	if cur == nil {
		if !ext { // 3
			return reject("not extensible")
		}
		// 4
		np := &Prop{}
		if d.isGeneric() || d.isData() {
			np.Value, np.W = Undefined, false
			if d.HasValue {
				np.Value = d.Value
			}
			if d.HasW {
				np.W = d.W
			}
		} else {
			np.Accessor = true
			if d.HasGet {
				np.Get = d.Get
			}
			if d.HasSet {
				np.Set = d.Set
			}
		}
		if d.HasE {
			np.E = d.E
		}
		if d.HasC {
			np.C = d.C
		}
		np.uW, np.uE, np.uC = !d.HasW && !np.Accessor, !d.HasE, !d.HasC
		o.setRaw(p, np)
		return true
	}
	// 5
	if !d.HasValue && !d.HasW && !d.HasGet && !d.HasSet && !d.HasE && !d.HasC {
		return true
	}
	// 6
	same := true
	if d.HasValue && (cur.Accessor || !SameValue(d.Value, cur.Value)) {
		same = false
	}
	if d.HasW && (cur.Accessor || d.W != cur.W) {
		same = false
	}
	if d.HasGet && (!cur.Accessor || !sameObj(d.Get, cur.Get)) {
		same = false
	}
	if d.HasSet && (!cur.Accessor || !sameObj(d.Set, cur.Set)) {
		same = false
	}
	if d.HasE && d.E != cur.E {
		same = false
	}
	if d.HasC && d.C != cur.C {
		same = false
	}
	if same {
		return true
	}
	// 7
	if !cur.C {
		if d.HasC && d.C {
			return reject("configurable false -> true")
		}
		if d.HasE && d.E != cur.E {
			return reject("enumerable change on non-configurable")
		}
	}
	switch {
	case d.isGeneric(): // 8
	case !cur.Accessor != d.isData(): // 9
		if !cur.C {
			return reject("data<->accessor on non-configurable")
		}
		if !cur.Accessor {
			cur.Accessor, cur.Value, cur.W = true, Undefined, false
			cur.Get, cur.Set = nil, nil
		} else {
			cur.Accessor, cur.Get, cur.Set = false, nil, nil
			cur.Value, cur.W = Undefined, false
		}
	case !cur.Accessor: // 10
		if !cur.C {
			if !cur.W && d.HasW && d.W {
				return reject("writable false -> true")
			}
			if !cur.W && d.HasValue && !SameValue(d.Value, cur.Value) {
				return reject("value change on non-writable")
			}
		}
	default: // 11
		if !cur.C {
			if d.HasSet && !sameObj(d.Set, cur.Set) {
				return reject("setter change on non-configurable")
			}
			if d.HasGet && !sameObj(d.Get, cur.Get) {
				return reject("getter change on non-configurable")
			}
		}
	}
	// 12
	cur.uE, cur.uC = false, false
	if d.isData() {
		cur.uW = false
	}
	if d.HasValue {
		cur.Value = d.Value
	}
	if d.HasW {
		cur.W = d.W
	}
	if d.HasGet {
		cur.Get = d.Get
	}
	if d.HasSet {
		cur.Set = d.Set
	}
	if d.HasE {
		cur.E = d.E
	}
	if d.HasC {
		cur.C = d.C
	}
	return true
}

// arrayDefineOwnProperty is 15.4.5.1.
func (r *Realm) arrayDefineOwnProperty(a *Obj, p string, d Desc, throw bool) bool {
	reject := func(why string) bool {
		if throw {
			throwType("Array [[DefineOwnProperty]] " + p + ": " + why)
		}
		return false
	}
	oldLenDesc := a.props["length"] // 1
	oldLen := oldLenDesc.Value.N    // 2
	if p == "length" {              // 3
		if !d.HasValue { // a
			return r.ordinaryDefineOwnProperty(a, "length", d, throw)
		}
		newLenDesc := d // b
		var newLen float64
		if r.Dev&DevLengthOneConversion != 0 {
			n := r.ToNumber(d.Value)
			if newLen = Uint32OfNumber(n); newLen != n {
				throwRange("invalid array length")
			}
		} else {
			newLen = r.ToUint32(d.Value)       // c
			if newLen != r.ToNumber(d.Value) { // d
				throwRange("invalid array length")
			}
		}
		newLenDesc.Value = Num(newLen) // e
		if newLen == oldLen && !oldLenDesc.W && r.Dev&DevLengthSameValue != 0 {
			return reject("length not writable")
		}
		if newLen >= oldLen { // f
			return r.ordinaryDefineOwnProperty(a, "length", newLenDesc, throw)
		}
		if !oldLenDesc.W { // g
			return reject("length not writable")
		}
		newWritable := true // h
		if newLenDesc.HasW && !newLenDesc.W {
			newWritable = false // i
			newLenDesc.W = true
		}
		if !r.ordinaryDefineOwnProperty(a, "length", newLenDesc, throw) { // j,k
			return false
		}
		for newLen < oldLen { // l
			oldLen--
			if !r.Delete(a, NumberToString(oldLen), false) {
				newLenDesc.Value = Num(oldLen + 1)
				if !newWritable {
					newLenDesc.W = false
				}
				r.ordinaryDefineOwnProperty(a, "length", newLenDesc, false)
				return reject("element not configurable")
			}
		}
		if !newWritable { // m
			r.ordinaryDefineOwnProperty(a, "length", Desc{HasW: true, W: false}, false)
		}
		return true // n
	}
	if r.Dev&DevLooseIndex != 0 {
		if index, ok := looseIndex(p); ok {
			canon := NumberToString(index)
			if index >= oldLen && !oldLenDesc.W {
				return reject("length not writable")
			}
			if !r.ordinaryDefineOwnProperty(a, canon, d, false) {
				return reject("element define failed")
			}
			if index >= oldLen {
				r.ordinaryDefineOwnProperty(a, "length", Desc{HasValue: true, Value: Num(index + 1)}, false)
				return true
			}
			return r.ordinaryDefineOwnProperty(a, p, d, throw)
		}
		return r.ordinaryDefineOwnProperty(a, p, d, throw)
	}
	if idx, ok := ArrayIndex(p); ok { // 4
		index := float64(idx)
		if index >= oldLen && !oldLenDesc.W { // b
			return reject("length not writable")
		}
		if !r.ordinaryDefineOwnProperty(a, p, d, false) { // c,d
			return reject("element define failed")
		}
		if index >= oldLen { // e
			r.ordinaryDefineOwnProperty(a, "length", Desc{HasValue: true, Value: Num(index + 1)}, false)
		}
		return true // f
	}
	return r.ordinaryDefineOwnProperty(a, p, d, throw) // 5
}

// fullDesc is FromPropertyDescriptor∘ToPropertyDescriptor of an existing
// property: every field present.
func fullDesc(pr *Prop) Desc {
	d := Desc{HasE: true, E: pr.E, HasC: true, C: pr.C}
	if pr.Accessor {
		d.HasGet, d.Get, d.HasSet, d.Set = true, pr.Get, true, pr.Set
	} else {
		d.HasValue, d.Value, d.HasW, d.W = true, pr.Value, true, pr.W
	}
	return d
}

// fullDescDev is fullDesc as the implementation under test builds it when a
// deviation model is active: attributes still "unset" are left out.
func (r *Realm) fullDescDev(pr *Prop) Desc {
	d := fullDesc(pr)
	if r.Dev != 0 {
		if pr.uW && !pr.Accessor {
			d.HasW = false
		}
		if pr.uE {
			d.HasE = false
		}
		if pr.uC {
			d.HasC = false
		}
	}
	return d
}

// Freeze is 15.2.3.9.
func (r *Realm) Freeze(o *Obj) {
	for _, k := range o.OwnKeys() {
		pr := o.props[k]
		if pr == nil {
			continue
		}
		d := r.fullDescDev(pr) // 2.a
		update := false
		if !pr.Accessor && pr.W {
			d.HasW, d.W = true, false // 2.b
			update = true
		}
		if pr.C {
			update = true
		}
		d.HasC, d.C = true, false // 2.c
		if !update && r.Dev != 0 {
			// The implementation under test skips the (per spec idempotent)
			// [[DefineOwnProperty]] call when nothing changes; that is observable
			// only in combination with one of its recorded deviations.
			continue
		}
		r.DefineOwnProperty(o, k, d, true) // 2.d
	}
	o.Ext = false // 3
}

// Seal is 15.2.3.8.
func (r *Realm) Seal(o *Obj) {
	for _, k := range o.OwnKeys() {
		pr := o.props[k]
		if pr == nil {
			continue
		}
		d := r.fullDescDev(pr)
		if !pr.C && r.Dev != 0 {
			continue // see Freeze
		}
		d.HasC, d.C = true, false
		r.DefineOwnProperty(o, k, d, true)
	}
	o.Ext = false
}

// PreventExtensions is 15.2.3.10.
func (r *Realm) PreventExtensions(o *Obj) { o.Ext = false }

// Call invokes a callable value.
func (r *Realm) Call(f Value, this Value, args ...Value) Value {
	return f.O.Call(r, this, args)
}

// NewRealm builds fresh intrinsics.
func NewRealm(maxSteps int) *Realm {
	r := &Realm{MaxSteps: maxSteps}
	r.ObjectProto = r.NewObject("Object", nil)
	r.ObjectProto.Name = "Object.prototype"
	r.FunctionProto = r.NewObject("Function", r.ObjectProto)
	r.FunctionProto.Call = func(*Realm, Value, []Value) Value { return Undefined }
	r.ArrayProto = r.NewArray(0) // 15.4.4: the Array prototype object is itself an array
	r.ArrayProto.Proto = r.ObjectProto
	r.ArrayProto.Name = "Array.prototype"
	r.StringProto = r.NewObject("String", r.ObjectProto)
	r.StringProto.Prim = Str("")
	r.NumberProto = r.NewObject("Number", r.ObjectProto)
	r.NumberProto.Prim = Num(0)
	r.BooleanProto = r.NewObject("Boolean", r.ObjectProto)
	r.BooleanProto.Prim = Bool(false)

	def := func(o *Obj, name string, f Func) *Obj {
		fn := r.NewFunction(name, f)
		o.setRaw(name, &Prop{Value: ObjV(fn), W: true, C: true})
		return fn
	}
	// 15.2.4.2
	r.ObjectProtoToString = def(r.ObjectProto, "toString", func(r *Realm, this Value, _ []Value) Value {
		switch this.K {
		case KUndef:
			return Str("[object Undefined]")
		case KNull:
			return Str("[object Null]")
		}
		return Str("[object " + r.ToObject(this).Class + "]")
	})
	// 15.2.4.3
	def(r.ObjectProto, "toLocaleString", func(r *Realm, this Value, _ []Value) Value {
		o := r.ToObject(this)
		ts := r.Get(o, "toString")
		if !IsCallable(ts) {
			throwType("toLocaleString: toString not callable")
		}
		return r.Call(ts, ObjV(o))
	})
	// 15.2.4.4
	def(r.ObjectProto, "valueOf", func(r *Realm, this Value, _ []Value) Value { return ObjV(r.ToObject(this)) })
	prim := func(class string) Func {
		return func(r *Realm, this Value, _ []Value) Value {
			if this.K == KObj {
				if this.O.Class != class {
					throwType(class + ".prototype method on incompatible receiver")
				}
				return this.O.Prim
			}
			return this
		}
	}
	def(r.StringProto, "valueOf", prim("String"))
	def(r.StringProto, "toString", prim("String"))
	def(r.BooleanProto, "valueOf", prim("Boolean"))
	def(r.BooleanProto, "toString", func(r *Realm, this Value, a []Value) Value {
		return Str(r.ToString(prim("Boolean")(r, this, a)))
	})
	def(r.NumberProto, "valueOf", prim("Number"))
	def(r.NumberProto, "toString", func(r *Realm, this Value, a []Value) Value {
		return Str(r.ToString(prim("Number")(r, this, a)))
	})
	r.installArrayProto(def)
	r.Global = r.NewObject("environment", r.ObjectProto)
	r.Global.Name = "G"
	return r
}
