package gt

import "reflect"

// Shrink minimises a failing program by greedy tree reduction: statements and
// list elements are deleted, expressions are replaced by one of their operands
// or by a plain identifier, as long as fails(p) stays true. The program is
// modified in place and returned. fails must be deterministic.
func Shrink(p *Program, fails func(*Program) bool, budget int) *Program {
	if !fails(p) {
		return p
	}
	for progress := true; progress && budget > 0; {
		progress = false
		// 1. delete list elements (largest effect first)
		for _, sl := range collectSlices(reflect.ValueOf(p)) {
			for i := sl.Len() - 1; i >= 0 && budget > 0; i-- {
				if sl.Len() == 0 {
					break
				}
				if i >= sl.Len() {
					continue
				}
				old := reflect.MakeSlice(sl.Type(), sl.Len(), sl.Len())
				reflect.Copy(old, sl)
				sl.Set(reflect.AppendSlice(sl.Slice(0, i), sl.Slice(i+1, sl.Len())))
				budget--
				if fails(p) {
					progress = true
				} else {
					sl.Set(old)
				}
			}
		}
		// 2. replace expressions
		for _, slot := range collectSlots(reflect.ValueOf(p), false) {
			cur := slot.v.Interface()
			if cur == nil {
				continue
			}
			var cands []Node
			if !slot.lhs {
				cands = append(cands, children(cur)...)
			}
			if _, isID := cur.(*Ident); !isID && isExpr(cur) {
				cands = append(cands, &Ident{Name: "z"})
			}
			for _, c := range cands {
				if budget <= 0 {
					break
				}
				if !slot.stmt && !isExpr(c) || slot.stmt && isExpr(c) {
					continue
				}
				slot.v.Set(reflect.ValueOf(c))
				budget--
				if fails(p) {
					progress = true
					break
				}
				slot.v.Set(reflect.ValueOf(cur))
			}
		}
	}
	return p
}

func isExpr(n Node) bool {
	switch n.(type) {
	case *Num, *Str, *Bool, *Null, *This, *Ident, *RegExp, *ArrayLit, *ObjectLit, *Unary, *Update, *Binary, *Logical, *Assign, *Cond, *Comma, *Member, *Index, *Call, *New, *EvalSrc, *Paren:
		return true
	case *Func:
		return !n.(*Func).Decl
	}
	return false
}

// children lists the direct expression operands of an expression node.
func children(n Node) []Node {
	var out []Node
	add := func(xs ...Node) {
		for _, x := range xs {
			if x != nil && isExpr(x) {
				out = append(out, x)
			}
		}
	}
	switch x := n.(type) {
	case *Unary:
		add(x.X)
	case *Update:
		add(x.X)
	case *Binary:
		add(x.L, x.R)
	case *Logical:
		add(x.L, x.R)
	case *Assign:
		add(x.Value, x.Target)
	case *Cond:
		add(x.Test, x.Then, x.Else)
	case *Comma:
		add(x.Exprs...)
	case *Member:
		add(x.Obj)
	case *Index:
		add(x.Obj, x.Prop)
	case *Call:
		add(x.Callee)
		add(x.Args...)
	case *New:
		add(x.Callee)
		add(x.Args...)
	case *ArrayLit:
		add(x.Elems...)
	case *Paren:
		add(x.X)
	case *ObjectLit:
		for _, p := range x.Props {
			if p.Kind == "init" {
				add(p.Value)
			}
		}
	}
	return out
}

type slot struct {
	v    reflect.Value
	lhs  bool
	stmt bool
}

var nodeType = reflect.TypeOf((*Node)(nil)).Elem()

// collectSlots finds every addressable Node-typed location.
func collectSlots(v reflect.Value, _ bool) []slot {
	var out []slot
	seen := map[uintptr]bool{}
	var walk func(v reflect.Value, owner reflect.Type, field string)
	walk = func(v reflect.Value, owner reflect.Type, field string) {
		switch v.Kind() {
		case reflect.Interface:
			if v.IsNil() {
				return
			}
			if v.CanSet() && v.Type() == nodeType {
				s := slot{v: v}
				if owner != nil {
					on := owner.Name()
					s.lhs = (on == "Assign" && field == "Target") || (on == "Update" && field == "X") || (on == "ForIn" && field == "Left") || (on == "Prop" && field == "Value") || (on == "Unary" && field == "X")
					s.stmt = field == "Body" || field == "Then" || field == "Else" || field == "[]stmt"
					if on == "Func" || on == "Program" || on == "Block" || on == "Case" {
						s.stmt = true
					}
				}
				_, isFn := v.Interface().(*Func)
				if !(owner != nil && owner.Name() == "ForIn" && field == "Left") && !(owner != nil && owner.Name() == "Prop" && isFn) {
					out = append(out, s)
				}
			}
			walk(v.Elem(), owner, field)
		case reflect.Ptr:
			if v.IsNil() || seen[v.Pointer()] {
				return
			}
			seen[v.Pointer()] = true
			walk(v.Elem(), nil, "")
		case reflect.Struct:
			t := v.Type()
			for i := 0; i < v.NumField(); i++ {
				f := v.Field(i)
				switch f.Kind() {
				case reflect.Interface, reflect.Ptr:
					walk(f, t, t.Field(i).Name)
				case reflect.Slice:
					for j := 0; j < f.Len(); j++ {
						e := f.Index(j)
						name := t.Field(i).Name
						if e.Kind() == reflect.Interface && (name == "Body") {
							name = "[]stmt"
						}
						if e.Kind() == reflect.Struct {
							walk(e, nil, "")
						} else {
							walk(e, t, name)
						}
					}
				}
			}
		}
	}
	walk(v, nil, "")
	return out
}

// collectSlices finds every settable slice of nodes / cases / props / decls.
func collectSlices(v reflect.Value) []reflect.Value {
	var out []reflect.Value
	seen := map[uintptr]bool{}
	var walk func(v reflect.Value)
	walk = func(v reflect.Value) {
		switch v.Kind() {
		case reflect.Interface:
			if !v.IsNil() {
				walk(v.Elem())
			}
		case reflect.Ptr:
			if v.IsNil() || seen[v.Pointer()] {
				return
			}
			seen[v.Pointer()] = true
			walk(v.Elem())
		case reflect.Struct:
			t := v.Type()
			for i := 0; i < v.NumField(); i++ {
				f := v.Field(i)
				switch f.Kind() {
				case reflect.Slice:
					if f.CanSet() && t.Field(i).Name != "Params" && !(t.Name() == "Var" && f.Len() <= 1) && !(t.Name() == "Comma" && f.Len() <= 2) {
						out = append(out, f)
					}
					for j := 0; j < f.Len(); j++ {
						walk(f.Index(j))
					}
				case reflect.Interface, reflect.Ptr:
					walk(f)
				}
			}
		}
	}
	walk(v)
	return out
}
