// Package gt is the harness's own syntax tree for ES5 programs. Programs are
// generated as gt trees, rendered to source text for otto, and interpreted
// directly by the reference model (refjs) — no independent parser is needed,
// and for the parser property (C03) the generating tree is itself the oracle.
package gt

// Node is any tree node.
type Node interface{}

// ---- expressions

type Num struct {
	V   float64
	Raw string // optional source spelling (C03); empty = canonical
}
type Str struct {
	V   string // value (UTF-8; may not contain lone surrogates)
	Raw string // optional source spelling including quotes (C03)
}
type Bool struct{ V bool }
type Null struct{}
type This struct{}
type Ident struct{ Name string }
type RegExp struct{ Pattern, Flags string }
type ArrayLit struct{ Elems []Node } // nil element = hole
type Prop struct {
	Kind   string // "init" | "get" | "set"
	Key    string // property name (value)
	KeyAs  string // "ident" | "string" | "number" : source form
	KeyRaw string // optional source spelling of the key (C03)
	Value  Node   // init: expression; get/set: *Func
}
type ObjectLit struct{ Props []Prop }
type Func struct {
	Name   string
	Params []string
	Body   []Node
	Decl   bool // function declaration (statement position)
}
type Unary struct {
	Op string // - + ! ~ typeof void delete
	X  Node
}
type Update struct {
	Op     string // ++ --
	Prefix bool
	X      Node
}
type Binary struct {
	Op   string
	L, R Node
}
type Logical struct {
	Op   string // && ||
	L, R Node
}
type Assign struct {
	Op     string // = += ...
	Target Node
	Value  Node
}
type Cond struct{ Test, Then, Else Node }
type Comma struct{ Exprs []Node }
type Member struct {
	Obj  Node
	Name string
}
type Index struct{ Obj, Prop Node }
type Call struct {
	Callee Node
	Args   []Node
}
type New struct {
	Callee Node
	Args   []Node
	NoArgs bool // `new X` without argument list
}

// EvalSrc is a string literal whose value is the rendering of Prog; used as
// the argument of eval so the reference model can run the same tree.
type EvalSrc struct{ Prog *Program }

// Paren is an explicit redundant parenthesis (C03 renderings only).
type Paren struct{ X Node }

// ---- statements

type VarDecl struct {
	Name string
	Init Node
}
type Var struct{ Decls []VarDecl }
type ExprStmt struct{ X Node }
type Block struct{ Body []Node }
type If struct {
	Test       Node
	Then, Else Node
}
type For struct {
	Init   Node // *Var, expression or nil
	Test   Node
	Update Node
	Body   Node
}
type ForIn struct {
	Decl bool // for (var x in o)
	Left Node // *Ident (or member expression when !Decl)
	Init Node // for (var x = init in o) — never generated
	Obj  Node
	Body Node
}
type While struct {
	Test Node
	Body Node
}
type DoWhile struct {
	Body Node
	Test Node
}
type Continue struct{ Label string }
type Break struct{ Label string }
type Return struct{ X Node }
type With struct {
	Obj  Node
	Body Node
}
type Case struct {
	Test Node // nil = default
	Body []Node
}
type Switch struct {
	Disc  Node
	Cases []Case
}
type Labeled struct {
	Label string
	Body  Node
}
type Throw struct{ X Node }
type Try struct {
	Block   *Block
	Param   string
	Catch   *Block
	Finally *Block
}
type Empty struct{}
type Debugger struct{}

// Program is a whole source file / eval code / function body.
type Program struct{ Body []Node }

// Prec gives the ES5 precedence level of an expression node (higher binds tighter).
const (
	PComma = iota
	PAssign
	PCond
	POr
	PAnd
	PBitOr
	PBitXor
	PBitAnd
	PEq
	PRel
	PShift
	PAdd
	PMul
	PUnary
	PPostfix
	PCall   // call expressions (LeftHandSide with calls)
	PMember // member / new-with-args
	PPrimary
)

// BinPrec maps binary operators to precedence.
var BinPrec = map[string]int{
	"|": PBitOr, "^": PBitXor, "&": PBitAnd,
	"==": PEq, "!=": PEq, "===": PEq, "!==": PEq,
	"<": PRel, ">": PRel, "<=": PRel, ">=": PRel, "instanceof": PRel, "in": PRel,
	"<<": PShift, ">>": PShift, ">>>": PShift,
	"+": PAdd, "-": PAdd, "*": PMul, "/": PMul, "%": PMul,
}

// BinOps lists all 24 binary operators incl. the logical ones.
var BinOps = []string{"||", "&&", "|", "^", "&", "==", "!=", "===", "!==", "<", ">", "<=", ">=", "instanceof", "in", "<<", ">>", ">>>", "+", "-", "*", "/", "%"}

// AssignOps lists the assignment operators.
var AssignOps = []string{"=", "+=", "-=", "*=", "/=", "%=", "<<=", ">>=", ">>>=", "&=", "|=", "^="}

// Prec returns the precedence of an expression node.
func Prec(n Node) int {
	switch x := n.(type) {
	case *Comma:
		return PComma
	case *Assign:
		return PAssign
	case *Cond:
		return PCond
	case *Logical:
		if x.Op == "||" {
			return POr
		}
		return PAnd
	case *Binary:
		return BinPrec[x.Op]
	case *Unary:
		return PUnary
	case *Update:
		if x.Prefix {
			return PUnary
		}
		return PPostfix
	case *Call:
		return PCall
	case *New:
		if x.NoArgs {
			return PCall + 0 // NewExpression: cannot be followed by member/call without parens
		}
		return PMember
	case *Member:
		if hasCall(x.Obj) {
			return PCall
		}
		return PMember
	case *Index:
		if hasCall(x.Obj) {
			return PCall
		}
		return PMember
	case *Func:
		return PMember
	}
	return PPrimary
}

// hasCall reports whether the member chain of n contains a call (so that it
// cannot be the callee of `new` without parentheses).
func hasCall(n Node) bool {
	switch x := n.(type) {
	case *Call:
		return true
	case *Member:
		return hasCall(x.Obj)
	case *Index:
		return hasCall(x.Obj)
	}
	return false
}
