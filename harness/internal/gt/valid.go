package gt

// Valid reports whether the tree satisfies the ES5 early-error rules that the
// generators rely on: break/continue targets exist (continue only to loops),
// return only inside functions, assignment/update/for-in targets are
// references, labels are not nested twice, at most one default per switch.
func Valid(p *Program) bool {
	v := &validator{ok: true}
	v.stmts(p.Body, ctx{})
	return v.ok
}

type ctx struct {
	loops, sw  int
	fn         bool
	labels     []string
	loopLabels []string
}

type validator struct{ ok bool }

func has(xs []string, s string) bool {
	for _, x := range xs {
		if x == s {
			return true
		}
	}
	return false
}

func isRef(n Node) bool {
	switch x := n.(type) {
	case *Ident, *Member, *Index:
		return true
	case *Paren:
		return isRef(x.X)
	}
	return false
}

func (v *validator) stmts(l []Node, c ctx) {
	for _, s := range l {
		v.stmt(s, c, nil)
	}
}

func (v *validator) stmt(n Node, c ctx, pending []string) {
	loop := func(body Node) {
		c2 := c
		c2.loops++
		c2.loopLabels = append(append([]string{}, c.loopLabels...), pending...)
		v.stmt(body, c2, nil)
	}
	switch x := n.(type) {
	case nil:
	case *Var:
		for _, d := range x.Decls {
			v.expr(d.Init, c)
		}
	case *ExprStmt:
		v.expr(x.X, c)
	case *Block:
		if x != nil {
			v.stmts(x.Body, c)
		}
	case *If:
		v.expr(x.Test, c)
		v.stmt(x.Then, c, nil)
		v.stmt(x.Else, c, nil)
	case *For:
		if vr, ok := x.Init.(*Var); ok {
			v.stmt(vr, c, nil)
		} else {
			v.expr(x.Init, c)
		}
		v.expr(x.Test, c)
		v.expr(x.Update, c)
		loop(x.Body)
	case *ForIn:
		if !isRef(x.Left) {
			v.ok = false
		}
		v.expr(x.Left, c)
		if x.Init != nil {
			v.expr(x.Init, c)
		}
		v.expr(x.Obj, c)
		loop(x.Body)
	case *While:
		v.expr(x.Test, c)
		loop(x.Body)
	case *DoWhile:
		v.expr(x.Test, c)
		loop(x.Body)
	case *Continue:
		if c.loops == 0 || (x.Label != "" && !has(c.loopLabels, x.Label)) {
			v.ok = false
		}
	case *Break:
		if x.Label == "" && c.loops == 0 && c.sw == 0 {
			v.ok = false
		}
		if x.Label != "" && !has(c.labels, x.Label) {
			v.ok = false
		}
	case *Return:
		if !c.fn {
			v.ok = false
		}
		v.expr(x.X, c)
	case *With:
		v.expr(x.Obj, c)
		v.stmt(x.Body, c, nil)
	case *Switch:
		v.expr(x.Disc, c)
		c2 := c
		c2.sw++
		defs := 0
		for _, cs := range x.Cases {
			if cs.Test == nil {
				defs++
			}
			v.expr(cs.Test, c)
			v.stmts(cs.Body, c2)
		}
		if defs > 1 {
			v.ok = false
		}
	case *Labeled:
		if has(c.labels, x.Label) {
			v.ok = false
		}
		c2 := c
		c2.labels = append(append([]string{}, c.labels...), x.Label)
		v.stmt(x.Body, c2, append(append([]string{}, pending...), x.Label))
	case *Throw:
		v.expr(x.X, c)
	case *Try:
		v.stmt(x.Block, c, nil)
		if x.Catch != nil {
			v.stmt(x.Catch, c, nil)
		}
		if x.Finally != nil {
			v.stmt(x.Finally, c, nil)
		}
		if x.Catch == nil && x.Finally == nil {
			v.ok = false
		}
	case *Func:
		v.fn(x)
	case *Empty, *Debugger:
	default:
		v.ok = false
	}
}

func (v *validator) fn(f *Func) { v.stmts(f.Body, ctx{fn: true}) }

func (v *validator) expr(n Node, c ctx) {
	switch x := n.(type) {
	case nil, *Num, *Str, *Bool, *Null, *This, *Ident, *RegExp, *EvalSrc:
	case *Paren:
		v.expr(x.X, c)
	case *ArrayLit:
		for _, e := range x.Elems {
			v.expr(e, c)
		}
	case *ObjectLit:
		for _, p := range x.Props {
			if f, ok := p.Value.(*Func); ok && p.Kind != "init" {
				v.fn(f)
			} else {
				v.expr(p.Value, c)
			}
		}
	case *Func:
		v.fn(x)
	case *Unary:
		v.expr(x.X, c)
	case *Update:
		if !isRef(x.X) {
			v.ok = false
		}
		v.expr(x.X, c)
	case *Binary:
		v.expr(x.L, c)
		v.expr(x.R, c)
	case *Logical:
		v.expr(x.L, c)
		v.expr(x.R, c)
	case *Assign:
		if !isRef(x.Target) {
			v.ok = false
		}
		v.expr(x.Target, c)
		v.expr(x.Value, c)
	case *Cond:
		v.expr(x.Test, c)
		v.expr(x.Then, c)
		v.expr(x.Else, c)
	case *Comma:
		for _, e := range x.Exprs {
			v.expr(e, c)
		}
	case *Member:
		v.expr(x.Obj, c)
	case *Index:
		v.expr(x.Obj, c)
		v.expr(x.Prop, c)
	case *Call:
		v.expr(x.Callee, c)
		for _, a := range x.Args {
			v.expr(a, c)
		}
	case *New:
		v.expr(x.Callee, c)
		for _, a := range x.Args {
			v.expr(a, c)
		}
	default:
		v.ok = false
	}
}
