package gt

import (
	"fmt"
	"math"
	"strconv"
	"strings"

	"verif/internal/gen"
)

// Tok is one source token produced by the renderer.
type Tok struct {
	S        string
	NoLTPrev bool // no line terminator may precede this token (restricted production)
	Semi     bool // statement-terminating semicolon that ASI could supply
	StmtHead bool // first token of a statement
}

// Style controls a rendering.
type Style struct {
	R           *gen.Rand // nil = deterministic canonical rendering
	ExtraParens int       // percent chance of a redundant parenthesis around an expression
	Trivia      bool      // random white space / comments / line terminators between tokens
	ASI         bool      // drop semicolons where 7.9.1 supplies them
	Compact     bool      // no spaces unless needed
}

type renderer struct {
	st   Style
	toks []Tok
	// EvalTable receives rendered eval sources.
	evals map[string]*Program
}

// Render renders a program with the canonical style.
func Render(p *Program) string { s, _ := RenderStyle(p, Style{}); return s }

// RenderStyle renders a program; the returned map holds the source text of
// every EvalSrc node (text -> tree) so the reference model can evaluate it.
func RenderStyle(p *Program, st Style) (string, map[string]*Program) {
	r := &renderer{st: st, evals: map[string]*Program{}}
	r.stmts(p.Body)
	return r.join(), r.evals
}

// RenderExpr renders one expression.
func RenderExpr(n Node, st Style) string {
	r := &renderer{st: st, evals: map[string]*Program{}}
	r.expr(n, PComma, false)
	return r.join()
}

func (r *renderer) t(s string) { r.toks = append(r.toks, Tok{S: s}) }
func (r *renderer) semi()      { r.toks = append(r.toks, Tok{S: ";", Semi: true}) }

func (r *renderer) head(from int) {
	if from < len(r.toks) {
		r.toks[from].StmtHead = true
	}
}

// ---------------------------------------------------------------- statements

func (r *renderer) stmts(list []Node) {
	for _, s := range list {
		r.stmt(s)
	}
}

func (r *renderer) block(b *Block) {
	r.t("{")
	r.stmts(b.Body)
	r.t("}")
}

func (r *renderer) stmt(n Node) {
	from := len(r.toks)
	defer r.head(from)
	switch x := n.(type) {
	case *Var:
		r.varDecls(x, false)
		r.semi()
	case *ExprStmt:
		e := x.X
		if startsBad(e) {
			r.t("(")
			r.expr(e, PComma, false)
			r.t(")")
		} else {
			r.expr(e, PComma, false)
		}
		r.semi()
	case *Block:
		r.block(x)
	case *If:
		r.t("if")
		r.t("(")
		r.expr(x.Test, PComma, false)
		r.t(")")
		r.stmt(x.Then)
		if x.Else != nil {
			r.t("else")
			r.stmt(x.Else)
		}
	case *For:
		r.t("for")
		r.t("(")
		switch i := x.Init.(type) {
		case nil:
		case *Var:
			r.varDecls(i, true)
		default:
			r.expr(i, PComma, true)
		}
		r.t(";")
		if x.Test != nil {
			r.expr(x.Test, PComma, false)
		}
		r.t(";")
		if x.Update != nil {
			r.expr(x.Update, PComma, false)
		}
		r.t(")")
		r.stmt(x.Body)
	case *ForIn:
		r.t("for")
		r.t("(")
		if x.Decl {
			r.t("var")
			r.t(x.Left.(*Ident).Name)
			if x.Init != nil {
				r.t("=")
				r.expr(x.Init, PAssign, true)
			}
		} else {
			r.expr(x.Left, PCall, true)
		}
		r.t("in")
		r.expr(x.Obj, PComma, false)
		r.t(")")
		r.stmt(x.Body)
	case *While:
		r.t("while")
		r.t("(")
		r.expr(x.Test, PComma, false)
		r.t(")")
		r.stmt(x.Body)
	case *DoWhile:
		r.t("do")
		r.stmt(x.Body)
		r.t("while")
		r.t("(")
		r.expr(x.Test, PComma, false)
		r.t(")")
		r.t(";")
	case *Continue:
		r.t("continue")
		if x.Label != "" {
			r.toks = append(r.toks, Tok{S: x.Label, NoLTPrev: true})
		}
		r.semi()
	case *Break:
		r.t("break")
		if x.Label != "" {
			r.toks = append(r.toks, Tok{S: x.Label, NoLTPrev: true})
		}
		r.semi()
	case *Return:
		r.t("return")
		if x.X != nil {
			k := len(r.toks)
			r.expr(x.X, PComma, false)
			r.toks[k].NoLTPrev = true
		}
		r.semi()
	case *With:
		r.t("with")
		r.t("(")
		r.expr(x.Obj, PComma, false)
		r.t(")")
		r.stmt(x.Body)
	case *Switch:
		r.t("switch")
		r.t("(")
		r.expr(x.Disc, PComma, false)
		r.t(")")
		r.t("{")
		for _, c := range x.Cases {
			if c.Test == nil {
				r.t("default")
			} else {
				r.t("case")
				r.expr(c.Test, PComma, false)
			}
			r.t(":")
			r.stmts(c.Body)
		}
		r.t("}")
	case *Labeled:
		r.t(x.Label)
		r.t(":")
		r.stmt(x.Body)
	case *Throw:
		r.t("throw")
		k := len(r.toks)
		r.expr(x.X, PComma, false)
		r.toks[k].NoLTPrev = true
		r.semi()
	case *Try:
		r.t("try")
		r.block(x.Block)
		if x.Catch != nil {
			r.t("catch")
			r.t("(")
			r.t(x.Param)
			r.t(")")
			r.block(x.Catch)
		}
		if x.Finally != nil {
			r.t("finally")
			r.block(x.Finally)
		}
	case *Empty:
		r.t(";")
	case *Debugger:
		r.t("debugger")
		r.semi()
	case *Func:
		r.fn(x)
	default:
		panic(fmt.Sprintf("gt: not a statement: %T", n))
	}
}

func (r *renderer) varDecls(v *Var, noIn bool) {
	r.t("var")
	for i, d := range v.Decls {
		if i > 0 {
			r.t(",")
		}
		r.t(d.Name)
		if d.Init != nil {
			r.t("=")
			r.expr(d.Init, PAssign, noIn)
		}
	}
}

func (r *renderer) fn(f *Func) {
	r.t("function")
	if f.Name != "" {
		r.t(f.Name)
	}
	r.t("(")
	for i, p := range f.Params {
		if i > 0 {
			r.t(",")
		}
		r.t(p)
	}
	r.t(")")
	r.t("{")
	r.stmts(f.Body)
	r.t("}")
}

// startsBad reports whether an expression statement would start with `{` or
// `function`.
func startsBad(n Node) bool {
	switch x := n.(type) {
	case *ObjectLit, *Func:
		return true
	case *Binary:
		return startsBad(x.L)
	case *Logical:
		return startsBad(x.L)
	case *Assign:
		return startsBad(x.Target)
	case *Cond:
		return startsBad(x.Test)
	case *Comma:
		return startsBad(x.Exprs[0])
	case *Member:
		return startsBad(x.Obj)
	case *Index:
		return startsBad(x.Obj)
	case *Call:
		return startsBad(x.Callee)
	case *Update:
		if !x.Prefix {
			return startsBad(x.X)
		}
	}
	return false
}

// ---------------------------------------------------------------- expressions

// expr renders n in a context that requires precedence >= min.
func (r *renderer) expr(n Node, min int, noIn bool) {
	need := Prec(n) < min
	if b, ok := n.(*Binary); ok && b.Op == "in" && noIn {
		need = true
	}
	extra := false
	if !need && r.st.R != nil && r.st.ExtraParens > 0 && r.st.R.Intn(100) < r.st.ExtraParens {
		// a redundant parenthesis must not change the tree: parenthesising the
		// target of an assignment / operand of delete / typeof is still the
		// same tree in otto's AST (no paren node), so any position is allowed.
		extra = true
	}
	if need || extra {
		r.t("(")
		r.expr1(n, false)
		r.t(")")
		return
	}
	r.expr1(n, noIn)
}

func (r *renderer) args(a []Node) {
	r.t("(")
	for i, x := range a {
		if i > 0 {
			r.t(",")
		}
		r.expr(x, PAssign, false)
	}
	r.t(")")
}

func isIdentName(s string) bool {
	if s == "" {
		return false
	}
	for i, c := range s {
		if c == '_' || c == '$' || (c >= 'a' && c <= 'z') || (c >= 'A' && c <= 'Z') || (i > 0 && c >= '0' && c <= '9') {
			continue
		}
		return false
	}
	return true
}

func (r *renderer) expr1(n Node, noIn bool) {
	switch x := n.(type) {
	case *Num:
		r.t(NumSrc(x))
	case *Str:
		if x.Raw != "" {
			r.t(x.Raw)
		} else {
			r.t(Quote(x.V))
		}
	case *EvalSrc:
		src, ev := RenderStyle(x.Prog, Style{})
		for k, v := range ev {
			r.evals[k] = v
		}
		r.evals[src] = x.Prog
		r.t(Quote(src))
	case *Bool:
		if x.V {
			r.t("true")
		} else {
			r.t("false")
		}
	case *Null:
		r.t("null")
	case *This:
		r.t("this")
	case *Ident:
		r.t(x.Name)
	case *RegExp:
		r.t("/" + x.Pattern + "/" + x.Flags)
	case *Paren:
		r.t("(")
		r.expr(x.X, PComma, false)
		r.t(")")
	case *ArrayLit:
		r.t("[")
		for i, e := range x.Elems {
			if e != nil {
				r.expr(e, PAssign, false)
			}
			if i < len(x.Elems)-1 || e == nil {
				r.t(",")
			}
		}
		r.t("]")
	case *ObjectLit:
		r.t("{")
		for i, p := range x.Props {
			if i > 0 {
				r.t(",")
			}
			key := p.Key
			if p.KeyRaw != "" {
				key = p.KeyRaw
			} else {
				switch p.KeyAs {
				case "string":
					key = Quote(p.Key)
				case "number":
				default:
					if !isIdentName(p.Key) {
						key = Quote(p.Key)
					}
				}
			}
			switch p.Kind {
			case "get", "set":
				f := p.Value.(*Func)
				r.t(p.Kind)
				r.t(key)
				r.t("(")
				for j, a := range f.Params {
					if j > 0 {
						r.t(",")
					}
					r.t(a)
				}
				r.t(")")
				r.t("{")
				r.stmts(f.Body)
				r.t("}")
			default:
				r.t(key)
				r.t(":")
				r.expr(p.Value, PAssign, false)
			}
		}
		r.t("}")
	case *Func:
		r.fn(x)
	case *Unary:
		r.t(x.Op)
		r.expr(x.X, PUnary, noIn)
	case *Update:
		if x.Prefix {
			r.t(x.Op)
			r.expr(x.X, PCall, noIn)
		} else {
			r.expr(x.X, PCall, noIn)
			r.toks = append(r.toks, Tok{S: x.Op, NoLTPrev: true})
		}
	case *Binary:
		p := BinPrec[x.Op]
		r.expr(x.L, p, noIn)
		r.t(x.Op)
		r.expr(x.R, p+1, noIn)
	case *Logical:
		p := PAnd
		if x.Op == "||" {
			p = POr
		}
		r.expr(x.L, p, noIn)
		r.t(x.Op)
		r.expr(x.R, p+1, noIn)
	case *Assign:
		r.expr(x.Target, PCall, noIn)
		r.t(x.Op)
		r.expr(x.Value, PAssign, noIn)
	case *Cond:
		r.expr(x.Test, POr, noIn)
		r.t("?")
		r.expr(x.Then, PAssign, false)
		r.t(":")
		r.expr(x.Else, PAssign, noIn)
	case *Comma:
		for i, e := range x.Exprs {
			if i > 0 {
				r.t(",")
			}
			r.expr(e, PAssign, noIn)
		}
	case *Member:
		r.memberObj(x.Obj)
		r.t(".")
		r.t(x.Name)
	case *Index:
		r.memberObj(x.Obj)
		r.t("[")
		r.expr(x.Prop, PComma, false)
		r.t("]")
	case *Call:
		// callee: CallExpression or MemberExpression; `new X` without args must be parenthesised
		if nw, ok := x.Callee.(*New); ok && nw.NoArgs {
			r.t("(")
			r.expr1(nw, false)
			r.t(")")
		} else {
			r.expr(x.Callee, PCall, false)
		}
		r.args(x.Args)
	case *New:
		r.t("new")
		// callee must be a MemberExpression (no call in its chain)
		if Prec(x.Callee) < PMember || hasCall(x.Callee) {
			r.t("(")
			r.expr(x.Callee, PComma, false)
			r.t(")")
		} else if nw, ok := x.Callee.(*New); ok && nw.NoArgs && !x.NoArgs {
			// new (new X)(args) vs new new X(args)
			r.t("(")
			r.expr1(nw, false)
			r.t(")")
		} else {
			r.expr1(x.Callee, false)
		}
		if !x.NoArgs {
			r.args(x.Args)
		}
	default:
		panic(fmt.Sprintf("gt: not an expression: %T", n))
	}
}

func (r *renderer) memberObj(o Node) {
	switch y := o.(type) {
	case *Num:
		r.t("(")
		r.t(NumSrc(y))
		r.t(")")
		return
	case *New:
		if y.NoArgs {
			r.t("(")
			r.expr1(y, false)
			r.t(")")
			return
		}
	}
	r.expr(o, PCall, false)
}

// NumSrc gives the source spelling of a number literal node. Negative values,
// NaN and infinities are not literals; they are rendered as expressions in
// parentheses.
func NumSrc(x *Num) string {
	if x.Raw != "" {
		return x.Raw
	}
	f := x.V
	switch {
	case f != f:
		return "(0/0)"
	case math.IsInf(f, 1):
		return "(1/0)"
	case math.IsInf(f, -1):
		return "(-1/0)"
	case f == 0 && math.Signbit(f):
		return "(-0)"
	case f < 0:
		return "(-" + strconv.FormatFloat(-f, 'g', -1, 64) + ")"
	}
	s := strconv.FormatFloat(f, 'g', -1, 64)
	return s
}

// Quote renders a string value as a double-quoted ES5 literal in pure ASCII.
func Quote(s string) string {
	var b strings.Builder
	b.WriteByte('"')
	for _, c := range s {
		switch {
		case c == '"' || c == '\\':
			b.WriteByte('\\')
			b.WriteRune(c)
		case c == '\n':
			b.WriteString("\\n")
		case c >= 0x20 && c < 0x7f:
			b.WriteRune(c)
		case c < 0x10000:
			fmt.Fprintf(&b, "\\u%04X", c)
		default:
			c -= 0x10000
			fmt.Fprintf(&b, "\\u%04X\\u%04X", 0xD800+(c>>10), 0xDC00+(c&0x3ff))
		}
	}
	b.WriteByte('"')
	return b.String()
}

// ---------------------------------------------------------------- joining

var lineTerms = []string{"\n", "\r", "\r\n", "\u2028", "\u2029"}
var asiBreaks = []string{"\n", "\r", "\r\n", "\n", "\r", "\r\n", "\u2028", "\u2029", "/*\n*/", " /* c\r\n c */ ", "/*\u2029*/", "/* */ /*\r*/"}
var spaces = []string{" ", "\t", "\v", "\f", "\u00a0", "\ufeff", "  "}

func wordy(c byte) bool {
	return c == '_' || c == '$' || c == '\\' || (c >= 'a' && c <= 'z') || (c >= 'A' && c <= 'Z') || (c >= '0' && c <= '9') || c >= 0x80
}

func punct(c byte) bool { return strings.IndexByte("+-<>=&|!/*%^~.?:", c) >= 0 }

func needSpace(a, b string) bool {
	if a == "" || b == "" {
		return false
	}
	x, y := a[len(a)-1], b[0]
	if wordy(x) && wordy(y) {
		return true
	}
	if punct(x) && punct(y) {
		return true
	}
	if x >= '0' && x <= '9' && y == '.' {
		return true
	}
	if x == '.' && y >= '0' && y <= '9' {
		return true
	}
	if x == '.' && wordy(y) && a[0] >= '0' && a[0] <= '9' {
		return true // "5." followed by an identifier or keyword
	}
	return false
}

// canStartAfterASI: tokens that cannot continue a preceding expression, so a
// line terminator before them makes 7.9.1 insert the dropped semicolon.
func canStartAfterASI(s string) bool {
	switch s {
	case "in", "instanceof":
		return false
	}
	c := s[0]
	if c == '"' || c == '\'' {
		return true
	}
	if wordy(c) {
		return true
	}
	return false
}

func (r *renderer) join() string {
	var b strings.Builder
	toks := r.toks
	rnd := r.st.R
	for i, t := range toks {
		if t.Semi && r.st.ASI && rnd != nil && rnd.Intn(100) < 70 {
			// 7.9.1: a semicolon may be omitted before "}", at end of input, or
			// when the next token is on a new line and cannot continue the statement.
			if i == len(toks)-1 || toks[i+1].S == "}" {
				// previous statement must not be one whose dropped semicolon would
				// be "interpreted as an empty statement": all Semi tokens here end
				// non-empty statements.
				if i == len(toks)-1 {
					continue
				}
				b.WriteString(" ")
				continue
			}
			nx := toks[i+1]
			afterRegExp := i > 0 && len(toks[i-1].S) > 1 && toks[i-1].S[0] == '/' && toks[i-1].S != "/="
			if !afterRegExp && nx.StmtHead && canStartAfterASI(nx.S) && !(i > 0 && (toks[i-1].S == "++" || toks[i-1].S == "--") && false) {
				// any LineTerminator supplies the semicolon, and so does a multi-line
				// comment that contains one (7.4)
				b.WriteString(asiBreaks[rnd.Intn(len(asiBreaks))])
				continue
			}
		}
		b.WriteString(t.S)
		if i == len(toks)-1 {
			break
		}
		nx := toks[i+1]
		switch {
		case r.st.Trivia && rnd != nil:
			n := rnd.Intn(3)
			wrote := false
			if n > 0 && strings.HasSuffix(t.S, "/") {
				// "/" followed by a comment would read as "//" or "/*"
				b.WriteString(" ")
				wrote = true
			}
			for k := 0; k < n; k++ {
				switch rnd.Intn(6) {
				case 0, 1:
					b.WriteString(spaces[rnd.Intn(len(spaces))])
					wrote = true
				case 2:
					if !nx.NoLTPrev && !(nx.Semi) {
						b.WriteString(lineTerms[rnd.Intn(len(lineTerms))])
						wrote = true
					}
				case 3:
					b.WriteString("/* c */")
					wrote = true
				case 4:
					if !nx.NoLTPrev {
						b.WriteString("// c" + lineTerms[rnd.Intn(3)])
						wrote = true
					}
				case 5:
					if !nx.NoLTPrev {
						b.WriteString("/* a\n b */")
						wrote = true
					}
				}
			}
			if !wrote && needSpace(t.S, nx.S) {
				b.WriteString(" ")
			}
		case r.st.Compact:
			if needSpace(t.S, nx.S) {
				b.WriteString(" ")
			}
		default:
			if nx.S == ";" || nx.S == "," || nx.S == ")" || t.S == "(" || nx.S == "." || t.S == "." {
				if needSpace(t.S, nx.S) {
					b.WriteString(" ")
				}
			} else if t.Semi || t.S == "{" || t.S == "}" {
				b.WriteString("\n")
			} else {
				b.WriteString(" ")
			}
		}
	}
	return b.String()
}

// Tokens returns the canonical token sequence of a program.
func Tokens(p *Program) []string {
	r := &renderer{evals: map[string]*Program{}}
	r.stmts(p.Body)
	out := make([]string, len(r.toks))
	for i, t := range r.toks {
		out[i] = t.S
	}
	return out
}
