package gt

// Short constructors for building trees by hand.

func Id(n string) *Ident                     { return &Ident{Name: n} }
func N(f float64) *Num                       { return &Num{V: f} }
func S(s string) *Str                        { return &Str{V: s} }
func B(b bool) *Bool                         { return &Bool{V: b} }
func Undef() Node                            { return &Unary{Op: "void", X: N(0)} }
func Dot(o Node, n string) *Member           { return &Member{Obj: o, Name: n} }
func Idx(o, p Node) *Index                   { return &Index{Obj: o, Prop: p} }
func CallE(f Node, a ...Node) *Call          { return &Call{Callee: f, Args: a} }
func CallN(n string, a ...Node) *Call        { return &Call{Callee: Id(n), Args: a} }
func Meth(o Node, m string, a ...Node) *Call { return &Call{Callee: Dot(o, m), Args: a} }
func NewE(f Node, a ...Node) *New            { return &New{Callee: f, Args: a} }
func Asg(t, v Node) *Assign                  { return &Assign{Op: "=", Target: t, Value: v} }
func AsgOp(op string, t, v Node) *Assign     { return &Assign{Op: op, Target: t, Value: v} }
func Bin(op string, l, r Node) Node {
	if op == "&&" || op == "||" {
		return &Logical{Op: op, L: l, R: r}
	}
	return &Binary{Op: op, L: l, R: r}
}
func Un(op string, x Node) *Unary        { return &Unary{Op: op, X: x} }
func Inc(x Node, prefix bool) *Update    { return &Update{Op: "++", Prefix: prefix, X: x} }
func Dec(x Node, prefix bool) *Update    { return &Update{Op: "--", Prefix: prefix, X: x} }
func Tern(c, a, b Node) *Cond            { return &Cond{Test: c, Then: a, Else: b} }
func Seq(e ...Node) *Comma               { return &Comma{Exprs: e} }
func Arr(e ...Node) *ArrayLit            { return &ArrayLit{Elems: e} }
func ObjL(p ...Prop) *ObjectLit          { return &ObjectLit{Props: p} }
func P(k string, v Node) Prop            { return Prop{Kind: "init", Key: k, Value: v} }
func Getter(k string, body ...Node) Prop { return Prop{Kind: "get", Key: k, Value: &Func{Body: body}} }
func Setter(k, param string, body ...Node) Prop {
	return Prop{Kind: "set", Key: k, Value: &Func{Params: []string{param}, Body: body}}
}
func FnE(name string, params []string, body ...Node) *Func {
	return &Func{Name: name, Params: params, Body: body}
}
func FnD(name string, params []string, body ...Node) *Func {
	return &Func{Name: name, Params: params, Body: body, Decl: true}
}
func ES(x Node) *ExprStmt           { return &ExprStmt{X: x} }
func Log(a ...Node) *ExprStmt       { return ES(CallN("log", a...)) }
func V(name string, init Node) *Var { return &Var{Decls: []VarDecl{{Name: name, Init: init}}} }
func Blk(s ...Node) *Block          { return &Block{Body: s} }
func Ret(x Node) *Return            { return &Return{X: x} }
func IfS(c, t, e Node) *If          { return &If{Test: c, Then: t, Else: e} }
func Thr(x Node) *Throw             { return &Throw{X: x} }
func Lbl(l string, s Node) *Labeled { return &Labeled{Label: l, Body: s} }
func TryC(b *Block, param string, c *Block, f *Block) *Try {
	return &Try{Block: b, Param: param, Catch: c, Finally: f}
}
