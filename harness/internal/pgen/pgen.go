// Package pgen generates terminating ES5 programs as gt trees: a mix of
// hand-shaped scenarios (each exercising one interaction the property names)
// with randomised parameters, and grammar-directed random statements and
// expressions over the variables in scope.
package pgen

import (
	"fmt"
	"math"

	"verif/internal/gen"
	. "verif/internal/gt"
)

type fscope struct {
	nums, objs, fns, anys []string
	ro                    map[string]bool
	isFunc                bool
}

type lab struct {
	name string
	loop bool
}

// G is a program generator.
type G struct {
	R      *gen.Rand
	uid    int
	Feat   map[string]int
	scopes []*fscope
	loops  int
	sw     int
	labels []lab
	depth  int
	inFin  int
	// NoEval disables eval (for routes where eval semantics differ).
	NoEval bool
}

// New creates a generator.
func NewG(r *gen.Rand) *G { return &G{R: r, Feat: map[string]int{}} }

func (g *G) f(name string) { g.Feat[name]++ }

func (g *G) fresh(prefix string) string {
	g.uid++
	return fmt.Sprintf("%s%d", prefix, g.uid)
}

func (g *G) cur() *fscope { return g.scopes[len(g.scopes)-1] }

func (g *G) push(isFunc bool) *fscope {
	s := &fscope{ro: map[string]bool{}, isFunc: isFunc}
	g.scopes = append(g.scopes, s)
	return s
}
func (g *G) pop() { g.scopes = g.scopes[:len(g.scopes)-1] }

func (g *G) inFunc() bool { return len(g.scopes) > 1 }

func (g *G) all(sel func(*fscope) []string) []string {
	var out []string
	for _, s := range g.scopes {
		out = append(out, sel(s)...)
	}
	return out
}
func (g *G) nums() []string { return g.all(func(s *fscope) []string { return s.nums }) }
func (g *G) objs() []string { return g.all(func(s *fscope) []string { return s.objs }) }
func (g *G) fns() []string  { return g.all(func(s *fscope) []string { return s.fns }) }
func (g *G) anys() []string { return g.all(func(s *fscope) []string { return s.anys }) }

func (g *G) writableNums() []string {
	var out []string
	for _, s := range g.scopes {
		for _, n := range s.nums {
			if !s.ro[n] {
				out = append(out, n)
			}
		}
	}
	return out
}

func (g *G) pick(xs []string) string { return xs[g.R.Intn(len(xs))] }

// Program generates a whole program.
func (g *G) Program() *Program {
	g.push(false)
	defer g.pop()
	body := []Node{
		V("G", &This{}),
		V("$fuel", N(300)),
		FnD("v", []string{"t", "x"}, Log(S("v"), Id("t"), Id("x")), Ret(Id("x"))),
	}
	g.cur().fns = append(g.cur().fns, "v")
	// a few base variables
	for i := 0; i < 2; i++ {
		n := g.fresh("n")
		body = append(body, V(n, g.numLit()))
		g.cur().nums = append(g.cur().nums, n)
	}
	o := g.fresh("o")
	body = append(body, V(o, g.objLit(1)))
	g.cur().objs = append(g.cur().objs, o)

	items := g.R.Range(3, 7)
	for i := 0; i < items; i++ {
		if g.R.Chance(55, 100) {
			body = append(body, g.scenario()...)
		} else {
			body = append(body, g.stmts(g.R.Range(1, 3), 0)...)
		}
	}
	if g.R.Chance(1, 2) {
		body = append(body, g.completionTail()...)
	}
	return &Program{Body: body}
}

// ---------------------------------------------------------------- literals

var numLits = []float64{0, 1, 2, 3, 4, 5, 7, 10, 16, 100, 255, 0.5, 1.5, 2.25, 1e3, 4294967296, 2147483648}

func (g *G) numLit() Node {
	switch g.R.Intn(12) {
	case 0:
		return N(-float64(g.R.Range(1, 9)))
	case 1:
		return N(math.NaN())
	case 2:
		return Un("-", N(0))
	}
	return N(numLits[g.R.Intn(len(numLits))])
}

var strLits = []string{"", "a", "b", "ab", "1", "2", "10", "x y", "length", "toString", "0", " 3 ", "0x10", "1e2"}

func (g *G) strLit() Node { return S(strLits[g.R.Intn(len(strLits))]) }

var propNames = []string{"a", "b", "c", "p", "q", "x", "length", "0", "1"}

func (g *G) propName() string { return propNames[g.R.Intn(len(propNames)-2)] }

func (g *G) objLit(d int) Node {
	n := g.R.Range(0, 3)
	var ps []Prop
	seen := map[string]bool{}
	for i := 0; i < n; i++ {
		k := g.propName()
		if k == "length" || seen[k] {
			continue
		}
		seen[k] = true
		ps = append(ps, P(k, g.anyExpr(d+1)))
	}
	return ObjL(ps...)
}

// ---------------------------------------------------------------- expressions

func (g *G) numExpr(d int) Node {
	if d > 3 {
		if ns := g.nums(); len(ns) > 0 && g.R.Bool() {
			return Id(g.pick(ns))
		}
		return g.numLit()
	}
	switch g.R.Intn(22) {
	case 0, 1, 2:
		return g.numLit()
	case 3, 4, 5:
		if ns := g.nums(); len(ns) > 0 {
			return Id(g.pick(ns))
		}
		return g.numLit()
	case 6, 7, 8:
		ops := []string{"+", "-", "*", "%", "/", "&", "|", "^", "<<", ">>", ">>>"}
		g.f("arith")
		return Bin(ops[g.R.Intn(len(ops))], g.numExpr(d+1), g.numExpr(d+1))
	case 9:
		return Un([]string{"-", "+", "~"}[g.R.Intn(3)], g.numExpr(d+1))
	case 10:
		if ws := g.writableNums(); len(ws) > 0 {
			g.f("update")
			return &Update{Op: []string{"++", "--"}[g.R.Intn(2)], Prefix: g.R.Bool(), X: Id(g.pick(ws))}
		}
	case 11:
		if ws := g.writableNums(); len(ws) > 0 {
			g.f("assign-op")
			op := AssignOps[g.R.Intn(len(AssignOps))]
			return AsgOp(op, Id(g.pick(ws)), g.numExpr(d+1))
		}
	case 12:
		g.f("cond")
		return Tern(g.boolExpr(d+1), g.numExpr(d+1), g.numExpr(d+1))
	case 13:
		g.f("comma")
		return Seq(g.anyExpr(d+1), g.numExpr(d+1))
	case 14:
		g.f("v-wrap")
		return CallN("v", S(g.fresh("t")), g.numExpr(d+1))
	case 15:
		if os := g.objs(); len(os) > 0 {
			g.f("member-read")
			return Dot(Id(g.pick(os)), g.propName())
		}
	case 16:
		if os := g.objs(); len(os) > 0 {
			g.f("member-update")
			return &Update{Op: "++", Prefix: g.R.Bool(), X: Dot(Id(g.pick(os)), g.propName())}
		}
	case 17:
		if g.inFunc() {
			g.f("arguments")
			if g.R.Bool() {
				return Dot(Id("arguments"), "length")
			}
			return Idx(Id("arguments"), N(float64(g.R.Intn(3))))
		}
	case 18:
		g.f("to-number")
		return Un("+", g.anyExpr(d+1))
	case 19:
		return Dot(g.strLit(), "length")
	case 20:
		if fs := g.fns(); len(fs) > 0 {
			return g.callExpr(d + 1)
		}
	case 21:
		g.f("logical")
		return Bin([]string{"&&", "||"}[g.R.Intn(2)], g.numExpr(d+1), g.numExpr(d+1))
	}
	return g.numLit()
}

func (g *G) boolExpr(d int) Node {
	switch g.R.Intn(10) {
	case 0, 1, 2, 3:
		ops := []string{"<", ">", "<=", ">=", "==", "!=", "===", "!=="}
		g.f("compare")
		return Bin(ops[g.R.Intn(len(ops))], g.anyExpr(d+1), g.anyExpr(d+1))
	case 4:
		return Un("!", g.anyExpr(d+1))
	case 5:
		if os := g.objs(); len(os) > 0 {
			g.f("in")
			return Bin("in", S(g.propName()), Id(g.pick(os)))
		}
	case 6:
		if fs, os := g.fns(), g.objs(); len(fs) > 0 && len(os) > 0 {
			g.f("instanceof")
			return Bin("instanceof", Id(g.pick(os)), Id(g.pick(fs)))
		}
	case 7:
		return B(g.R.Bool())
	case 8:
		if os := g.objs(); len(os) > 0 {
			g.f("delete-member")
			return Un("delete", Dot(Id(g.pick(os)), g.propName()))
		}
	}
	return Bin("<", g.numExpr(d+1), g.numExpr(d+1))
}

func (g *G) callExpr(d int) Node {
	fs := g.fns()
	if len(fs) == 0 {
		return g.numLit()
	}
	f := g.pick(fs)
	if f == "v" {
		return CallN("v", S(g.fresh("t")), g.anyExpr(d+1))
	}
	n := g.R.Range(0, 3)
	args := make([]Node, n)
	for i := range args {
		args[i] = g.anyExpr(d + 1)
	}
	g.f("call")
	switch g.R.Intn(8) {
	case 0:
		g.f("call.call")
		return Meth(Id(f), "call", append([]Node{g.thisArg(d)}, args...)...)
	case 1:
		g.f("call.apply")
		return Meth(Id(f), "apply", g.thisArg(d), Arr(args...))
	case 2:
		g.f("new")
		return NewE(Id(f), args...)
	}
	return CallN(f, args...)
}

func (g *G) thisArg(d int) Node {
	switch g.R.Intn(6) {
	case 0:
		return &Null{}
	case 1:
		return Undef()
	case 2:
		return N(float64(g.R.Intn(5)))
	case 3:
		return g.strLit()
	}
	if os := g.objs(); len(os) > 0 {
		return Id(g.pick(os))
	}
	return &This{}
}

func (g *G) anyExpr(d int) Node {
	if d > 3 {
		switch g.R.Intn(4) {
		case 0:
			return g.strLit()
		case 1:
			if as := g.anys(); len(as) > 0 {
				return Id(g.pick(as))
			}
		}
		return g.numExpr(d)
	}
	switch g.R.Intn(24) {
	case 0, 1, 2, 3, 4:
		return g.numExpr(d)
	case 5, 6:
		return g.strLit()
	case 7:
		return g.boolExpr(d)
	case 8:
		if os := g.objs(); len(os) > 0 {
			return Id(g.pick(os))
		}
	case 9:
		if as := g.anys(); len(as) > 0 {
			return Id(g.pick(as))
		}
	case 10:
		return []Node{&Null{}, Undef(), B(true), B(false), Id("undefined")}[g.R.Intn(5)]
	case 11:
		g.f("typeof")
		if g.R.Chance(1, 4) {
			return Un("typeof", Id("undeclared_"+g.fresh("u")))
		}
		return Un("typeof", g.anyExpr(d+1))
	case 12:
		g.f("str-concat")
		return Bin("+", g.strLit(), g.anyExpr(d+1))
	case 13:
		return g.objLit(d)
	case 14:
		n := g.R.Range(0, 3)
		el := make([]Node, n)
		for i := range el {
			if g.R.Chance(1, 6) {
				continue
			}
			el[i] = g.anyExpr(d + 1)
		}
		if n > 0 && el[n-1] == nil {
			el[n-1] = N(1)
		}
		g.f("array-lit")
		return Arr(el...)
	case 15:
		return g.callExpr(d)
	case 16:
		if os := g.objs(); len(os) > 0 {
			g.f("member-assign")
			return Asg(Dot(Id(g.pick(os)), g.propName()), g.anyExpr(d+1))
		}
	case 17:
		if os := g.objs(); len(os) > 0 {
			g.f("index")
			return Idx(Id(g.pick(os)), g.anyExpr(d+1))
		}
	case 18:
		return &This{}
	case 19:
		g.f("void")
		return Un("void", g.anyExpr(d+1))
	case 20:
		g.f("fn-expr")
		return g.funcExpr("", d+1)
	case 21:
		g.f("cond")
		return Tern(g.anyExpr(d+1), g.anyExpr(d+1), g.anyExpr(d+1))
	case 22:
		g.f("logical")
		return Bin([]string{"&&", "||"}[g.R.Intn(2)], g.anyExpr(d+1), g.anyExpr(d+1))
	case 23:
		g.f("string-index")
		return Idx(g.strLit(), g.numExpr(d+1))
	}
	return g.numExpr(d)
}

// funcBody generates a function: params bound as "any", fuel guard first.
func (g *G) funcExpr(name string, d int) *Func {
	np := g.R.Range(0, 3)
	params := make([]string, np)
	for i := range params {
		params[i] = g.fresh("p")
	}
	if np >= 2 && g.R.Chance(1, 10) {
		params[1] = params[0] // duplicate parameter names are legal in non-strict code
		g.f("dup-param")
	}
	s := g.push(true)
	s.anys = append(s.anys, params...)
	savedLoops, savedSw, savedLabels, savedFin := g.loops, g.sw, g.labels, g.inFin
	g.loops, g.sw, g.labels, g.inFin = 0, 0, nil, 0
	body := []Node{IfS(Bin("<", Dec(Id("$fuel"), true), N(0)), Thr(S("fuel")), nil)}
	body = append(body, g.stmts(g.R.Range(1, 3), d+1)...)
	if g.R.Chance(2, 3) {
		body = append(body, Ret(g.anyExpr(d+1)))
	}
	g.loops, g.sw, g.labels, g.inFin = savedLoops, savedSw, savedLabels, savedFin
	g.pop()
	return &Func{Name: name, Params: params, Body: body}
}

// ---------------------------------------------------------------- statements

func (g *G) stmts(n, d int) []Node {
	var out []Node
	for i := 0; i < n; i++ {
		out = append(out, g.stmt(d)...)
	}
	return out
}

func (g *G) logStmt(d int) Node {
	n := g.R.Range(1, 3)
	args := []Node{S(g.fresh("L"))}
	for i := 0; i < n; i++ {
		args = append(args, g.anyExpr(d+1))
	}
	return Log(args...)
}

func (g *G) block(d int) *Block { return Blk(g.stmts(g.R.Range(1, 3), d+1)...) }

func (g *G) jump() Node {
	// a break/continue/return/throw valid in the current context (or nil)
	var opts []Node
	if g.loops > 0 {
		opts = append(opts, &Break{}, &Continue{})
	} else if g.sw > 0 {
		opts = append(opts, &Break{})
	}
	for _, l := range g.labels {
		opts = append(opts, &Break{Label: l.name})
		if l.loop {
			opts = append(opts, &Continue{Label: l.name})
		}
	}
	if g.inFunc() {
		opts = append(opts, Ret(N(float64(g.R.Intn(9)))), &Return{})
	}
	opts = append(opts, Thr(S("T"+g.fresh(""))), Thr(NewE(Id([]string{"Error", "TypeError", "RangeError"}[g.R.Intn(3)]), S("m"))))
	j := opts[g.R.Intn(len(opts))]
	switch x := j.(type) {
	case *Break:
		if x.Label != "" {
			g.f("break-label")
		} else {
			g.f("break")
		}
	case *Continue:
		if x.Label != "" {
			g.f("continue-label")
		} else {
			g.f("continue")
		}
	case *Return:
		g.f("return")
	case *Throw:
		g.f("throw")
	}
	return j
}

func (g *G) stmt(d int) []Node {
	if d > 4 {
		return []Node{g.logStmt(d)}
	}
	switch g.R.Intn(30) {
	case 0, 1, 2, 3, 4:
		return []Node{g.logStmt(d)}
	case 5, 6:
		// var declaration
		n := g.fresh("n")
		st := V(n, g.numExpr(d+1))
		g.cur().nums = append(g.cur().nums, n)
		return []Node{st}
	case 7:
		n := g.fresh("a")
		st := V(n, g.anyExpr(d+1))
		g.cur().anys = append(g.cur().anys, n)
		return []Node{st}
	case 8:
		n := g.fresh("o")
		st := V(n, g.objLit(d))
		g.cur().objs = append(g.cur().objs, n)
		return []Node{st}
	case 9:
		n := g.fresh("f")
		fe := g.funcExpr("", d+1)
		g.cur().fns = append(g.cur().fns, n)
		g.f("fn-var")
		return []Node{V(n, fe)}
	case 10, 11:
		return []Node{ES(g.anyExpr(d))}
	case 12, 13:
		g.f("if")
		var els Node
		if g.R.Bool() {
			els = g.block(d)
		}
		return []Node{IfS(g.boolExpr(d+1), g.block(d), els)}
	case 14, 15:
		return g.loop(d)
	case 16:
		return []Node{g.switchStmt(d)}
	case 17, 18:
		return []Node{g.tryStmt(d)}
	case 19:
		return g.withStmt(d)
	case 20:
		// labelled block with break
		l := g.fresh("B")
		g.labels = append(g.labels, lab{l, false})
		b := g.block(d)
		if g.R.Bool() {
			b.Body = append(b.Body, IfS(g.boolExpr(d+1), &Break{Label: l}, nil), g.logStmt(d))
		}
		g.labels = g.labels[:len(g.labels)-1]
		g.f("labelled-block")
		return []Node{Lbl(l, b)}
	case 21:
		// labelled non-block statement (if) with break to it
		l := g.fresh("B")
		g.labels = append(g.labels, lab{l, false})
		st := IfS(g.boolExpr(d+1), Blk(g.logStmt(d), &Break{Label: l}, g.logStmt(d)), nil)
		g.labels = g.labels[:len(g.labels)-1]
		g.f("labelled-if")
		return []Node{Lbl(l, st), g.logStmt(d)}
	case 22, 23:
		// conditional jump
		if g.inFin > 0 && g.R.Chance(2, 3) {
			return []Node{g.logStmt(d)}
		}
		return []Node{IfS(g.boolExpr(d+1), g.jump(), nil)}
	case 24:
		if ws := g.writableNums(); len(ws) > 0 {
			return []Node{ES(Asg(Id(g.pick(ws)), g.numExpr(d+1)))}
		}
	case 25:
		// undeclared global assignment and deletion
		n := g.fresh("gl")
		g.f("implicit-global")
		out := []Node{ES(Asg(Id(n), g.numExpr(d+1))), Log(S("gl"), Id(n), Un("delete", Id(n)), Un("typeof", Id(n)))}
		return out
	case 26:
		if g.inFunc() {
			g.f("arguments-write")
			return []Node{ES(Asg(Idx(Id("arguments"), N(float64(g.R.Intn(2)))), g.numExpr(d+1))), g.logStmt(d)}
		}
	case 27:
		if !g.NoEval {
			return g.evalStmt(d)
		}
	case 28:
		return []Node{&Empty{}}
	case 29:
		return []Node{g.block(d)}
	}
	return []Node{g.logStmt(d)}
}

func (g *G) loop(d int) []Node {
	k := float64(g.R.Range(0, 3))
	label := ""
	if g.R.Chance(1, 3) {
		label = g.fresh("L")
	}
	enter := func() {
		g.loops++
		if label != "" {
			g.labels = append(g.labels, lab{label, true})
		}
	}
	leave := func() {
		g.loops--
		if label != "" {
			g.labels = g.labels[:len(g.labels)-1]
		}
	}
	wrap := func(s Node) Node {
		if label != "" {
			return Lbl(label, s)
		}
		return s
	}
	i := g.fresh("i")
	g.cur().nums = append(g.cur().nums, i)
	g.cur().ro[i] = true
	switch g.R.Intn(5) {
	case 0, 1:
		g.f("for")
		enter()
		body := g.block(d)
		leave()
		var init Node = V(i, N(0))
		if g.R.Chance(1, 4) {
			// expression initialiser on a pre-declared variable
			return []Node{V(i, nil), wrap(&For{Init: Asg(Id(i), N(0)), Test: Bin("<", Id(i), N(k)), Update: Inc(Id(i), false), Body: body})}
		}
		return []Node{wrap(&For{Init: init, Test: Bin("<", Id(i), N(k)), Update: Inc(Id(i), g.R.Bool()), Body: body})}
	case 2:
		g.f("while")
		enter()
		body := g.block(d)
		leave()
		body.Body = append([]Node{ES(Inc(Id(i), false))}, body.Body...)
		return []Node{V(i, N(0)), wrap(&While{Test: Bin("<", Id(i), N(k)), Body: body})}
	case 3:
		g.f("do-while")
		enter()
		body := g.block(d)
		leave()
		body.Body = append([]Node{ES(Inc(Id(i), false))}, body.Body...)
		return []Node{V(i, N(0)), wrap(&DoWhile{Body: body, Test: Bin("<", Id(i), N(k))})}
	}
	// for-in over a fresh object literal / array literal (own enumerable properties only)
	g.f("for-in")
	kname := g.fresh("k")
	g.cur().anys = append(g.cur().anys, kname)
	var obj Node
	switch g.R.Intn(4) {
	case 0:
		obj = Arr(N(1), N(2))
	case 1:
		obj = S("ab")
	case 2:
		if os := g.objs(); len(os) > 0 {
			obj = Id(g.pick(os))
		} else {
			obj = ObjL(P("a", N(1)))
		}
	default:
		obj = ObjL(P("a", N(1)), P("b", N(2)), P("c", N(3)))
	}
	enter()
	body := g.block(d)
	leave()
	body.Body = append([]Node{Log(S("k"), Id(kname))}, body.Body...)
	return []Node{wrap(&ForIn{Decl: true, Left: Id(kname), Obj: obj, Body: body})}
}

func (g *G) switchStmt(d int) Node {
	g.f("switch")
	n := g.R.Range(1, 4)
	def := g.R.Intn(n + 2) // may be absent (>= n)
	var cases []Case
	g.sw++
	for i := 0; i < n; i++ {
		if i == def {
			cases = append(cases, g.caseBody(nil, d))
			g.f("switch-default")
		}
		var test Node = N(float64(g.R.Intn(4)))
		if g.R.Chance(1, 5) {
			test = S([]string{"1", "2"}[g.R.Intn(2)])
		} else if g.R.Chance(1, 6) {
			test = CallN("v", S(g.fresh("c")), N(float64(g.R.Intn(4))))
		}
		cases = append(cases, g.caseBody(test, d))
	}
	g.sw--
	return &Switch{Disc: g.numExprSmall(), Cases: cases}
}

func (g *G) numExprSmall() Node {
	if ns := g.nums(); len(ns) > 0 && g.R.Bool() {
		return Bin("%", Id(g.pick(ns)), N(4))
	}
	return N(float64(g.R.Intn(4)))
}

func (g *G) caseBody(test Node, d int) Case {
	var body []Node
	if g.R.Chance(4, 5) {
		body = g.stmts(g.R.Range(1, 2), d+1)
	}
	if g.R.Chance(1, 2) {
		body = append(body, &Break{})
	} else {
		g.f("switch-fallthrough")
	}
	return Case{Test: test, Body: body}
}

func (g *G) tryStmt(d int) Node {
	g.f("try")
	b := g.block(d)
	if g.R.Chance(2, 3) {
		// something that may throw
		switch g.R.Intn(4) {
		case 0:
			b.Body = append(b.Body, ES(CallE(Undef())))
			g.f("throw-typeerror")
		case 1:
			b.Body = append(b.Body, ES(Id("undeclared_"+g.fresh("u"))))
			g.f("throw-referenceerror")
		case 2:
			b.Body = append(b.Body, ES(Dot(&Null{}, "x")))
			g.f("throw-typeerror")
		default:
			b.Body = append(b.Body, g.jump())
		}
		b.Body = append(b.Body, g.logStmt(d))
	}
	var c, f *Block
	param := ""
	mode := g.R.Intn(3) // 0 catch, 1 finally, 2 both
	if mode != 1 {
		param = g.fresh("e")
		s := g.cur()
		c = g.block(d)
		c.Body = append([]Node{Log(S("caught"), Bin("instanceof", Id(param), Id("Error")), Tern(Bin("instanceof", Id(param), Id("Error")), Dot(Id(param), "name"), Id(param)))}, c.Body...)
		_ = s
		if g.R.Chance(1, 4) {
			c.Body = append(c.Body, g.jump())
		}
	}
	if mode != 0 {
		g.inFin++
		f = g.block(d)
		if g.R.Chance(1, 4) {
			f.Body = append(f.Body, g.jump())
			g.f("finally-abrupt")
		}
		g.inFin--
	}
	return TryC(b, param, c, f)
}

func (g *G) withStmt(d int) []Node {
	g.f("with")
	o := g.fresh("w")
	pn := g.propName()
	g.cur().objs = append(g.cur().objs, o)
	decl := V(o, ObjL(P(pn, g.numLit()), P("m", FnE("", nil, Ret(Bin("===", &This{}, Id(o)))))))
	body := []Node{Log(S("with"), Id(pn)), ES(Asg(Id(pn), g.numExpr(d+1))), Log(S("with-this"), CallN("m"))}
	if g.R.Bool() {
		nv := g.fresh("n")
		g.cur().nums = append(g.cur().nums, nv)
		body = append(body, V(nv, g.numExpr(d+1)))
	}
	body = append(body, g.stmts(g.R.Range(0, 2), d+1)...)
	return []Node{decl, &With{Obj: Id(o), Body: Blk(body...)}, Log(S("after-with"), Dot(Id(o), pn))}
}

func (g *G) evalStmt(d int) []Node {
	g.f("eval")
	name := g.fresh("ev")
	inner := &Program{Body: []Node{V(name, g.numLit()), ES(Bin("+", Id(name), N(1)))}}
	if g.R.Chance(1, 3) {
		fn := g.fresh("ef")
		inner.Body = append([]Node{FnD(fn, nil, Ret(N(7)))}, inner.Body...)
		inner.Body = append(inner.Body, ES(CallN(fn)))
	}
	direct := g.R.Chance(2, 3)
	var call Node
	if direct {
		g.f("eval-direct")
		call = CallN("eval", &EvalSrc{Prog: inner})
	} else {
		g.f("eval-indirect")
		call = CallE(Seq(N(0), Id("eval")), &EvalSrc{Prog: inner})
	}
	out := []Node{Log(S("eval"), call, Un("typeof", Id(name)))}
	if g.inFunc() || !direct {
		// deletability of eval-declared bindings (10.4.2 / 10.5): configurable
		out = append(out, Log(S("eval-del"), Un("delete", Id(name)), Un("typeof", Id(name))))
	}
	return out
}

// completionTail ends the program with statements whose completion value is
// the program's result (12.x completion rules).
func (g *G) completionTail() []Node {
	g.f("completion-tail")
	switch g.R.Intn(8) {
	case 0:
		return []Node{ES(N(1)), IfS(B(false), ES(N(2)), nil)}
	case 1:
		i := g.fresh("i")
		return []Node{ES(S("before")), &For{Init: V(i, N(0)), Test: Bin("<", Id(i), N(2)), Update: Inc(Id(i), false), Body: Blk(ES(Bin("*", Id(i), N(10))))}}
	case 2:
		return []Node{ES(N(5)), &Switch{Disc: N(1), Cases: []Case{{Test: N(1), Body: []Node{ES(S("one"))}}, {Test: N(2), Body: []Node{ES(S("two")), &Break{}}}}}}
	case 3:
		return []Node{ES(N(1)), TryC(Blk(ES(N(2)), Thr(N(3))), "e", Blk(ES(Id("e"))), Blk(ES(N(9))))}
	case 4:
		l := g.fresh("B")
		return []Node{ES(N(1)), Lbl(l, Blk(ES(N(2)), &Break{Label: l}, ES(N(3))))}
	case 5:
		return []Node{ES(N(4)), V(g.fresh("z"), N(1))}
	case 6:
		i := g.fresh("i")
		return []Node{V(i, N(0)), &DoWhile{Body: Blk(ES(Inc(Id(i), false)), IfS(Bin(">", Id(i), N(1)), &Break{}, nil)), Test: B(true)}}
	}
	return []Node{ES(N(1)), &With{Obj: ObjL(P("a", N(3))), Body: ES(Id("a"))}}
}
