package pgen

import (
	. "verif/internal/gt"
)

func removeName(xs []string, n string) []string {
	for i := len(xs) - 1; i >= 0; i-- {
		if xs[i] == n {
			return append(xs[:i:i], xs[i+1:]...)
		}
	}
	return xs
}

func (g *G) n(i int) Node { return N(float64(i)) }

// scenario returns statements exercising one named interaction.
func (g *G) scenario() []Node {
	type sc struct {
		name string
		fn   func() []Node
	}
	all := []sc{
		{"closure-counter", g.scClosureCounter},
		{"closure-loop", g.scClosureLoop},
		{"this-binding", g.scThis},
		{"call-apply-bind", g.scCallApplyBind},
		{"constructor", g.scConstructor},
		{"arguments-alias", g.scArguments},
		{"hoisting", g.scHoisting},
		{"named-fn-expr", g.scNamedFnExpr},
		{"eval-scope", g.scEval},
		{"with-scope", g.scWith},
		{"label-jumps", g.scLabels},
		{"switch-fall", g.scSwitch},
		{"try-finally", g.scTryFinally},
		{"accessors", g.scAccessors},
		{"eval-order", g.scEvalOrder},
		{"proto-chain", g.scProto},
		{"for-in", g.scForIn},
		{"recursion", g.scRecursion},
		{"to-primitive", g.scToPrimitive},
		{"delete-bindings", g.scDelete},
	}
	if g.NoEval {
		all = append(all[:8], all[9:]...)
	}
	s := all[g.R.Intn(len(all))]
	g.f("scenario:" + s.name)
	return s.fn()
}

func (g *G) scClosureCounter() []Node {
	mk, a, b, c := g.fresh("mk"), g.fresh("ca"), g.fresh("cb"), g.fresh("c")
	start := g.R.Intn(5)
	out := []Node{
		FnD(mk, []string{"s"}, V(c, Id("s")), Ret(ObjL(
			P("inc", FnE("", nil, Ret(Inc(Id(c), g.R.Bool())))),
			P("get", FnE("", nil, Ret(Id(c)))),
			P("set", FnE("", []string{"x"}, ES(Asg(Id(c), Id("x"))))),
		))),
		V(a, CallN(mk, g.n(start))), V(b, CallN(mk, g.n(start+10))),
	}
	for i := 0; i < g.R.Range(2, 5); i++ {
		w := []string{a, b}[g.R.Intn(2)]
		switch g.R.Intn(3) {
		case 0:
			out = append(out, Log(S("inc"), Meth(Id(w), "inc")))
		case 1:
			out = append(out, ES(Meth(Id(w), "set", g.numExpr(2))))
		default:
			out = append(out, Log(S("get"), Meth(Id(a), "get"), Meth(Id(b), "get")))
		}
	}
	out = append(out, Log(S("get"), Meth(Id(a), "get"), Meth(Id(b), "get")))
	g.cur().fns = append(g.cur().fns, mk)
	g.cur().objs = append(g.cur().objs, a)
	return out
}

func (g *G) scClosureLoop() []Node {
	fs, i, j := g.fresh("fs"), g.fresh("i"), g.fresh("j")
	k := g.R.Range(1, 3)
	var push Node = ES(Meth(Id(fs), "push", FnE("", nil, Ret(Id(i)))))
	if g.R.Bool() {
		// IIFE capturing the current value
		push = ES(Meth(Id(fs), "push", CallE(FnE("", []string{"c"}, Ret(FnE("", nil, Ret(Bin("+", Id("c"), Bin("*", Id(i), N(100))))))), Id(i))))
	}
	return []Node{
		V(fs, Arr()),
		&For{Init: V(i, N(0)), Test: Bin("<", Id(i), g.n(k)), Update: Inc(Id(i), false), Body: Blk(push)},
		&For{Init: V(j, N(0)), Test: Bin("<", Id(j), Dot(Id(fs), "length")), Update: Inc(Id(j), false), Body: Blk(Log(S("cl"), CallE(Idx(Id(fs), Id(j)))))},
	}
}

func (g *G) scThis() []Node {
	o, f, d := g.fresh("o"), g.fresh("f"), g.fresh("d")
	body := []Node{Ret(Tern(Bin("===", &This{}, Id("G")), S("global"), Tern(Bin("===", &This{}, Id(o)), S("obj"), Un("typeof", &This{}))))}
	out := []Node{
		FnD(f, nil, body...),
		V(o, ObjL(P("m", Id(f)), P("inner", ObjL(P("m", Id(f)))))),
		V(d, Dot(Id(o), "m")),
		Log(S("this"), CallN(f), Meth(Id(o), "m"), CallN(d), Meth(Dot(Id(o), "inner"), "m"), CallE(Idx(Id(o), S("m")))),
		Log(S("this2"), CallE(Seq(N(0), Dot(Id(o), "m"))), CallE(&Paren{X: Dot(Id(o), "m")}), CallE(Bin("||", Dot(Id(o), "m"), N(0)))),
		Log(S("this3"), CallE(FnE("", nil, Ret(Bin("===", &This{}, Id("G"))))), NewE(FnE("", nil, ES(Asg(Dot(&This{}, "q"), N(1)))))),
		// operators that return GetValue of an operand never hand a reference on (11.11-11.14):
		// no this binding, no typeof / delete leniency for what is inside them
		Log(S("this4"), CallE(Tern(N(1), Dot(Id(o), "m"), N(0))), CallE(Tern(N(0), N(0), Dot(Id(o), "m"))), CallE(Bin("&&", N(1), Dot(Id(o), "m"))), CallE(AsgOp("=", Id(d), Dot(Id(o), "m")))),
		TryC(Blk(Log(S("typeof-cond"), Un("typeof", Tern(N(1), Id("undeclared"+f), N(0))))), "e", Blk(Log(S("typeof-cond-err"), Dot(Id("e"), "name"))), nil),
		TryC(Blk(Log(S("typeof-seq"), Un("typeof", Seq(N(0), Id("undeclared"+f))))), "e", Blk(Log(S("typeof-seq-err"), Dot(Id("e"), "name"))), nil),
		TryC(Blk(Log(S("typeof-or"), Un("typeof", Bin("||", N(0), Id("undeclared"+f))))), "e", Blk(Log(S("typeof-or-err"), Dot(Id("e"), "name"))), nil),
		Log(S("typeof-paren"), Un("typeof", &Paren{X: Id("undeclared" + f)})),
		Log(S("delete-cond"), Un("delete", Tern(N(1), Dot(Id(o), "inner"), N(0))), Un("typeof", Dot(Id(o), "inner")), Un("delete", Seq(N(0), Dot(Id(o), "inner"))), Un("typeof", Dot(Id(o), "inner"))),
	}
	g.cur().fns = append(g.cur().fns, f)
	g.cur().objs = append(g.cur().objs, o)
	return out
}

func (g *G) scCallApplyBind() []Node {
	f, b, o := g.fresh("f"), g.fresh("b"), g.fresh("o")
	thisArgs := []Node{&Null{}, Undef(), N(5), S("s"), B(true), Id(o)}
	ta := thisArgs[g.R.Intn(len(thisArgs))]
	out := []Node{
		V(o, ObjL(P("tag", S("O")))),
		FnD(f, []string{"a", "b"},
			Log(S("f"), Un("typeof", &This{}), Bin("===", &This{}, Id("G")), Bin("===", &This{}, Id(o)), Id("a"), Id("b"), Dot(Id("arguments"), "length")),
			Ret(Bin("+", Bin("+", S(""), Id("a")), Id("b")))),
		Log(S("call"), Meth(Id(f), "call", ta, g.n(1), g.n(2), g.n(3))),
		Log(S("apply"), Meth(Id(f), "apply", ta, Arr(g.n(4), g.n(5)))),
		Log(S("apply0"), Meth(Id(f), "apply", ta), Meth(Id(f), "apply", ta, &Null{}), Meth(Id(f), "call")),
		Log(S("apply-arraylike"), Meth(Id(f), "apply", ta, ObjL(P("length", N(2)), P("0", S("x")), P("1", S("y"))))),
		V(b, Meth(Id(f), "bind", ta, g.n(7))),
		Log(S("bind"), CallN(b, g.n(8), g.n(9)), Dot(Id(b), "length"), Un("typeof", Dot(Id(b), "prototype"))),
		Log(S("bind-new"), Bin("instanceof", NewE(Id(b), g.n(1)), Id(f))),
		Log(S("bind-call"), Meth(Id(b), "call", Id(o), S("z"))),
	}
	if g.R.Bool() {
		out = append(out, TryC(Blk(ES(Meth(Id(f), "apply", &Null{}, N(1)))), "e", Blk(Log(S("apply-bad"), Dot(Id("e"), "name"))), nil))
		out = append(out, TryC(Blk(ES(Meth(Dot(Dot(Id("Function"), "prototype"), "call"), "call", N(1)))), "e", Blk(Log(S("call-bad"), Dot(Id("e"), "name"))), nil))
	}
	g.cur().fns = append(g.cur().fns, f)
	return out
}

func (g *G) scConstructor() []Node {
	C, D, x, y := g.fresh("C"), g.fresh("D"), g.fresh("x"), g.fresh("y")
	rets := []Node{nil, N(5), S("s"), ObjL(P("alt", N(1))), &Null{}, &This{}, Arr(N(1))}
	r := rets[g.R.Intn(len(rets))]
	cbody := []Node{ES(Asg(Dot(&This{}, "v"), Id("a")))}
	if r != nil {
		cbody = append(cbody, Ret(r))
	}
	out := []Node{
		FnD(C, []string{"a"}, cbody...),
		ES(Asg(Dot(Dot(Id(C), "prototype"), "get"), FnE("", nil, Ret(Dot(&This{}, "v"))))),
		ES(Asg(Dot(Dot(Id(C), "prototype"), "shared"), N(1))),
		V(x, NewE(Id(C), g.n(g.R.Intn(5)))),
		Log(S("ctor"), Bin("instanceof", Id(x), Id(C)), Dot(Id(x), "v"), Dot(Id(x), "alt"), Un("typeof", Dot(Id(x), "get")), Bin("===", Dot(Id(x), "constructor"), Id(C))),
		Log(S("ctor-noargs"), Dot(&New{Callee: Id(C), NoArgs: true}, "v"), Bin("in", S("shared"), Id(x)), Meth(Id(x), "hasOwnProperty", S("shared"))),
		FnD(D, nil, ES(Meth(Id(C), "call", &This{}, N(9)))),
		ES(Asg(Dot(Id(D), "prototype"), NewE(Id(C), N(0)))),
		V(y, NewE(Id(D))),
		Log(S("inherit"), Bin("instanceof", Id(y), Id(C)), Bin("instanceof", Id(y), Id(D)), Dot(Id(y), "shared"), Dot(Id(y), "v"), Bin("===", Dot(Id(y), "constructor"), Id(C))),
		ES(Asg(Dot(Dot(Id(C), "prototype"), "shared"), N(2))),
		Log(S("proto-live"), Dot(Id(y), "shared"), Meth(Dot(Id(C), "prototype"), "isPrototypeOf", Id(y)), Bin("===", Meth(Id("Object"), "getPrototypeOf", Id(y)), Dot(Id(D), "prototype"))),
		ES(Asg(Dot(Id(C), "prototype"), ObjL(P("fresh", N(1))))),
		Log(S("proto-replaced"), Bin("instanceof", Id(x), Id(C)), Dot(NewE(Id(C), N(1)), "fresh")),
	}
	out = append(out, TryC(Blk(ES(NewE(N(5)))), "e", Blk(Log(S("new-non-fn"), Dot(Id("e"), "name"))), nil))
	out = append(out, TryC(Blk(ES(Bin("instanceof", Id(x), ObjL()))), "e", Blk(Log(S("instanceof-bad"), Dot(Id("e"), "name"))), nil))
	g.cur().fns = append(g.cur().fns, C)
	g.cur().objs = append(g.cur().objs, x)
	return out
}

func (g *G) scArguments() []Node {
	f := g.fresh("f")
	nargs := g.R.Range(0, 3)
	args := make([]Node, nargs)
	for i := range args {
		args[i] = g.n(i + 1)
	}
	body := []Node{
		Log(S("args"), Dot(Id("arguments"), "length"), Id("a"), Id("b"), Idx(Id("arguments"), N(0)), Idx(Id("arguments"), N(1))),
		ES(Asg(Id("a"), N(10))),
		Log(S("a->args"), Idx(Id("arguments"), N(0))),
		ES(Asg(Idx(Id("arguments"), N(1)), N(20))),
		Log(S("args->b"), Id("b")),
		Log(S("callee"), Bin("===", Dot(Id("arguments"), "callee"), Id(f)), Un("typeof", Id("arguments")), Meth(Dot(Dot(Id("Object"), "prototype"), "toString"), "call", Id("arguments"))),
	}
	switch g.R.Intn(4) {
	case 0:
		body = append(body, Log(S("del"), Un("delete", Idx(Id("arguments"), N(0)))), ES(Asg(Id("a"), N(30))), Log(S("after-del"), Idx(Id("arguments"), N(0)), Id("a")))
	case 1:
		body = append(body, ES(Asg(Dot(Id("arguments"), "length"), N(1))), Log(S("len-write"), Dot(Id("arguments"), "length"), Meth(Meth(Dot(Dot(Id("Array"), "prototype"), "slice"), "call", Id("arguments")), "join", S("-"))))
	case 2:
		body = append(body, V("arguments", nil), Log(S("var-arguments"), Un("typeof", Id("arguments"))))
	default:
		body = append(body, Log(S("slice"), Meth(Meth(Dot(Dot(Id("Array"), "prototype"), "slice"), "call", Id("arguments"), N(0)), "join", S("-"))))
	}
	out := []Node{FnD(f, []string{"a", "b"}, body...), ES(CallN(f, args...))}
	g.cur().fns = append(g.cur().fns, f)
	return out
}

func (g *G) scHoisting() []Node {
	f, h, x := g.fresh("f"), g.fresh("h"), g.fresh("x")
	body := []Node{
		Log(S("hoist"), Un("typeof", Id(x)), Un("typeof", Id(h)), Un("typeof", Id("p"))),
		V(x, N(1)),
		FnD(h, nil, Ret(N(1))),
		Log(S("hoist2"), Id(x), CallN(h)),
		FnD(h, nil, Ret(N(2))),
		V(h, nil),
		Log(S("hoist3"), Un("typeof", Id(h))),
		V("p", nil),
		Log(S("param-redecl"), Id("p")),
	}
	if g.R.Bool() {
		body = append(body, FnD("p", nil, Ret(N(3))))
		body[0] = Log(S("hoist"), Un("typeof", Id(x)), Un("typeof", Id(h)), Un("typeof", Id("p")), S("fn-over-param"))
	}
	if g.R.Bool() {
		nv := g.fresh("never")
		body = append(body, IfS(B(false), V(nv, N(1)), nil), Log(S("never"), Un("typeof", Id(nv)), Id(nv)))
	}
	out := []Node{FnD(f, []string{"p"}, body...), ES(CallN(f, N(7))), Log(S("outer-unaffected"), Un("typeof", Id(x)))}
	if g.R.Bool() {
		sf := g.fresh("selfassign")
		out = append(out, FnD(sf, nil, ES(Asg(Id(sf), N(5))), Ret(N(1))), Log(S("decl-self-assign"), CallN(sf), Un("typeof", Id(sf))))
	}
	if g.R.Bool() {
		i := g.fresh("i")
		out = append(out, TryC(Blk(&For{Init: V(i, N(0)), Test: Bin("<", Id(i), N(2)), Update: Inc(Id(i), false), Body: Blk(Log(S("loop-ref"), Id(i)), ES(Id("undeclared_"+i)), Log(S("not-reached")))}),
			"e", Blk(Log(S("loop-ref-err"), Dot(Id("e"), "name"))), nil))
	}
	return out
}

func (g *G) scNamedFnExpr() []Node {
	f, nm := g.fresh("f"), g.fresh("self")
	return []Node{
		V(f, FnE(nm, []string{"n"},
			ES(Asg(Id(nm), N(5))),
			Log(S("nfe"), Un("typeof", Id(nm)), Bin("===", Id(nm), Id(f))),
			Ret(Tern(Bin(">", Id("n"), N(0)), CallN(nm, Bin("-", Id("n"), N(1))), S("done"))))),
		Log(S("nfe-out"), CallN(f, g.n(g.R.Range(0, 2))), Un("typeof", Id(nm))),
	}
}

func (g *G) scEval() []Node {
	f, x, y := g.fresh("f"), g.fresh("x"), g.fresh("y")
	inner1 := &Program{Body: []Node{V(x, N(2)), ES(Bin("+", Id(x), Id("loc")))}}
	inner2 := &Program{Body: []Node{V(y, N(3)), ES(Un("typeof", Id("loc")))}}
	body := []Node{
		V("loc", N(10)),
		Log(S("direct"), CallN("eval", &EvalSrc{Prog: inner1}), Un("typeof", Id(x))),
		Log(S("indirect"), CallE(Seq(N(0), Id("eval")), &EvalSrc{Prog: inner2}), Un("typeof", Id(y))),
		Log(S("eval-nonstring"), CallN("eval", N(5)), CallN("eval"), Bin("===", CallN("eval", Id("G")), Id("G"))),
		Log(S("del-eval-var"), Un("delete", Id(x)), Un("typeof", Id(x))),
	}
	if g.R.Bool() {
		e := g.fresh("ev")
		body = append(body, V(e, Id("eval")), Log(S("aliased-eval-is-indirect"), CallN(e, &EvalSrc{Prog: &Program{Body: []Node{ES(Un("typeof", Id("loc")))}}})))
	}
	if g.R.Bool() {
		fn := g.fresh("ef")
		body = append(body, ES(CallN("eval", &EvalSrc{Prog: &Program{Body: []Node{FnD(fn, nil, Ret(Id("loc")))}}})), Log(S("eval-fn-decl"), CallN(fn)))
	}
	if g.R.Bool() {
		// a member call of eval is an indirect eval (15.1.2.1.1), whatever the member is called on;
		// through a with statement the reference has an environment record as base: direct
		oe := g.fresh("oe")
		body = append(body, V(oe, ObjL(P("eval", Id("eval")))),
			Log(S("member-eval-is-indirect"), Meth(Id(oe), "eval", &EvalSrc{Prog: &Program{Body: []Node{ES(Un("typeof", Id("loc")))}}}),
				Meth(Id("G"), "eval", &EvalSrc{Prog: &Program{Body: []Node{ES(Un("typeof", Id("loc")))}}}),
				CallE(Idx(Id(oe), S("eval")), &EvalSrc{Prog: &Program{Body: []Node{ES(Bin("===", &This{}, Id("G")))}}})))
	}
	return []Node{FnD(f, nil, body...), ES(CallN(f)), Log(S("global-after"), Un("typeof", Id(x)), Un("typeof", Id(y)), Un("delete", Id(y)), Un("typeof", Id(y)))}
}

func (g *G) scWith() []Node {
	o, f, x := g.fresh("o"), g.fresh("f"), g.fresh("x")
	body := []Node{
		V(x, N(1)), V("q", N(2)),
		V(o, ObjL(P(x, N(100)), P("m", FnE("", nil, Ret(Bin("===", &This{}, Id(o))))))),
		&With{Obj: Id(o), Body: Blk(
			Log(S("with-read"), Id(x), Id("q")),
			ES(Asg(Id(x), N(200))),
			ES(Asg(Id("q"), N(3))),
			V(x, N(300)),
			Log(S("with-this"), CallN("m")),
			V("fresh", N(4)),
			ES(Asg(Id("implicit"+x), N(5))),
			ES(Asg(Dot(Id(o), "late"), N(6))),
			Log(S("with-late"), Un("typeof", Id("late"))),
			Log(S("with-delete"), Un("delete", Id(x)), Id(x)),
		)},
		Log(S("after"), Id(x), Id("q"), Dot(Id(o), x), Un("typeof", Id("fresh")), Un("typeof", Dot(Id(o), "fresh")), Un("typeof", Dot(Id("G"), "implicit"+x))),
	}
	if g.R.Bool() {
		body = append(body, &With{Obj: S("str"), Body: Log(S("with-prim"), Id("length"))})
	}
	if g.R.Bool() {
		// an exception leaving a with body restores the lexical environment (12.10)
		wo := g.fresh("wo")
		body = append(body,
			V(wo, ObjL(P(x, S("with-object")), P("q", S("with-q")))),
			TryC(Blk(&With{Obj: Id(wo), Body: Blk(Log(S("in-with"), Id(x)), Thr(S("boom")))}), "e", Blk(Log(S("with-threw"), Id("e"), Id(x), Id("q"))), nil),
			ES(Asg(Id("q"), S("assigned"))),
			Log(S("after-with-throw"), Id(x), Id("q"), Dot(Id(wo), "q"), CallE(FnE("", nil, Ret(Id(x))))),
		)
	}
	if g.R.Bool() {
		// 12.2: the declared name is resolved before the initialiser runs, so an initialiser
		// that adds the name to the with object, or deletes it there, does not move the store
		va, vd, xa, xd := g.fresh("va"), g.fresh("vd"), g.fresh("xa"), g.fresh("xd")
		body = append(body,
			V(va, ObjL(P("keep", N(1)))), V(vd, ObjL(P(xd, S("own")))),
			&With{Obj: Id(va), Body: Blk(V(xa, Seq(Asg(Dot(Id(va), xa), S("added")), S("init-a"))), Log(S("with-var-add"), Id(xa), Dot(Id(va), xa)))},
			&With{Obj: Id(vd), Body: Blk(V(xd, Seq(Un("delete", Dot(Id(vd), xd)), S("init-d"))), Log(S("with-var-del"), Id(xd), Dot(Id(vd), xd)))},
			Log(S("after-with-var"), Id(xa), Dot(Id(va), xa), Id(xd), Dot(Id(vd), xd)),
		)
	}
	if g.R.Bool() {
		c := g.fresh("c")
		body = append(body, V(c, nil), &With{Obj: ObjL(P("w", N(7))), Body: ES(Asg(Id(c), FnE("", nil, Ret(Id("w")))))}, Log(S("with-closure"), CallN(c)))
	}
	return []Node{FnD(f, nil, body...), ES(CallN(f))}
}

func (g *G) scLabels() []Node {
	a, b, i, j := g.fresh("A"), g.fresh("B"), g.fresh("i"), g.fresh("j")
	jumps := []Node{&Break{}, &Continue{}, &Break{Label: a}, &Continue{Label: a}, &Break{Label: b}, &Continue{Label: b}}
	jp := jumps[g.R.Intn(len(jumps))]
	ci, cj := g.R.Intn(3), g.R.Intn(3)
	inner := Blk(
		IfS(Bin("&&", Bin("===", Id(i), g.n(ci)), Bin("===", Id(j), g.n(cj))), jp, nil),
		Log(S("ij"), Id(i), Id(j)),
	)
	var innerLoop Node = &For{Init: V(j, N(0)), Test: Bin("<", Id(j), N(3)), Update: Inc(Id(j), false), Body: inner}
	innerLoop = Lbl(b, innerLoop)
	if g.R.Bool() {
		innerLoop = TryC(Blk(innerLoop), "", nil, Blk(Log(S("fin"), Id(i))))
	}
	out := []Node{
		Lbl(a, &For{Init: V(i, N(0)), Test: Bin("<", Id(i), N(3)), Update: Inc(Id(i), false), Body: Blk(
			innerLoop,
			Log(S("after-inner"), Id(i)),
		)}),
		Log(S("done"), Id(i), Id(j)),
	}
	if g.R.Bool() {
		// break out of a labelled statement that is neither a block nor a loop
		l, r := g.fresh("N"), g.fresh("r")
		out = append(out, V(r, Arr()),
			Lbl(l, IfS(B(true), &Break{Label: l}, nil)), ES(Meth(Id(r), "push", N(1))),
			Lbl(l+"w", &With{Obj: ObjL(), Body: &Break{Label: l + "w"}}), ES(Meth(Id(r), "push", N(2))),
			Lbl(l+"t", TryC(Blk(&Break{Label: l + "t"}), "", nil, Blk(ES(Meth(Id(r), "push", N(3)))))), ES(Meth(Id(r), "push", N(4))),
			Log(S("labelled-nonblock"), Meth(Id(r), "join", S(","))))
	}
	if g.R.Bool() {
		l := g.fresh("S")
		out = append(out, Lbl(l, &Switch{Disc: N(1), Cases: []Case{{Test: N(1), Body: []Node{&While{Test: B(true), Body: Blk(&Break{Label: l})}}}, {Test: N(2), Body: []Node{Log(S("not-reached"))}}}}), Log(S("after-switch-label")))
	}
	return out
}

func (g *G) scSwitch() []Node {
	f := g.fresh("sw")
	n := g.R.Range(2, 4)
	def := g.R.Intn(n + 1)
	var cases []Case
	for i := 0; i <= n; i++ {
		var body []Node
		body = append(body, Log(S("case"), g.n(i)))
		if g.R.Chance(1, 3) {
			body = append(body, &Break{})
		}
		if i == def {
			cases = append(cases, Case{Test: nil, Body: append([]Node{Log(S("default"))}, body[1:]...)})
			continue
		}
		var test Node = g.n(i)
		if g.R.Chance(1, 4) {
			test = CallN("v", S("t"), g.n(i))
		} else if g.R.Chance(1, 5) {
			// a case expression that changes the variable the discriminant was read from
			test = Seq(Asg(Id("x"), g.n(g.R.Intn(n+1))), g.n(i+10))
		}
		cases = append(cases, Case{Test: test, Body: body})
	}
	out := []Node{FnD(f, []string{"x"}, &Switch{Disc: Id("x"), Cases: cases}, Ret(S("end")))}
	for i := 0; i <= n+1; i++ {
		out = append(out, Log(S("sw"), CallN(f, g.n(i))))
	}
	out = append(out, Log(S("sw-strict"), CallN(f, S("1"))))
	return out
}

func (g *G) scTryFinally() []Node {
	f := g.fresh("tf")
	abrupt := func() Node {
		switch g.R.Intn(6) {
		case 0:
			return Ret(S("r" + g.fresh("")))
		case 1:
			return Thr(S("t" + g.fresh("")))
		case 2:
			return &Break{}
		case 3:
			return &Continue{}
		case 4:
			return Thr(NewE(Id("RangeError"), S("boom")))
		}
		return &Empty{}
	}
	tryB := Blk(Log(S("try")), abrupt(), Log(S("try-end")))
	var catchB, finB *Block
	mode := g.R.Intn(3)
	if mode != 1 {
		catchB = Blk(Log(S("catch"), Tern(Bin("instanceof", Id("e"), Id("Error")), Dot(Id("e"), "name"), Id("e"))), abrupt(), Log(S("catch-end")))
	}
	if mode != 0 {
		finB = Blk(Log(S("finally"), Id("e")), abrupt(), Log(S("finally-end")))
	}
	i := g.fresh("i")
	body := []Node{
		V("e", S("outer-e")), // same name as the catch parameter: visible again in finally and after (12.14)
		&For{Init: V(i, N(0)), Test: Bin("<", Id(i), N(2)), Update: Inc(Id(i), false), Body: Blk(
			Log(S("iter"), Id(i)),
			TryC(tryB, "e", catchB, finB),
			Log(S("iter-end"), Id(i), Id("e")),
		)},
		Ret(S("fell-off")),
	}
	return []Node{
		FnD(f, nil, body...),
		TryC(Blk(Log(S("tf"), CallN(f))), "e", Blk(Log(S("tf-threw"), Tern(Bin("instanceof", Id("e"), Id("Error")), Dot(Id("e"), "name"), Id("e")))), nil),
	}
}

func (g *G) scAccessors() []Node {
	o, st := g.fresh("o"), g.fresh("st")
	out := []Node{
		V(st, N(1)),
		V(o, ObjL(
			Getter("x", Log(S("get-x")), Ret(Id(st))),
			Setter("x", "val", Log(S("set-x"), Id("val")), ES(Asg(Id(st), Id("val")))),
			Getter("ro", Ret(N(42))),
			P("plain", N(1)),
		)),
		Log(S("acc"), Dot(Id(o), "x")),
		ES(Asg(Dot(Id(o), "x"), N(5))),
		Log(S("acc2"), AsgOp("+=", Dot(Id(o), "x"), N(2)), Inc(Dot(Id(o), "x"), false), Inc(Dot(Id(o), "x"), true)),
		ES(Asg(Dot(Id(o), "ro"), N(1))),
		Log(S("ro"), Dot(Id(o), "ro"), Asg(Dot(Id(o), "ro"), N(9))),
	}
	if g.R.Bool() {
		c := g.fresh("c")
		out = append(out,
			V(c, Meth(Id("Object"), "create", Id(o))),
			ES(Asg(Dot(Id(c), "x"), N(77))),
			Log(S("inherited-setter"), Meth(Id(c), "hasOwnProperty", S("x")), Dot(Id(c), "x"), Id(st)),
			ES(Asg(Dot(Id(c), "ro"), N(1))),
			Log(S("inherited-ro"), Meth(Id(c), "hasOwnProperty", S("ro")), Dot(Id(c), "ro")),
		)
	}
	if g.R.Bool() {
		out = append(out,
			ES(Meth(Id("Object"), "defineProperty", Id(o), S("fixed"), ObjL(P("value", N(1)), P("writable", B(false)), P("enumerable", B(false))))),
			ES(Asg(Dot(Id(o), "fixed"), N(2))),
			Log(S("fixed"), Dot(Id(o), "fixed"), Un("delete", Dot(Id(o), "fixed")), Bin("in", S("fixed"), Id(o)), Meth(Meth(Id("Object"), "keys", Id(o)), "join", S(","))),
		)
	}
	g.cur().objs = append(g.cur().objs, o)
	return out
}

func (g *G) scEvalOrder() []Node {
	f, gg, x, o := g.fresh("f"), g.fresh("g"), g.fresh("x"), g.fresh("o")
	out := []Node{
		FnD(f, []string{"a"}, Ret(S("f"))),
		FnD(gg, []string{"a"}, Ret(S("g"))),
		V(x, N(1)), V(o, ObjL(P("a", N(1)), P("b", N(2)))),
	}
	tests := [][]Node{
		{Log(S("binop"), Bin("+", CallN("v", S("l"), N(1)), Bin("*", CallN("v", S("m"), N(2)), CallN("v", S("r"), N(3)))))},
		{Log(S("callee-before-args"), CallN(f, Asg(Id(f), Id(gg)))), ES(Asg(Id(f), Id(gg)))},
		{Log(S("compound-reads-first"), AsgOp("+=", Id(x), Seq(Asg(Id(x), N(5)), N(1))), Id(x))},
		{ES(Asg(Idx(Id(o), CallN("v", S("key"), S("a"))), CallN("v", S("val"), N(9)))), Log(S("member-assign-order"), Dot(Id(o), "a"))},
		{Log(S("args-ltr"), CallN(gg, CallN("v", S("a1"), N(1)), CallN("v", S("a2"), N(2))))},
		{Log(S("cond"), Tern(CallN("v", S("c"), g.n(g.R.Intn(2))), CallN("v", S("t"), N(1)), CallN("v", S("e"), N(2))))},
		{Log(S("and-or"), Bin("||", Bin("&&", CallN("v", S("a"), g.n(g.R.Intn(2))), CallN("v", S("b"), N(2))), CallN("v", S("c"), N(3))))},
		{Log(S("rel-chain"), Bin(">", Bin(">", N(3), N(2)), N(1)), Bin("<", Bin("<", N(1), N(2)), N(3)), Bin("==", Bin("==", N(2), N(2)), N(1)))},
		{Log(S("assoc"), Bin("-", Bin("-", N(10), N(4)), N(3)), Bin("/", Bin("/", N(64), N(4)), N(2)), Asg(Id(x), Asg(Dot(Id(o), "b"), N(6))))},
		{Log(S("postfix-value"), Inc(Id(x), false), Id(x), Inc(Id(x), true)), ES(Asg(Id(x), S("5"))), Log(S("postfix-tonumber"), Inc(Id(x), false), Id(x))},
		{Log(S("rel-order"), Bin("<", ObjL(P("valueOf", FnE("", nil, Log(S("L")), Ret(N(1))))), ObjL(P("valueOf", FnE("", nil, Log(S("R")), Ret(N(2)))))),
			Bin(">", ObjL(P("valueOf", FnE("", nil, Log(S("L2")), Ret(N(1))))), ObjL(P("valueOf", FnE("", nil, Log(S("R2")), Ret(N(2)))))))},
		{Log(S("member-of-undefined-order")), TryC(Blk(ES(Asg(Dot(Idx(Id(o), S("nope")), "z"), CallN("v", S("rhs"), N(1))))), "e", Blk(Log(S("err"), Dot(Id("e"), "name"))), nil)},
		{Log(S("call-undefined-order")), TryC(Blk(ES(CallE(Dot(Id(o), "nope"), CallN("v", S("arg"), N(1))))), "e", Blk(Log(S("err"), Dot(Id("e"), "name"))), nil)},
		{Log(S("typeof-undeclared"), Un("typeof", Id("nope"+x))), TryC(Blk(ES(Id("nope"+x))), "e", Blk(Log(S("err"), Dot(Id("e"), "name"))), nil)},
		{Log(S("comma"), Seq(CallN("v", S("c1"), N(1)), CallN("v", S("c2"), N(2))))},
		// GetValue of the right operand comes before any conversion of the left one (11.5-11.10)
		{Log(S("read-then-convert"), Bin([]string{"+", "-", "*", "<", "&", "=="}[g.R.Intn(6)], ObjL(P("valueOf", FnE("", nil, Log(S("conv-l")), ES(Asg(Id(x), N(50))), Ret(N(1))))), Id(x)), Id(x)),
			Log(S("read-then-convert2"), Bin([]string{"+", "-", "%", ">=", "|"}[g.R.Intn(5)], ObjL(P("valueOf", FnE("", nil, Log(S("conv-l2")), Ret(N(1))))), CallN("v", S("r"), N(2))))},
		// CheckObjectCoercible(base) comes before ToString(key) (11.2.1)
		{TryC(Blk(ES(Idx(&Null{}, ObjL(P("toString", FnE("", nil, Log(S("key-converted")), Ret(S("k")))))))), "e", Blk(Log(S("null-member"), Dot(Id("e"), "name"))), nil),
			TryC(Blk(ES(Asg(Idx(Undef(), ObjL(P("toString", FnE("", nil, Log(S("key-converted2")), Thr(NewE(Id("RangeError"), S("k"))))))), N(1)))), "e", Blk(Log(S("undef-member"), Dot(Id("e"), "name"))), nil)},
		{Log(S("delete-order"), Un("delete", Idx(Id(o), CallN("v", S("dk"), S("b")))), Bin("in", S("b"), Id(o)))},
	}
	perm := g.R.Perm(len(tests))
	for _, k := range perm[:g.R.Range(3, 7)] {
		out = append(out, tests[k]...)
	}
	return out
}

func (g *G) scProto() []Node {
	a, b, c := g.fresh("pa"), g.fresh("pb"), g.fresh("pc")
	out := []Node{
		V(a, ObjL(P("x", N(1)), P("y", N(2)))),
		V(b, Meth(Id("Object"), "create", Id(a))),
		V(c, Meth(Id("Object"), "create", Id(b))),
		ES(Asg(Dot(Id(b), "y"), N(20))),
		Log(S("chain"), Dot(Id(c), "x"), Dot(Id(c), "y"), Meth(Id(c), "hasOwnProperty", S("x")), Bin("in", S("x"), Id(c))),
		ES(Asg(Dot(Id(c), "x"), N(100))),
		Log(S("shadow"), Dot(Id(c), "x"), Dot(Id(a), "x"), Un("delete", Dot(Id(c), "x")), Dot(Id(c), "x")),
		Log(S("nullproto"), Un("typeof", Dot(Meth(Id("Object"), "create", &Null{}), "toString")), Meth(Dot(Dot(Id("Object"), "prototype"), "toString"), "call", Id(c))),
		Log(S("tostring"), Bin("+", S(""), ObjL()), Bin("+", S(""), Arr(N(1), Arr(N(2), N(3)))), Bin("+", N(1), &Null{}), Bin("+", S("u"), Undef())),
	}
	// 15.3.5.3: instanceof walks the chain ABOVE the left operand (F.prototype is
	// not an instance of F); the prototype is read at the time of the test
	pf, pg, pi := g.fresh("PF"), g.fresh("PG"), g.fresh("pi")
	out = append(out,
		FnD(pf, nil), FnD(pg, nil), V(pi, NewE(Id(pf))),
		Log(S("instanceof"), Bin("instanceof", Id(pi), Id(pf)), Bin("instanceof", Dot(Id(pf), "prototype"), Id(pf)), Bin("instanceof", Dot(Id("Object"), "prototype"), Id("Object")),
			Bin("instanceof", Id(pi), Id("Object")), Bin("instanceof", Id(c), Id(pf)), Bin("instanceof", Meth(Id("Object"), "create", &Null{}), Id("Object"))),
		ES(Asg(Dot(Id(pg), "prototype"), Id(pi))),
		Log(S("instanceof2"), Bin("instanceof", Id(pi), Id(pg)), Bin("instanceof", NewE(Id(pg)), Id(pf)), Bin("instanceof", NewE(Id(pg)), Id(pg))),
		ES(Asg(Dot(Id(pf), "prototype"), ObjL())),
		Log(S("instanceof3"), Bin("instanceof", Id(pi), Id(pf)), Bin("instanceof", NewE(Id(pf)), Id(pf)), Bin("instanceof", Id(pf), Id("Function")), Bin("instanceof", Id("Function"), Id("Object"))),
	)
	if g.R.Bool() {
		out = append(out, ES(Meth(Id("Object"), "freeze", Id(a))), ES(Asg(Dot(Id(a), "x"), N(5))), ES(Asg(Dot(Id(c), "x"), N(6))),
			Log(S("frozen-proto"), Dot(Id(a), "x"), Dot(Id(c), "x"), Meth(Id(c), "hasOwnProperty", S("x")), Meth(Id("Object"), "isFrozen", Id(a))))
	}
	g.cur().objs = append(g.cur().objs, c)
	return out
}

func (g *G) scForIn() []Node {
	o, k, p := g.fresh("fo"), g.fresh("k"), g.fresh("fp")
	out := []Node{
		V(p, ObjL(P("inh", N(1)), P("sh", N(2)))),
		V(o, Meth(Id("Object"), "create", Id(p))),
		ES(Asg(Dot(Id(o), "b"), N(1))), ES(Asg(Dot(Id(o), "a"), N(2))), ES(Asg(Dot(Id(o), "sh"), N(3))),
		ES(Meth(Id("Object"), "defineProperty", Id(o), S("hidden"), ObjL(P("value", N(1)), P("enumerable", B(false))))),
	}
	body := []Node{Log(S("k"), Id(k), Idx(Id(o), Id(k)))}
	switch g.R.Intn(4) {
	case 0:
		body = append(body, IfS(Bin("===", Id(k), S("b")), ES(Un("delete", Dot(Id(o), "a"))), nil))
	case 1:
		body = append(body, IfS(Bin("===", Id(k), S("a")), &Continue{}, nil), Log(S("not-a")))
	case 2:
		body = append(body, IfS(Bin("===", Id(k), S("a")), &Break{}, nil))
	}
	out = append(out, &ForIn{Decl: true, Left: Id(k), Obj: Id(o), Body: Blk(body...)}, Log(S("k-after"), Id(k)))
	out = append(out, &ForIn{Decl: true, Left: Id(k), Obj: Undef(), Body: Blk(Log(S("never")))}, &ForIn{Decl: true, Left: Id(k), Obj: &Null{}, Body: Blk(Log(S("never")))})
	out = append(out, &ForIn{Left: Dot(Id(o), "cur"), Obj: Arr(N(5), N(6)), Body: Blk(Log(S("member-lhs"), Dot(Id(o), "cur")))})
	if g.R.Bool() {
		ff := g.fresh("firstKey")
		out = append(out, FnD(ff, []string{"obj"}, &ForIn{Decl: true, Left: Id("kk"), Obj: Id("obj"), Body: Blk(Log(S("visit"), Id("kk")), Ret(Id("kk")))}, Ret(S("none"))),
			Log(S("forin-return"), CallN(ff, Id(o)), CallN(ff, ObjL())))
	}
	if g.R.Bool() {
		// 12.6.4, second form: the initialiser is evaluated and stored on every evaluation of
		// the statement (the same function runs it three times), before the object expression
		fi, ki := g.fresh("initKey"), g.fresh("ki")
		out = append(out, FnD(fi, []string{"obj", "tag"}, &ForIn{Decl: true, Left: Id(ki), Init: Tern(Id("tag"), Seq(CallN("log", S("forin-init"), Id("tag")), S("set")), S("unset")), Obj: Seq(CallN("log", S("forin-obj"), Id(ki)), Id("obj")), Body: Blk(Log(S("visit-i"), Id(ki)))}, Ret(Id(ki))),
			Log(S("forin-init-result"), CallN(fi, ObjL(), N(1)), CallN(fi, Id(o), N(2)), CallN(fi, ObjL(), N(0)), CallN(fi, &Null{}, N(3))))
	}
	g.cur().objs = append(g.cur().objs, o)
	return out
}

func (g *G) scRecursion() []Node {
	f, h := g.fresh("rec"), g.fresh("mut")
	d := g.R.Range(1, 6)
	return []Node{
		FnD(f, []string{"n", "acc"}, IfS(Bin("<=", Id("n"), N(0)), Ret(Id("acc")), nil), Ret(CallN(f, Bin("-", Id("n"), N(1)), Bin("+", Id("acc"), Id("n"))))),
		FnD(h, []string{"n"}, Ret(Tern(Bin(">", Id("n"), N(0)), Bin("+", S("m"), CallN(f+"b", Bin("-", Id("n"), N(1)))), S("")))),
		FnD(f+"b", []string{"n"}, Ret(Tern(Bin(">", Id("n"), N(0)), Bin("+", S("b"), CallN(h, Bin("-", Id("n"), N(1)))), S("")))),
		Log(S("rec"), CallN(f, g.n(d), N(0)), CallN(h, g.n(d))),
	}
}

func (g *G) scToPrimitive() []Node {
	o := g.fresh("tp")
	vo := []Node{FnE("", nil, Log(S("valueOf")), Ret(N(7))), FnE("", nil, Log(S("valueOf")), Ret(ObjL())), FnE("", nil, Log(S("valueOf")), Ret(S("vs")))}
	ts := []Node{FnE("", nil, Log(S("toString")), Ret(S("str"))), FnE("", nil, Log(S("toString")), Ret(ObjL())), FnE("", nil, Log(S("toString")), Ret(N(3)))}
	out := []Node{V(o, ObjL(P("valueOf", vo[g.R.Intn(3)]), P("toString", ts[g.R.Intn(3)])))}
	uses := []Node{
		Bin("+", Id(o), N(1)), Bin("+", S("s"), Id(o)), Bin("*", Id(o), N(2)), Bin("<", Id(o), N(10)), Bin("==", Id(o), N(7)), Bin("==", Id(o), S("str")),
		Un("+", Id(o)), Un("-", Id(o)), CallN("String", Id(o)), CallN("Number", Id(o)), Idx(ObjL(P("str", N(1)), P("7", N(2))), Id(o)), Bin("in", Id(o), ObjL(P("str", N(1)))),
		Un("!", Id(o)), Bin("===", Id(o), Id(o)), Bin("+", Id(o), Id(o)), CallN("isNaN", Id(o)),
	}
	perm := g.R.Perm(len(uses))
	for _, k := range perm[:g.R.Range(2, 5)] {
		out = append(out, TryC(Blk(Log(S("tp"), uses[k])), "e", Blk(Log(S("tp-err"), Dot(Id("e"), "name"))), nil))
	}
	// both operands observable: the order of the two conversions (and which one
	// throws first) is fixed by 11.5-11.10 for every operator
	o2 := g.fresh("tq")
	vo2 := []Node{FnE("", nil, Log(S("valueOf2")), Ret(N(7))), FnE("", nil, Log(S("valueOf2")), Ret(S("7"))), FnE("", nil, Log(S("valueOf2")), Thr(S("right")))}
	out = append(out, V(o2, ObjL(P("valueOf", vo2[g.R.Intn(3)]), P("toString", FnE("", nil, Log(S("toString2")), Ret(S("str2")))))))
	for k := g.R.Range(2, 4); k > 0; k-- {
		op := BinOps[g.R.Intn(len(BinOps))]
		if op == "in" || op == "instanceof" || op == "||" || op == "&&" {
			op = "<="
		}
		l, r := Id(o), Id(o2)
		if g.R.Bool() {
			l, r = r, l
		}
		var use Node = Bin(op, l, r)
		if g.R.Chance(1, 4) && op != "<" && op != ">" && op != "<=" && op != ">=" && op != "==" && op != "!=" && op != "===" && op != "!==" {
			tmp := g.fresh("tc")
			out = append(out, V(tmp, l))
			use = AsgOp(op+"=", Id(tmp), r)
		}
		out = append(out, TryC(Blk(Log(S("tp2"), use)), "e", Blk(Log(S("tp2-err"), Tern(Bin("instanceof", Id("e"), Id("Error")), Dot(Id("e"), "name"), Id("e")))), nil))
	}
	return out
}

func (g *G) scDelete() []Node {
	f, o := g.fresh("df"), g.fresh("do")
	return []Node{
		FnD(f, []string{"p"}, V("loc", N(1)), FnD("inner", nil),
			Log(S("del-local"), Un("delete", Id("loc")), Un("delete", Id("p")), Un("delete", Id("inner")), Un("delete", Id("arguments")), Un("typeof", Id("loc"))),
			Log(S("del-misc"), Un("delete", N(1)), Un("delete", Id("nonexistent"+f)), Un("delete", Dot(&This{}, "nothing")))),
		ES(CallN(f, N(1))),
		V(o, ObjL(P("a", N(1)))),
		Log(S("del-prop"), Un("delete", Dot(Id(o), "a")), Un("delete", Dot(Id(o), "a")), Bin("in", S("a"), Id(o))),
		Log(S("del-builtin"), Un("delete", Dot(Id("Number"), "prototype")), Un("delete", Dot(Arr(), "length")), Un("delete", Dot(Id(f), "length")), Un("delete", Dot(Id(f), "prototype"))),
		// bindings of global code (10.4.1, 10.5 with configurableBindings = false) are not deletable, by whatever route the program came in
		Log(S("del-global"), Un("delete", Id(o)), Un("typeof", Id(o)), Un("delete", Id(f)), Un("typeof", Id(f)),
			Dot(Meth(Id("Object"), "getOwnPropertyDescriptor", &This{}, S(o)), "configurable")),
	}
}
