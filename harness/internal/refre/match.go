package refre

import "errors"

// ErrBudget is returned when the step budget is exhausted (inconclusive).
var ErrBudget = errors.New("refre: step budget exceeded")

// ErrInexact is returned when ignoreCase matching met a code unit outside the
// part of Unicode whose case mapping this model knows exactly.
var ErrInexact = errors.New("refre: ignoreCase on an unmodelled code unit")

// Options select deviation models. The zero value is ES5.1.
type Options struct {
	// NoCaptureReset drops step 4 of RepeatMatcher (15.10.2.5): captures of the
	// quantified atom are not reset to undefined at each iteration.
	NoCaptureReset bool
	// GoDot makes '.' match everything but U+000A (RE2 without the s flag).
	GoDot bool
	// GoSpace uses RE2's \s = [\t\n\f\r ].
	GoSpace bool
	// GoLineAnchors makes multiline ^ and $ look at U+000A only (RE2's (?m)).
	GoLineAnchors bool
	// EmptyIterOnce replaces the empty check of RepeatMatcher step 2.1 ("if min
	// is zero and y's endIndex equals x's endIndex, return failure") by "leave
	// the loop through c(y)": an iteration that matched the empty string is kept
	// once, as Perl-lineage engines do.
	EmptyIterOnce bool
	// GoFold adds the Unicode simple-folding orbits that ES5 Canonicalize does
	// not have: U+017F with s/S, U+212A with k/K, U+212B with U+00E5/U+00C5,
	// U+1E9E with U+00DF.
	GoFold bool
	// CodePoints models an engine that walks code points (UTF-8) instead of
	// code units: an atom that matches a high surrogate followed by a low
	// surrogate consumes both, no match starts between the two, and a pattern
	// character that is itself a surrogate code unit (\uD83D) matches nothing.
	// (A supplementary character written literally in the pattern is not modelled.)
	CodePoints bool
}

func (o Options) lineTerm(c uint16) bool {
	if o.GoLineAnchors {
		return c == 0x000A
	}
	return IsLineTerminator(c)
}

// state is a 15.10.2.1 State: endIndex and captures (start,end pairs; -1 =
// undefined). caps slices are immutable once published.
type state struct {
	end  int
	caps []int
}

type cont func(state) (state, bool)
type matcher func(state, cont) (state, bool)

// Regexp is a compiled pattern with flags.
type Regexp struct {
	Pat        *Pattern
	Global     bool
	IgnoreCase bool
	Multiline  bool
	Opts       Options
	m          matcher
	// per-match context
	input  []uint16
	steps  int
	budget int
}

type abort struct{ err error }

// DefaultBudget is the default number of matcher steps per Match call.
const DefaultBudget = 2000000

// Compile builds the matcher for a parsed pattern (15.10.2.2). flags must be
// a subset of "gim" without repetition (checked by ValidFlags).
func Compile(p *Pattern, flags string, opts Options) *Regexp {
	re := &Regexp{Pat: p, Opts: opts, budget: DefaultBudget}
	for _, f := range flags {
		switch f {
		case 'g':
			re.Global = true
		case 'i':
			re.IgnoreCase = true
		case 'm':
			re.Multiline = true
		}
	}
	re.m = re.compile(p.Root)
	return re
}

// ValidFlags is 15.10.4.1: only g, i, m, each at most once.
func ValidFlags(flags string) bool {
	seen := map[rune]bool{}
	for _, f := range flags {
		if f != 'g' && f != 'i' && f != 'm' || seen[f] {
			return false
		}
		seen[f] = true
	}
	return true
}

// SetBudget sets the per-match step budget.
func (re *Regexp) SetBudget(n int) { re.budget = n }

func (re *Regexp) step() {
	re.steps++
	if re.steps > re.budget {
		panic(abort{ErrBudget})
	}
}

func (re *Regexp) canon(ch uint16) uint16 {
	if !re.IgnoreCase {
		return ch
	}
	if re.Opts.GoFold {
		switch ch {
		case 0x017F:
			return 'S'
		case 0x212A:
			return 'K'
		case 0x212B:
			return 0x00C5
		case 0x1E9E, 0x00DF:
			return 0x1E9E
		}
	}
	cu, exact := Canonicalize(ch)
	if !exact {
		panic(abort{ErrInexact})
	}
	return cu
}

// MatchAt is the internal [[Match]](str, index) of 15.10.2.2: it attempts a
// match starting exactly at index. caps has 2*(NCaps+1) entries; entry 0/1 is
// the whole match.
func (re *Regexp) MatchAt(input []uint16, index int) (caps []int, ok bool, err error) {
	re.input = input
	re.steps = 0
	if re.Opts.CodePoints && index > 0 && index < len(input) && input[index-1]&0xFC00 == 0xD800 && input[index]&0xFC00 == 0xDC00 {
		return nil, false, nil
	}
	defer func() {
		if r := recover(); r != nil {
			if a, is := r.(abort); is {
				caps, ok, err = nil, false, a.err
				return
			}
			panic(r)
		}
	}()
	n := re.Pat.NCaps
	c0 := make([]int, 2*(n+1))
	for i := range c0 {
		c0[i] = -1
	}
	x := state{end: index, caps: c0}
	y, matched := re.m(x, func(s state) (state, bool) { return s, true })
	if !matched {
		return nil, false, nil
	}
	out := append([]int(nil), y.caps...)
	out[0], out[1] = index, y.end
	return out, true, nil
}

func (re *Regexp) compile(n *Node) matcher {
	switch n.Kind {
	case KEmpty:
		return func(x state, c cont) (state, bool) { return c(x) }
	case KSeq:
		ms := make([]matcher, len(n.Subs))
		for i, s := range n.Subs {
			ms[i] = re.compile(s)
		}
		// 15.10.2.4: m1(x, d) where d(y) = m2(y, c)
		var build func(i int) matcher
		build = func(i int) matcher {
			if i == len(ms)-1 {
				return ms[i]
			}
			rest := build(i + 1)
			m1 := ms[i]
			return func(x state, c cont) (state, bool) {
				return m1(x, func(y state) (state, bool) { return rest(y, c) })
			}
		}
		return build(0)
	case KAlt:
		ms := make([]matcher, len(n.Subs))
		for i, s := range n.Subs {
			ms[i] = re.compile(s)
		}
		// 15.10.2.3
		return func(x state, c cont) (state, bool) {
			re.step()
			for _, m := range ms {
				if r, ok := m(x, c); ok {
					return r, true
				}
			}
			return state{}, false
		}
	case KRepeat:
		m := re.compile(n.Sub)
		return func(x state, c cont) (state, bool) {
			return re.repeat(m, n.Min, n.Max, n.Greedy, x, c, n.ParenIndex, n.ParenCount)
		}
	case KBegin:
		// 15.10.2.6
		return func(x state, c cont) (state, bool) {
			re.step()
			e := x.end
			if e == 0 || re.Multiline && re.Opts.lineTerm(re.input[e-1]) {
				return c(x)
			}
			return state{}, false
		}
	case KEnd:
		return func(x state, c cont) (state, bool) {
			re.step()
			e := x.end
			if e == len(re.input) || re.Multiline && re.Opts.lineTerm(re.input[e]) {
				return c(x)
			}
			return state{}, false
		}
	case KWordB, KNotWordB:
		want := n.Kind == KWordB
		return func(x state, c cont) (state, bool) {
			re.step()
			e := x.end
			a := e > 0 && IsWordChar(re.input[e-1])
			b := e < len(re.input) && IsWordChar(re.input[e])
			if (a != b) == want {
				return c(x)
			}
			return state{}, false
		}
	case KLookahead:
		m := re.compile(n.Sub)
		neg := n.Neg
		// 15.10.2.8
		return func(x state, c cont) (state, bool) {
			re.step()
			r, ok := m(x, func(s state) (state, bool) { return s, true })
			if neg {
				if ok {
					return state{}, false
				}
				return c(x)
			}
			if !ok {
				return state{}, false
			}
			return c(state{end: x.end, caps: r.caps})
		}
	case KGroup:
		m := re.compile(n.Sub)
		idx := n.Index
		// 15.10.2.8 Atom :: ( Disjunction )
		return func(x state, c cont) (state, bool) {
			re.step()
			return m(x, func(y state) (state, bool) {
				caps := append([]int(nil), y.caps...)
				caps[2*idx], caps[2*idx+1] = x.end, y.end
				return c(state{end: y.end, caps: caps})
			})
		}
	case KNCGroup:
		return re.compile(n.Sub)
	case KBackref:
		idx := n.Index
		// 15.10.2.9
		return func(x state, c cont) (state, bool) {
			re.step()
			s, t := x.caps[2*idx], x.caps[2*idx+1]
			if s < 0 {
				return c(x)
			}
			e := x.end
			l := t - s
			f := e + l
			if f > len(re.input) {
				return state{}, false
			}
			for i := 0; i < l; i++ {
				if re.canon(re.input[s+i]) != re.canon(re.input[e+i]) {
					return state{}, false
				}
			}
			return c(state{end: f, caps: x.caps})
		}
	case KChar:
		pc := n.Ch
		if re.Opts.CodePoints && pc&0xF800 == 0xD800 {
			return func(state, cont) (state, bool) { re.step(); return state{}, false }
		}
		// one-element CharSet: exists a in {pc} with Canonicalize(a) == Canonicalize(ch)
		return re.charSetMatcher(func(ch uint16) bool { return re.canon(ch) == re.canon(pc) }, false)
	case KDot:
		// 15.10.2.8: the set of all characters except LineTerminator (no member of
		// the set and no LineTerminator changes under Canonicalize)
		goDot := re.Opts.GoDot
		return re.charSetMatcher(func(ch uint16) bool {
			if goDot {
				return ch != 0x000A
			}
			return !IsLineTerminator(ch)
		}, false)
	case KClass:
		set := n.Set
		if re.Opts.GoSpace && n.GoSet != nil {
			set = n.GoSet
		}
		if !re.IgnoreCase {
			return re.charSetMatcher(set.Contains, n.Invert)
		}
		// "there exists a member a of set A such that Canonicalize(a) is cc"
		return re.charSetMatcher(func(ch uint16) bool {
			cc := re.canon(ch)
			if set.Contains(cc) {
				if c2, _ := Canonicalize(cc); c2 == cc {
					return true
				}
			}
			for _, a := range canonPreimages(cc) {
				if set.Contains(a) {
					return true
				}
			}
			return false
		}, n.Invert)
	}
	panic("refre: unknown node kind")
}

// charSetMatcher is 15.10.2.8 CharacterSetMatcher(A, invert); member decides
// "there exists a member a of A such that Canonicalize(a) is Canonicalize(ch)".
func (re *Regexp) charSetMatcher(member func(ch uint16) bool, invert bool) matcher {
	return func(x state, c cont) (state, bool) {
		re.step()
		e := x.end
		if e == len(re.input) {
			return state{}, false
		}
		if member(re.input[e]) == invert {
			return state{}, false
		}
		if re.Opts.CodePoints && re.input[e]&0xFC00 == 0xD800 && e+1 < len(re.input) && re.input[e+1]&0xFC00 == 0xDC00 {
			return c(state{end: e + 2, caps: x.caps})
		}
		return c(state{end: e + 1, caps: x.caps})
	}
}

// repeat is RepeatMatcher of 15.10.2.5.
func (re *Regexp) repeat(m matcher, min, max int, greedy bool, x state, c cont, parenIndex, parenCount int) (state, bool) {
	re.step()
	// 1. If max is zero, then call c(x) and return its result.
	if max == 0 {
		return c(x)
	}
	// 2. continuation d
	d := func(y state) (state, bool) {
		// If min is zero and y's endIndex is equal to x's endIndex, then return failure.
		if min == 0 && y.end == x.end {
			if re.Opts.EmptyIterOnce {
				return c(y)
			}
			return state{}, false
		}
		min2 := 0
		if min != 0 {
			min2 = min - 1
		}
		max2 := max
		if max != repInf {
			max2 = max - 1
		}
		return re.repeat(m, min2, max2, greedy, y, c, parenIndex, parenCount)
	}
	// 3-5. cap = copy of x's captures with the atom's captures reset
	xr := x
	if parenCount > 0 && !re.Opts.NoCaptureReset {
		caps := append([]int(nil), x.caps...)
		for k := parenIndex + 1; k <= parenIndex+parenCount; k++ {
			caps[2*k], caps[2*k+1] = -1, -1
		}
		xr = state{end: x.end, caps: caps}
	}
	// 7. If min is not zero, then call m(xr, d) and return its result.
	if min != 0 {
		return m(xr, d)
	}
	// 8. non-greedy
	if !greedy {
		if z, ok := c(x); ok {
			return z, true
		}
		return m(xr, d)
	}
	// 9-11. greedy
	if z, ok := m(xr, d); ok {
		return z, true
	}
	return c(x)
}
