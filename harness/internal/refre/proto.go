package refre

import (
	"errors"
	"math"
)

// JSVal is the small slice of the ES5 value space that lastIndex can hold in
// the workloads: a Number or a String.
type JSVal struct {
	IsStr bool
	S     string
	N     float64
}

// Num makes a Number value.
func Num(f float64) JSVal { return JSVal{N: f} }

// ErrUnsupportedValue is returned for lastIndex strings this model cannot convert.
var ErrUnsupportedValue = errors.New("refre: unsupported lastIndex string")

// toInteger is 9.4 after 9.3 ToNumber (strings: optional sign and decimal
// digits only; everything else is refused rather than guessed).
func (v JSVal) toInteger() (float64, error) {
	n := v.N
	if v.IsStr {
		s := v.S
		if s == "" {
			n = 0
		} else {
			neg := false
			i := 0
			if s[0] == '-' || s[0] == '+' {
				neg = s[0] == '-'
				i = 1
			}
			if i == len(s) {
				return 0, ErrUnsupportedValue
			}
			n = 0
			for ; i < len(s); i++ {
				if s[i] < '0' || s[i] > '9' {
					return 0, ErrUnsupportedValue
				}
				n = n*10 + float64(s[i]-'0')
			}
			if neg {
				n = -n
			}
		}
	}
	if n != n {
		return 0, nil
	}
	if math.IsInf(n, 0) {
		return n, nil
	}
	return math.Trunc(n), nil
}

// Cap is one capture: undefined or a string of code units.
type Cap struct {
	Def bool
	S   []uint16
}

// ExecResult is the array returned by exec (15.10.6.2 steps 12-20).
type ExecResult struct {
	Index int
	End   int
	Caps  []Cap // Caps[0] is the matched substring
}

// Object is a RegExp instance: the compiled matcher plus the lastIndex state.
type Object struct {
	Re        *Regexp
	LastIndex JSVal
	// Ambiguous is set by Match/Replace when the literal ES5.1 algorithm
	// (15.5.4.10 step 8.f, previousLastIndex) and the ES3/ES2015 reading
	// ("advance after an empty match") disagree; such calls are not compared.
	Ambiguous bool
	// ImplDefined is set by Replace when a $n / $nn with n > m was expanded
	// (Table 22: "the result is implementation-defined").
	ImplDefined bool
	// SliceContext is a deviation model: exec runs the matcher on the suffix
	// S[i:] as if it were the whole input, so ^ \b \B at position i see no
	// left context.
	SliceContext bool
}

// NewObject is 15.10.4.1 after a successful parse: lastIndex = 0.
func NewObject(re *Regexp) *Object { return &Object{Re: re, LastIndex: Num(0)} }

func (o *Object) result(s []uint16, caps []int) *ExecResult {
	r := &ExecResult{Index: caps[0], End: caps[1]}
	for k := 0; k+1 < len(caps); k += 2 {
		if caps[k] < 0 {
			r.Caps = append(r.Caps, Cap{})
		} else {
			r.Caps = append(r.Caps, Cap{Def: true, S: s[caps[k]:caps[k+1]]})
		}
	}
	return r
}

// Exec is RegExp.prototype.exec (15.10.6.2). nil result = null.
func (o *Object) Exec(s []uint16) (*ExecResult, error) {
	length := float64(len(s))
	i, err := o.LastIndex.toInteger() // steps 4-5
	if err != nil {
		return nil, err
	}
	if !o.Re.Global { // step 7
		i = 0
	}
	for { // step 9
		if i < 0 || i > length {
			o.LastIndex = Num(0)
			return nil, nil
		}
		caps, ok, err := o.Re.MatchAt(s, int(i))
		if o.SliceContext {
			// one search over the suffix, as the modelled implementation does
			caps, ok, err = o.sliceSearch(s, int(i))
			if err == nil && !ok {
				o.LastIndex = Num(0)
				return nil, nil
			}
		}
		if err != nil {
			return nil, err
		}
		if ok {
			if o.Re.Global { // step 11
				o.LastIndex = Num(float64(caps[1]))
			}
			return o.result(s, caps), nil
		}
		i++
	}
}

// sliceSearch finds the leftmost match in s[from:] taken as a whole input and
// shifts the offsets back (deviation model, see SliceContext).
func (o *Object) sliceSearch(s []uint16, from int) ([]int, bool, error) {
	sub := s[from:]
	for j := 0; j <= len(sub); j++ {
		caps, ok, err := o.Re.MatchAt(sub, j)
		if err != nil {
			return nil, false, err
		}
		if ok {
			for k := range caps {
				if caps[k] >= 0 {
					caps[k] += from
				}
			}
			return caps, true, nil
		}
	}
	return nil, false, nil
}

// Test is 15.10.6.3.
func (o *Object) Test(s []uint16) (bool, error) {
	r, err := o.Exec(s)
	return r != nil, err
}

// allMatches is the global loop shared by match and replace (15.5.4.10 8.a-f).
func (o *Object) allMatches(s []uint16) ([]*ExecResult, error) {
	o.LastIndex = Num(0)
	var out []*ExecResult
	previousLastIndex := 0.0
	for {
		r, err := o.Exec(s)
		if err != nil {
			return nil, err
		}
		if r == nil {
			break
		}
		thisIndex := o.LastIndex.N
		empty := r.Index == r.End
		if thisIndex == previousLastIndex {
			o.LastIndex = Num(thisIndex + 1)
			previousLastIndex = thisIndex + 1
		} else {
			previousLastIndex = thisIndex
			if empty {
				o.Ambiguous = true
			}
		}
		out = append(out, r)
	}
	return out, nil
}

// Match is String.prototype.match with a RegExp argument (15.5.4.10). For a
// non-global expression single is the exec result; for a global one all is the
// list of matched substrings (nil = null).
func (o *Object) Match(s []uint16) (single *ExecResult, all [][]uint16, err error) {
	o.Ambiguous = false
	if !o.Re.Global {
		single, err = o.Exec(s)
		return
	}
	rs, err := o.allMatches(s)
	if err != nil {
		return nil, nil, err
	}
	for _, r := range rs {
		all = append(all, r.Caps[0].S)
	}
	return nil, all, nil
}

// Search is 15.5.4.12: lastIndex and global are ignored and left unchanged.
func (o *Object) Search(s []uint16) (int, error) {
	for i := 0; i <= len(s); i++ {
		_, ok, err := o.Re.MatchAt(s, i)
		if err != nil {
			return 0, err
		}
		if ok {
			return i, nil
		}
	}
	return -1, nil
}

// Replacer computes the replacement for one match: either a template
// (Table 22) or a function receiving (matched, captures, position).
type Replacer struct {
	Template []uint16
	Fn       func(matched []uint16, caps []Cap, pos int, s []uint16) []uint16
}

// expand is Table 22 of 15.5.4.11. m = number of captures.
func expand(tpl []uint16, s []uint16, pos int, matched []uint16, caps []Cap, implDefined *bool) []uint16 {
	var out []uint16
	m := len(caps)
	for i := 0; i < len(tpl); i++ {
		c := tpl[i]
		if c != '$' || i+1 >= len(tpl) {
			out = append(out, c)
			continue
		}
		n := tpl[i+1]
		switch {
		case n == '$':
			out = append(out, '$')
			i++
		case n == '&':
			out = append(out, matched...)
			i++
		case n == '`':
			out = append(out, s[:pos]...)
			i++
		case n == '\'':
			out = append(out, s[pos+len(matched):]...)
			i++
		case n >= '0' && n <= '9':
			d1 := int(n - '0')
			if i+2 < len(tpl) && tpl[i+2] >= '0' && tpl[i+2] <= '9' {
				nn := d1*10 + int(tpl[i+2]-'0')
				if nn == 0 { // "$00": neither $n nor $nn
					out = append(out, c)
					continue
				}
				if nn <= m {
					if caps[nn-1].Def {
						out = append(out, caps[nn-1].S...)
					}
					i += 2
					continue
				}
				*implDefined = true
				out = append(out, c)
				continue
			}
			if d1 == 0 { // "$0" is not a replacement pattern
				out = append(out, c)
				continue
			}
			if d1 <= m {
				if caps[d1-1].Def {
					out = append(out, caps[d1-1].S...)
				}
				i++
				continue
			}
			*implDefined = true
			out = append(out, c)
		default:
			out = append(out, c)
		}
	}
	return out
}

// Expansion is the result of ExpandTemplate.
type Expansion struct {
	Out         []uint16
	ImplDefined bool
}

// ExpandTemplate applies Table 22 of 15.5.4.11 to one match.
func ExpandTemplate(tpl, s []uint16, pos int, matched []uint16, caps []Cap) Expansion {
	var e Expansion
	e.Out = expand(tpl, s, pos, matched, caps, &e.ImplDefined)
	return e
}

// Replace is String.prototype.replace with a RegExp searchValue (15.5.4.11).
func (o *Object) Replace(s []uint16, rep Replacer) ([]uint16, error) {
	o.Ambiguous, o.ImplDefined = false, false
	var rs []*ExecResult
	if !o.Re.Global {
		r, err := o.Exec(s)
		if err != nil {
			return nil, err
		}
		if r != nil {
			rs = []*ExecResult{r}
		}
	} else {
		var err error
		if rs, err = o.allMatches(s); err != nil {
			return nil, err
		}
	}
	var out []uint16
	last := 0
	for _, r := range rs {
		if r.Index < last { // only under Ambiguous (duplicate empty match)
			continue
		}
		out = append(out, s[last:r.Index]...)
		matched := r.Caps[0].S
		if rep.Fn != nil {
			out = append(out, rep.Fn(matched, r.Caps[1:], r.Index, s)...)
		} else {
			out = append(out, expand(rep.Template, s, r.Index, matched, r.Caps[1:], &o.ImplDefined)...)
		}
		last = r.End
	}
	out = append(out, s[last:]...)
	return out, nil
}

// ReplaceString is 15.5.4.11 with a non-RegExp searchValue: the first
// occurrence of search in s; m = 0.
func ReplaceString(s, search []uint16, rep Replacer) (out []uint16, implDefined bool) {
	pos := -1
	for i := 0; i+len(search) <= len(s); i++ {
		eq := true
		for k := range search {
			if s[i+k] != search[k] {
				eq = false
				break
			}
		}
		if eq {
			pos = i
			break
		}
	}
	if pos < 0 {
		return append([]uint16(nil), s...), false
	}
	out = append(out, s[:pos]...)
	if rep.Fn != nil {
		out = append(out, rep.Fn(search, nil, pos, s)...)
	} else {
		out = append(out, expand(rep.Template, s, pos, search, nil, &implDefined)...)
	}
	out = append(out, s[pos+len(search):]...)
	return out, implDefined
}

// ToUint32 is 9.6.
func ToUint32(f float64) uint32 {
	if f != f || math.IsInf(f, 0) {
		return 0
	}
	f = math.Trunc(f)
	f = math.Mod(f, 4294967296)
	if f < 0 {
		f += 4294967296
	}
	return uint32(f)
}

// Separator is a split separator: a RegExp object or a string.
type Separator struct {
	Re  *Regexp
	Str []uint16
	// WholePairs is a deviation model: no split position lies between the two
	// code units of a surrogate pair (an implementation that walks code points).
	WholePairs bool
}

func (sep Separator) splitMatch(s []uint16, q int) (e int, caps []Cap, ok bool, err error) {
	if sep.Re != nil {
		c, ok, err := sep.Re.MatchAt(s, q)
		if err != nil || !ok {
			return 0, nil, false, err
		}
		for k := 2; k+1 < len(c); k += 2 {
			if c[k] < 0 {
				caps = append(caps, Cap{})
			} else {
				caps = append(caps, Cap{Def: true, S: s[c[k]:c[k+1]]})
			}
		}
		return c[1], caps, true, nil
	}
	r := len(sep.Str)
	if q+r > len(s) {
		return 0, nil, false, nil
	}
	for i := 0; i < r; i++ {
		if s[q+i] != sep.Str[i] {
			return 0, nil, false, nil
		}
	}
	return q + r, nil, true, nil
}

// Split is String.prototype.split (15.5.4.14) for a defined separator. limit
// nil = undefined.
func Split(s []uint16, sep Separator, limit *float64) ([]Cap, error) {
	a := []Cap{}
	lim := uint32(4294967295)
	if limit != nil {
		lim = ToUint32(*limit)
	}
	size := len(s)
	p := 0
	if lim == 0 {
		return a, nil
	}
	if size == 0 {
		_, _, ok, err := sep.splitMatch(s, 0)
		if err != nil {
			return nil, err
		}
		if ok {
			return a, nil
		}
		return append(a, Cap{Def: true, S: s}), nil
	}
	q := p
	for q < size {
		if sep.WholePairs && q > 0 && s[q-1]&0xFC00 == 0xD800 && s[q]&0xFC00 == 0xDC00 {
			q++
			continue
		}
		e, caps, ok, err := sep.splitMatch(s, q)
		if err != nil {
			return nil, err
		}
		if !ok {
			q++
			continue
		}
		if e == p {
			q++
			continue
		}
		a = append(a, Cap{Def: true, S: s[p:q]})
		if uint32(len(a)) == lim {
			return a, nil
		}
		p = e
		for _, c := range caps {
			a = append(a, c)
			if uint32(len(a)) == lim {
				return a, nil
			}
		}
		q = p
	}
	return append(a, Cap{Def: true, S: s[p:size]}), nil
}
