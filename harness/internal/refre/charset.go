// Package refre is a reference implementation of ES5.1 regular expressions
// written from the specification text: the pattern grammar of 15.10.1 (with
// its early errors), the backtracking matcher of 15.10.2 in continuation
// style, and the protocol algorithms built on it (15.10.6.2 exec, 15.10.6.3
// test, 15.5.4.10 match, 15.5.4.11 replace, 15.5.4.12 search, 15.5.4.14
// split). It operates on UTF-16 code units and imports neither otto nor Go's
// regexp package.
package refre

import "sort"

// rng is an inclusive range of code units.
type rng struct{ lo, hi uint16 }

// CharSet is a set of code units (15.10.2.1 "CharSet").
type CharSet struct{ r []rng }

func (s *CharSet) addRange(lo, hi uint16) { s.r = append(s.r, rng{lo, hi}) }
func (s *CharSet) add(c uint16)           { s.r = append(s.r, rng{c, c}) }
func (s *CharSet) addSet(o *CharSet)      { s.r = append(s.r, o.r...) }

// normalize sorts and merges the ranges.
func (s *CharSet) normalize() {
	if len(s.r) < 2 {
		return
	}
	sort.Slice(s.r, func(i, j int) bool { return s.r[i].lo < s.r[j].lo })
	out := s.r[:1]
	for _, x := range s.r[1:] {
		last := &out[len(out)-1]
		if uint32(x.lo) <= uint32(last.hi)+1 {
			if x.hi > last.hi {
				last.hi = x.hi
			}
		} else {
			out = append(out, x)
		}
	}
	s.r = out
}

// Contains reports membership.
func (s *CharSet) Contains(c uint16) bool {
	for _, x := range s.r {
		if c >= x.lo && c <= x.hi {
			return true
		}
	}
	return false
}

// complement returns the set of all code units not in s.
func (s *CharSet) complement() *CharSet {
	c := &CharSet{r: append([]rng(nil), s.r...)}
	c.normalize()
	out := &CharSet{}
	next := uint32(0)
	for _, x := range c.r {
		if uint32(x.lo) > next {
			out.addRange(uint16(next), x.lo-1)
		}
		next = uint32(x.hi) + 1
	}
	if next <= 0xFFFF {
		out.addRange(uint16(next), 0xFFFF)
	}
	return out
}

// Ranges returns the normalized ranges as [lo,hi] pairs (for diagnostics).
func (s *CharSet) Ranges() [][2]uint16 {
	c := &CharSet{r: append([]rng(nil), s.r...)}
	c.normalize()
	out := make([][2]uint16, len(c.r))
	for i, x := range c.r {
		out[i] = [2]uint16{x.lo, x.hi}
	}
	return out
}

// IsLineTerminator is 7.3: LF, CR, LS, PS.
func IsLineTerminator(c uint16) bool {
	return c == 0x000A || c == 0x000D || c == 0x2028 || c == 0x2029
}

// digitSet is \d (15.10.2.12).
func digitSet() *CharSet { s := &CharSet{}; s.addRange('0', '9'); return s }

// wordSet is \w: a-z A-Z 0-9 _ (15.10.2.12 / 15.10.2.6 IsWordChar).
func wordSet() *CharSet {
	s := &CharSet{}
	s.addRange('a', 'z')
	s.addRange('A', 'Z')
	s.addRange('0', '9')
	s.add('_')
	return s
}

// spaceSet is \s: WhiteSpace (7.2) and LineTerminator (7.3). The Zs members
// are the ones stable across Unicode versions (U+180E changed category in
// Unicode 6.3 and is deliberately absent; workloads never generate it).
func spaceSet() *CharSet {
	s := &CharSet{}
	for _, c := range []uint16{0x0009, 0x000B, 0x000C, 0x0020, 0x00A0, 0xFEFF, // WhiteSpace
		0x1680, 0x202F, 0x205F, 0x3000, // Zs
		0x000A, 0x000D, 0x2028, 0x2029} { // LineTerminator
		s.add(c)
	}
	s.addRange(0x2000, 0x200A)
	return s
}

// goSpaceSet is what RE2 calls \s; used only by a deviation model.
func goSpaceSet() *CharSet {
	s := &CharSet{}
	for _, c := range []uint16{'\t', '\n', '\f', '\r', ' '} {
		s.add(c)
	}
	return s
}

// IsWordChar is 15.10.2.6 applied to a code unit.
func IsWordChar(c uint16) bool {
	return c >= 'a' && c <= 'z' || c >= 'A' && c <= 'Z' || c >= '0' && c <= '9' || c == '_'
}

// ---------------------------------------------------------------- Canonicalize

// upperLatin is String.prototype.toUpperCase restricted to a single code unit
// below U+0100 plus a handful of listed others; ok=false when the code unit
// is outside the part of Unicode this model knows exactly.
func upperUnit(c uint16) (u uint16, single bool, known bool) {
	switch {
	case c >= 'a' && c <= 'z':
		return c - 0x20, true, true
	case c < 0x80:
		return c, true, true
	case c == 0x00B5: // MICRO SIGN -> GREEK CAPITAL MU
		return 0x039C, true, true
	case c == 0x00DF: // sharp s -> "SS" (two characters)
		return c, false, true
	case c == 0x00FF: // y diaeresis -> U+0178
		return 0x0178, true, true
	case c >= 0x00E0 && c <= 0x00FE && c != 0x00F7:
		return c - 0x20, true, true
	case c < 0x100:
		return c, true, true
	}
	switch c {
	case 0x017F: // LONG S -> S
		return 'S', true, true
	case 0x0131: // DOTLESS I -> I
		return 'I', true, true
	case 0x03BC: // GREEK SMALL MU
		return 0x039C, true, true
	case 0x039C, 0x0178, 0x212A, 0x212B, 0x1E9E, 0x0130: // already upper case
		return c, true, true
	}
	// code units without case: separators, currency symbols, BOM, surrogates, CJK
	switch {
	case c >= 0x2000 && c <= 0x206F, c >= 0x20A0 && c <= 0x20CF, c == 0xFEFF, c == 0x1680, c == 0x3000,
		c >= 0xD800 && c <= 0xDFFF, c >= 0x4E00 && c <= 0x9FFF, c >= 0x3040 && c <= 0x30FF:
		return c, true, true
	}
	return c, true, false
}

// Canonicalize is 15.10.2.8 for IgnoreCase = true. exact=false when the code
// unit is outside the modelled part of Unicode.
func Canonicalize(ch uint16) (cu uint16, exact bool) {
	u, single, known := upperUnit(ch)
	if !single {
		return ch, known
	}
	if ch >= 128 && u < 128 {
		return ch, known
	}
	return u, known
}

// canonPreimages lists, for a canonical code unit, the other code units that
// canonicalize to it (inverse of Canonicalize on the modelled part).
func canonPreimages(cc uint16) []uint16 {
	switch {
	case cc >= 'A' && cc <= 'Z':
		return []uint16{cc + 0x20}
	case cc >= 0x00C0 && cc <= 0x00DE && cc != 0x00D7:
		return []uint16{cc + 0x20}
	case cc == 0x039C:
		return []uint16{0x00B5, 0x03BC}
	case cc == 0x0178:
		return []uint16{0x00FF}
	}
	return nil
}
