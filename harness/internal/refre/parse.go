package refre

import (
	"fmt"
	"unicode"
	"unicode/utf16"
)

// Kind of a pattern AST node.
type Kind int

const (
	KEmpty     Kind = iota
	KChar           // PatternCharacter / character escape
	KDot            // .
	KClass          // CharacterClass or CharacterClassEscape
	KGroup          // ( Disjunction )
	KNCGroup        // (?: Disjunction )
	KLookahead      // (?= ) (?! )
	KBackref        // \n
	KBegin          // ^
	KEnd            // $
	KWordB          // \b
	KNotWordB       // \B
	KAlt            // Disjunction
	KSeq            // Alternative
	KRepeat         // Atom Quantifier
)

// Node is a pattern AST node.
type Node struct {
	Kind   Kind
	Ch     uint16
	Set    *CharSet
	Invert bool
	GoSet  *CharSet // deviation-model hook: the set with RE2's \s in place of ES5's; nil = same
	Subs   []*Node
	Sub    *Node
	Index  int // capture index or back-reference number
	Neg    bool
	Min    int
	Max    int // -1 = infinity
	Greedy bool
	// ParenIndex / ParenCount of the quantified Atom (15.10.2.5).
	ParenIndex, ParenCount int
}

// Pattern is a parsed pattern.
type Pattern struct {
	Source       string
	Root         *Node
	NCaps        int
	HasLookahead bool
	HasBackref   bool
	// Extension is true when the text is not in the ES5.1 15.10.1 grammar but
	// is in the de-facto web-compatibility grammar (ES2015 Annex B.1.4).
	Extension bool
	// ExtReasons lists which extension rules were needed.
	ExtReasons []string
}

// Class is the classification of a pattern text.
type Class int

const (
	// Portable: in the ES5.1 grammar, no look-ahead, no back-reference.
	Portable Class = iota
	// Unsupported: valid ES5.1, but uses look-ahead or back-references.
	Unsupported
	// Extension: not ES5.1, but accepted by the web-compatibility grammar.
	Extension
	// Malformed: rejected by both grammars.
	Malformed
)

func (c Class) String() string {
	return [...]string{"portable", "unsupported", "extension", "malformed"}[c]
}

// SyntaxError is a 15.10.1 / 15.10.2 early error.
type SyntaxError struct {
	Msg string
	Pos int
}

func (e *SyntaxError) Error() string { return fmt.Sprintf("SyntaxError: %s at %d", e.Msg, e.Pos) }

// Units converts a Go string to UTF-16 code units.
func Units(s string) []uint16 { return utf16.Encode([]rune(s)) }

// GoString converts code units back (lone surrogates become U+FFFD).
func GoString(u []uint16) string { return string(utf16.Decode(u)) }

type parser struct {
	src    []uint16
	pos    int
	annexB bool
	ncaps  int // left capturing parentheses seen so far
	total  int // NCapturingParens of the whole pattern; -1 while unknown
	look   bool
	bref   bool
	maxRef int
	ext    map[string]bool
}

func (p *parser) fail(msg string) { panic(&SyntaxError{Msg: msg, Pos: p.pos}) }

func (p *parser) eof() bool { return p.pos >= len(p.src) }
func (p *parser) peek() int {
	if p.pos < len(p.src) {
		return int(p.src[p.pos])
	}
	return -1
}
func (p *parser) peekAt(k int) int {
	if p.pos+k < len(p.src) {
		return int(p.src[p.pos+k])
	}
	return -1
}
func (p *parser) note(r string) {
	if p.ext == nil {
		p.ext = map[string]bool{}
	}
	p.ext[r] = true
}

func parseWith(src []uint16, annexB bool, total int) (pat *Pattern, err error) {
	p := &parser{src: src, annexB: annexB, total: total}
	defer func() {
		if r := recover(); r != nil {
			if se, ok := r.(*SyntaxError); ok {
				pat, err = nil, se
				return
			}
			panic(r)
		}
	}()
	root := p.disjunction()
	if !p.eof() {
		// only ')' can stop the top-level disjunction
		p.fail("unmatched )")
	}
	if p.maxRef > p.ncaps && (!annexB || total >= 0) {
		// 15.10.2.9: n > NCapturingParens
		p.fail("back-reference to a group that does not exist")
	}
	pat = &Pattern{Root: root, NCaps: p.ncaps, HasLookahead: p.look, HasBackref: p.bref}
	for k := range p.ext {
		pat.ExtReasons = append(pat.ExtReasons, k)
	}
	return pat, nil
}

// ParseStrict parses with the ES5.1 15.10.1 grammar.
func ParseStrict(src string) (*Pattern, error) {
	pat, err := parseWith(Units(src), false, -1)
	if pat != nil {
		pat.Source = src
	}
	return pat, err
}

// ParseAnnexB parses with the web-compatibility grammar.
func ParseAnnexB(src string) (*Pattern, error) {
	u := Units(src)
	// first pass: count capturing parentheses treating every decimal escape as
	// a back-reference (the count does not depend on that choice)
	first, err := parseWith(u, true, -1)
	if err != nil {
		return nil, err
	}
	pat, err := parseWith(u, true, first.NCaps)
	if pat != nil {
		pat.Source = src
		pat.Extension = true
	}
	return pat, err
}

// Classify parses src and classifies it.
func Classify(src string) (Class, *Pattern, error) {
	pat, err := ParseStrict(src)
	if err == nil {
		if pat.HasLookahead || pat.HasBackref {
			return Unsupported, pat, nil
		}
		return Portable, pat, nil
	}
	pat2, err2 := ParseAnnexB(src)
	if err2 == nil {
		return Extension, pat2, err
	}
	return Malformed, nil, err
}

// ---------------------------------------------------------------- grammar

func (p *parser) disjunction() *Node {
	alts := []*Node{p.alternative()}
	for p.peek() == '|' {
		p.pos++
		alts = append(alts, p.alternative())
	}
	if len(alts) == 1 {
		return alts[0]
	}
	return &Node{Kind: KAlt, Subs: alts}
}

func (p *parser) alternative() *Node {
	var terms []*Node
	for !p.eof() && p.peek() != '|' && p.peek() != ')' {
		terms = append(terms, p.term())
	}
	switch len(terms) {
	case 0:
		return &Node{Kind: KEmpty}
	case 1:
		return terms[0]
	}
	return &Node{Kind: KSeq, Subs: terms}
}

func isDigit(c int) bool { return c >= '0' && c <= '9' }
func isOctal(c int) bool { return c >= '0' && c <= '7' }
func hexVal(c int) int {
	switch {
	case c >= '0' && c <= '9':
		return c - '0'
	case c >= 'a' && c <= 'f':
		return c - 'a' + 10
	case c >= 'A' && c <= 'F':
		return c - 'A' + 10
	}
	return -1
}
func isASCIILetter(c int) bool { return c >= 'a' && c <= 'z' || c >= 'A' && c <= 'Z' }

const repInf = -1
const repCap = 1 << 28 // saturation of DecimalDigits

// tryQuantifier parses a Quantifier at the current position; ok=false (and no
// movement) if the text there is not a quantifier.
func (p *parser) tryQuantifier() (min, max int, greedy, ok bool) {
	start := p.pos
	switch p.peek() {
	case '*':
		p.pos++
		min, max = 0, repInf
	case '+':
		p.pos++
		min, max = 1, repInf
	case '?':
		p.pos++
		min, max = 0, 1
	case '{':
		p.pos++
		if !isDigit(p.peek()) {
			p.pos = start
			return 0, 0, false, false
		}
		min = p.decimal()
		max = min
		if p.peek() == ',' {
			p.pos++
			if isDigit(p.peek()) {
				max = p.decimal()
			} else {
				max = repInf
			}
		}
		if p.peek() != '}' {
			p.pos = start
			return 0, 0, false, false
		}
		p.pos++
		if max != repInf && max < min {
			// 15.10.2.7: "If j is finite and less than i, throw a SyntaxError"
			p.fail("numbers out of order in {} quantifier")
		}
	default:
		return 0, 0, false, false
	}
	greedy = true
	if p.peek() == '?' {
		p.pos++
		greedy = false
	}
	return min, max, greedy, true
}

func (p *parser) decimal() int {
	n := 0
	for isDigit(p.peek()) {
		if n < repCap {
			n = n*10 + (p.peek() - '0')
		}
		p.pos++
	}
	if n > repCap {
		n = repCap
	}
	return n
}

func (p *parser) term() *Node {
	parenIndex := p.ncaps
	var atom *Node
	quantifiable := true
	c := p.peek()
	switch c {
	case '^':
		p.pos++
		atom, quantifiable = &Node{Kind: KBegin}, false
	case '$':
		p.pos++
		atom, quantifiable = &Node{Kind: KEnd}, false
	case '(':
		if p.peekAt(1) == '?' {
			switch p.peekAt(2) {
			case '=', '!':
				neg := p.peekAt(2) == '!'
				p.pos += 3
				p.look = true
				sub := p.disjunction()
				if p.peek() != ')' {
					p.fail("unterminated group")
				}
				p.pos++
				atom = &Node{Kind: KLookahead, Neg: neg, Sub: sub}
				// ES5.1: an Assertion takes no Quantifier. Annex B: QuantifiableAssertion.
				quantifiable = p.annexB
				if p.annexB {
					if _, _, _, ok := p.peekQuantifier(); ok {
						p.note("quantified-lookahead")
					}
				}
			case ':':
				p.pos += 3
				sub := p.disjunction()
				if p.peek() != ')' {
					p.fail("unterminated group")
				}
				p.pos++
				atom = &Node{Kind: KNCGroup, Sub: sub}
			default:
				p.fail("invalid group: (? must be followed by = ! or :")
			}
		} else {
			p.pos++
			p.ncaps++
			idx := p.ncaps
			sub := p.disjunction()
			if p.peek() != ')' {
				p.fail("unterminated group")
			}
			p.pos++
			atom = &Node{Kind: KGroup, Sub: sub, Index: idx}
		}
	case '*', '+', '?':
		p.fail("nothing to repeat")
	case '{':
		if !p.annexB {
			p.fail("{ is not a PatternCharacter")
		}
		if _, _, _, ok := p.peekQuantifier(); ok {
			p.fail("nothing to repeat")
		}
		p.note("literal-brace")
		p.pos++
		atom = &Node{Kind: KChar, Ch: '{'}
	case '}', ']':
		if !p.annexB {
			p.fail(string(rune(c)) + " is not a PatternCharacter")
		}
		p.note("literal-" + string(rune(c)))
		p.pos++
		atom = &Node{Kind: KChar, Ch: uint16(c)}
	case '.':
		p.pos++
		atom = &Node{Kind: KDot}
	case '[':
		atom = p.class()
	case '\\':
		switch p.peekAt(1) {
		case 'b':
			p.pos += 2
			atom, quantifiable = &Node{Kind: KWordB}, false
		case 'B':
			p.pos += 2
			atom, quantifiable = &Node{Kind: KNotWordB}, false
		default:
			p.pos++
			atom = p.atomEscape()
		}
	default:
		p.pos++
		atom = &Node{Kind: KChar, Ch: uint16(c)}
	}
	if !quantifiable {
		if _, _, _, ok := p.peekQuantifier(); ok {
			p.fail("nothing to repeat (quantified assertion)")
		}
		return atom
	}
	min, max, greedy, ok := p.tryQuantifier()
	if !ok {
		return atom
	}
	return &Node{Kind: KRepeat, Sub: atom, Min: min, Max: max, Greedy: greedy,
		ParenIndex: parenIndex, ParenCount: p.ncaps - parenIndex}
}

// peekQuantifier reports whether a Quantifier starts here, without consuming.
func (p *parser) peekQuantifier() (int, int, bool, bool) {
	save := p.pos
	a, b, g, ok := p.tryQuantifier()
	p.pos = save
	return a, b, g, ok
}

// isIdentifierPart is 7.6 IdentifierPart for a code unit.
func isIdentifierPart(c uint16) bool {
	if c == '$' || c == '_' || c == 0x200C || c == 0x200D {
		return true
	}
	r := rune(c)
	return unicode.IsLetter(r) || unicode.Is(unicode.Nl, r) || unicode.Is(unicode.Mn, r) ||
		unicode.Is(unicode.Mc, r) || unicode.Is(unicode.Nd, r) || unicode.Is(unicode.Pc, r)
}

// characterEscape parses the part of CharacterEscape / CharacterClassEscape
// shared by AtomEscape and ClassEscape, after the backslash. It returns either
// a single code unit or a set.
func (p *parser) commonEscape(inClass bool) (ch uint16, set *CharSet, goset *CharSet) {
	c := p.peek()
	if c < 0 {
		p.fail("\\ at end of pattern")
	}
	switch c {
	case 'd':
		p.pos++
		return 0, digitSet(), nil
	case 'D':
		p.pos++
		return 0, digitSet().complement(), nil
	case 's':
		p.pos++
		return 0, spaceSet(), goSpaceSet()
	case 'S':
		p.pos++
		return 0, spaceSet().complement(), goSpaceSet().complement()
	case 'w':
		p.pos++
		return 0, wordSet(), nil
	case 'W':
		p.pos++
		return 0, wordSet().complement(), nil
	case 'f':
		p.pos++
		return 0x000C, nil, nil
	case 'n':
		p.pos++
		return 0x000A, nil, nil
	case 'r':
		p.pos++
		return 0x000D, nil, nil
	case 't':
		p.pos++
		return 0x0009, nil, nil
	case 'v':
		p.pos++
		return 0x000B, nil, nil
	case 'c':
		n := p.peekAt(1)
		if isASCIILetter(n) {
			p.pos += 2
			return uint16(n % 32), nil, nil
		}
		if !p.annexB {
			p.fail("\\c must be followed by a ControlLetter")
		}
		if inClass && (isDigit(n) || n == '_') {
			p.note("class-control-digit")
			p.pos += 2
			return uint16(n % 32), nil, nil
		}
		// the backslash stands for itself; 'c' is not consumed
		p.note("bare-\\c")
		return '\\', nil, nil
	case 'x':
		if h1, h2 := hexVal(p.peekAt(1)), hexVal(p.peekAt(2)); h1 >= 0 && h2 >= 0 {
			p.pos += 3
			return uint16(h1*16 + h2), nil, nil
		}
		if !p.annexB {
			p.fail("\\x must be followed by two hex digits")
		}
		p.note("identity-x")
		p.pos++
		return 'x', nil, nil
	case 'u':
		h := [4]int{hexVal(p.peekAt(1)), hexVal(p.peekAt(2)), hexVal(p.peekAt(3)), hexVal(p.peekAt(4))}
		if h[0] >= 0 && h[1] >= 0 && h[2] >= 0 && h[3] >= 0 {
			p.pos += 5
			return uint16(h[0]<<12 | h[1]<<8 | h[2]<<4 | h[3]), nil, nil
		}
		if !p.annexB {
			p.fail("\\u must be followed by four hex digits")
		}
		p.note("identity-u")
		p.pos++
		return 'u', nil, nil
	}
	// IdentityEscape
	if isIdentifierPart(uint16(c)) && c != '$' {
		// ES5.1 15.10.1: IdentityEscape :: SourceCharacter but not IdentifierPart.
		// ('$' is an IdentifierPart by the letter of 7.6, but it is a pattern
		// syntax character that can only be matched through \$; every edition
		// since treats \$ as an identity escape, and so does this model.)
		if !p.annexB {
			p.fail("invalid identity escape of an IdentifierPart character")
		}
		p.note("identity-escape-of-identifier-part")
	}
	p.pos++
	return uint16(c), nil, nil
}

// legacyOctal parses B.1.4 LegacyOctalEscapeSequence at the current position.
func (p *parser) legacyOctal() uint16 {
	d1 := p.peek() - '0'
	p.pos++
	v := d1
	if isOctal(p.peek()) {
		v = v*8 + (p.peek() - '0')
		p.pos++
		if d1 <= 3 && isOctal(p.peek()) {
			v = v*8 + (p.peek() - '0')
			p.pos++
		}
	}
	return uint16(v)
}

func (p *parser) atomEscape() *Node {
	c := p.peek()
	if isDigit(c) {
		if c == '0' {
			if !isDigit(p.peekAt(1)) {
				p.pos++
				return &Node{Kind: KChar, Ch: 0}
			}
			if !p.annexB {
				p.fail("\\0 followed by a decimal digit")
			}
			p.note("legacy-octal")
			if isOctal(p.peekAt(1)) {
				return &Node{Kind: KChar, Ch: p.legacyOctal()}
			}
			p.pos++ // \0 then a literal 8 or 9
			return &Node{Kind: KChar, Ch: 0}
		}
		save := p.pos
		n := p.decimal()
		if !p.annexB || p.total < 0 || n <= p.total {
			p.bref = true
			if n > p.maxRef {
				p.maxRef = n
			}
			return &Node{Kind: KBackref, Index: n}
		}
		p.pos = save
		if c >= '8' {
			p.note("identity-8-9")
			p.pos++
			return &Node{Kind: KChar, Ch: uint16(c)}
		}
		p.note("legacy-octal")
		return &Node{Kind: KChar, Ch: p.legacyOctal()}
	}
	ch, set, goset := p.commonEscape(false)
	if set != nil {
		return &Node{Kind: KClass, Set: set, GoSet: goset}
	}
	return &Node{Kind: KChar, Ch: ch}
}

// classAtom returns either a single code unit or a set.
func (p *parser) classAtom() (ch uint16, set *CharSet, goset *CharSet) {
	c := p.peek()
	if c < 0 {
		p.fail("unterminated character class")
	}
	if c != '\\' {
		p.pos++
		return uint16(c), nil, nil
	}
	p.pos++
	n := p.peek()
	switch {
	case n == 'b':
		p.pos++
		return 0x0008, nil, nil
	case isDigit(n):
		if n == '0' && !isDigit(p.peekAt(1)) {
			p.pos++
			return 0, nil, nil
		}
		if !p.annexB {
			// 15.10.2.19: ClassEscape :: DecimalEscape must be a character
			p.fail("decimal escape in character class")
		}
		if n >= '8' {
			p.note("identity-8-9")
			p.pos++
			return uint16(n), nil, nil
		}
		p.note("legacy-octal")
		return p.legacyOctal(), nil, nil
	}
	return p.commonEscape(true)
}

func (p *parser) class() *Node {
	p.pos++ // [
	node := &Node{Kind: KClass, Set: &CharSet{}}
	gset := &CharSet{}
	differs := false
	if p.peek() == '^' {
		p.pos++
		node.Invert = true
	}
	addAtom := func(ch uint16, set, goset *CharSet) {
		switch {
		case set == nil:
			node.Set.add(ch)
			gset.add(ch)
		case goset == nil:
			node.Set.addSet(set)
			gset.addSet(set)
		default:
			node.Set.addSet(set)
			gset.addSet(goset)
			differs = true
		}
	}
	for {
		if p.eof() {
			p.fail("unterminated character class")
		}
		if p.peek() == ']' {
			p.pos++
			break
		}
		a, aset, agset := p.classAtom()
		if p.peek() == '-' && p.peekAt(1) != ']' && p.peekAt(1) >= 0 {
			p.pos++
			b, bset, bgset := p.classAtom()
			if aset != nil || bset != nil {
				// 15.10.2.15 CharacterRange: "If A does not contain exactly one character
				// or B does not contain exactly one character then throw a SyntaxError"
				if !p.annexB {
					p.fail("character class escape as a range endpoint")
				}
				p.note("class-escape-in-range")
				addAtom(a, aset, agset)
				addAtom('-', nil, nil)
				addAtom(b, bset, bgset)
				continue
			}
			if a > b {
				p.fail("range out of order in character class")
			}
			node.Set.addRange(a, b)
			gset.addRange(a, b)
			continue
		}
		addAtom(a, aset, agset)
	}
	node.Set.normalize()
	if differs {
		gset.normalize()
		node.GoSet = gset
	}
	return node
}
