package refre

import (
	"fmt"
	"strings"
	"testing"
)

func mustObj(t *testing.T, pat, flags string) *Object {
	t.Helper()
	p, err := ParseStrict(pat)
	if err != nil {
		t.Fatalf("parse %q: %v", pat, err)
	}
	return NewObject(Compile(p, flags, Options{}))
}

func show(r *ExecResult) string {
	if r == nil {
		return "null"
	}
	var parts []string
	for _, c := range r.Caps {
		if !c.Def {
			parts = append(parts, "undefined")
		} else {
			parts = append(parts, fmt.Sprintf("%q", GoString(c.S)))
		}
	}
	return fmt.Sprintf("@%d[%s]", r.Index, strings.Join(parts, ","))
}

func showCaps(cs []Cap) string {
	var parts []string
	for _, c := range cs {
		if !c.Def {
			parts = append(parts, "undefined")
		} else {
			parts = append(parts, fmt.Sprintf("%q", GoString(c.S)))
		}
	}
	return "[" + strings.Join(parts, ",") + "]"
}

func TestSpecExecExamples(t *testing.T) {
	cases := []struct{ pat, flags, in, want string }{
		// 15.10.2.3
		{`a|ab`, "", "abc", `@0["a"]`},
		{`((a)|(ab))((c)|(bc))`, "", "abc", `@0["abc","a","a",undefined,"bc",undefined,"bc"]`},
		// 15.10.2.5
		{`a[a-z]{2,4}`, "", "abcdefghi", `@0["abcde"]`},
		{`a[a-z]{2,4}?`, "", "abcdefghi", `@0["abc"]`},
		{`(aa|aabaac|ba|b|c)*`, "", "aabaac", `@0["aaba","ba"]`},
		{`(z)((a+)?(b+)?(c))*`, "", "zaacbbbcac", `@0["zaacbbbcac","z","ac","a",undefined,"c"]`},
		{`(a*)*`, "", "b", `@0["",undefined]`},
		{`(a*)b\1+`, "", "baaaac", `@0["b",""]`},
		// 15.10.2.8
		{`(?=(a+))`, "", "baaabac", `@1["","aaa"]`},
		{`(?=(a+))a*b\1`, "", "baaabac", `@3["aba","a"]`},
		{`(.*?)a(?!(a+)b\2c)\2(.*)`, "", "baaabaac", `@0["baaabaac","ba",undefined,"abaac"]`},
		// assertions, multiline
		{`^b`, "", "a\nb", `null`},
		{`^b`, "m", "a\nb", `@2["b"]`},
		{`a$`, "m", "a\r\nb", `@0["a"]`},
		{`a$`, "", "a\nb", `null`},
		{`\bb`, "", "a b", `@2["b"]`},
		{`\Bb`, "", "ab b", `@1["b"]`},
		// '.' excludes all four line terminators
		{`a.c`, "", "a\rc a\u2028c a\nc a-c", `@12["a-c"]`},
		// \s contains \v, NBSP, BOM, LS
		{`\s+`, "", "x\v\u00a0\ufeff\u2028y", `@1["\v\u00a0\ufeff\u2028"]`},
		{`[^\S]`, "", "x\vy", `@1["\v"]`},
		// escapes
		{`\x41\u0042\cJ\0\t`, "", "AB\n\x00\t", "@0[\"AB\\n\\x00\\t\"]"},
		{`[\b]`, "", "a\bc", `@1["\b"]`},
		{`\cj`, "", "\n", `@0["\n"]`},
		{`\$\.\*\/`, "", "$.*/", `@0["$.*/"]`},
		// 15.10.2.15 NOTE on ignoreCase ranges
		{`[E-F]`, "i", "e", `@0["e"]`},
		{`[E-F]`, "i", "g", `null`},
		{`[E-f]`, "i", "Z", `@0["Z"]`},
		{`[E-f]`, "i", "^", `@0["^"]`},
		// Canonicalize: no mapping from >=128 to <128 (15.10.2.8)
		{`s`, "i", "\u017f", `null`},
		{`\w`, "i", "\u017f", `null`},
		{`k`, "i", "\u212a", `null`},
		{`\u00e9`, "i", "\u00c9", "@0[\"\u00c9\"]"},
		{`\u00df`, "i", "SS", `null`},
		{`\u00b5`, "i", "\u039c", "@0[\"\u039c\"]"},
		// empty class and its complement
		{`[]`, "", "a", `null`},
		{`[^]`, "", "\n", `@0["\n"]`},
		// lazy quantifiers and counted repetition
		{`a+?`, "", "aaa", `@0["a"]`},
		{`(a+?)(a*)`, "", "aaa", `@0["aaa","a","aa"]`},
		{`(?:a|ab)(?:c|bcd)(?:d*)`, "", "abcd", `@0["abcd"]`},
		{`(a|ab)(c|bcd)(d*)`, "", "abcd", `@0["abcd","a","bcd",""]`},
		{`a{0}b`, "", "ab", `@1["b"]`},
		{`(a){2}`, "", "aaa", `@0["aa","a"]`},
		{`(?:(a)|b)*`, "", "ab", `@0["ab",undefined]`},
		{`(?:(a)|(b))*`, "", "ab", `@0["ab",undefined,"b"]`},
		{`(a|())*`, "", "aa", `@0["aa","a",undefined]`},
		{`(?:a?)*?b`, "", "aab", `@0["aab"]`},
		{`()|a`, "", "a", `@0["",""]`},
	}
	for _, c := range cases {
		o := mustObj(t, c.pat, c.flags)
		r, err := o.Exec(Units(c.in))
		if err != nil {
			t.Errorf("/%s/%s on %q: %v", c.pat, c.flags, c.in, err)
			continue
		}
		if got := show(r); got != c.want {
			t.Errorf("/%s/%s.exec(%q) = %s, want %s", c.pat, c.flags, c.in, got, c.want)
		}
	}
}

func TestBackrefReplaceExample(t *testing.T) {
	// 15.10.2.5: gcd in unary
	o := mustObj(t, `^(a+)\1*,\1+$`, "")
	out, err := o.Replace(Units("aaaaaaaaaa,aaaaaaaaaaaaaaa"), Replacer{Template: Units("$1")})
	if err != nil || GoString(out) != "aaaaa" {
		t.Fatalf("got %q %v", GoString(out), err)
	}
	// 15.5.4.11 example
	o = mustObj(t, `(\$(\d))`, "g")
	out, _ = o.Replace(Units("$1,$2"), Replacer{Template: Units("$$1-$1$2")})
	if GoString(out) != "$1-$11,$1-$22" {
		t.Fatalf("got %q", GoString(out))
	}
	if o.LastIndex.N != 0 || o.LastIndex.IsStr {
		t.Fatalf("lastIndex after global replace = %v", o.LastIndex)
	}
}

func TestReplaceTemplates(t *testing.T) {
	cases := []struct{ pat, flags, in, tpl, want string }{
		{`b`, "", "abc", "[$&|$`|$']", "a[b|a|c]c"},
		{`b`, "", "abc", "$$-$0-$00-$", "a$-$0-$00-$c"},
		{`(b)(x)?`, "", "abc", "<$1|$2|$01|$02>", "a<b||b|>c"},
		{`a|b`, "g", "abc", "$&$&", "aabbc"},
		{`x*`, "g", "abc", "-", "-a-b-c-"},
		{`(a)(b)(c)(d)(e)(f)(g)(h)(i)(j)(k)(l)`, "", "abcdefghijkl", "$12$1", "la"},
	}
	for _, c := range cases {
		o := mustObj(t, c.pat, c.flags)
		out, err := o.Replace(Units(c.in), Replacer{Template: Units(c.tpl)})
		if err != nil || GoString(out) != c.want {
			t.Errorf("%q.replace(/%s/%s,%q) = %q, want %q (%v)", c.in, c.pat, c.flags, c.tpl, GoString(out), c.want, err)
		}
		if o.ImplDefined {
			t.Errorf("%q: unexpectedly implementation-defined", c.tpl)
		}
	}
	o := mustObj(t, `(a)`, "")
	o.Replace(Units("a"), Replacer{Template: Units("$2")})
	if !o.ImplDefined {
		t.Errorf("$2 with one capture must be flagged implementation-defined")
	}
	out, impl := ReplaceString(Units("a.c a.c"), Units("."), Replacer{Template: Units("[$&$`$']")})
	if GoString(out) != "a[.ac a.c]c a.c" || impl {
		t.Errorf("ReplaceString = %q", GoString(out))
	}
	// function replacer arguments
	o = mustObj(t, `(b)(x)?`, "g")
	var log []string
	out, _ = o.Replace(Units("abcb"), Replacer{Fn: func(m []uint16, caps []Cap, pos int, s []uint16) []uint16 {
		log = append(log, fmt.Sprintf("%s %s %d %s", GoString(m), showCaps(caps), pos, GoString(s)))
		return Units("#")
	}})
	if GoString(out) != "a#c#" || strings.Join(log, ";") != `b ["b",undefined] 1 abcb;b ["b",undefined] 3 abcb` {
		t.Errorf("fn replace = %q log=%v", GoString(out), log)
	}
}

func TestSplitExamples(t *testing.T) {
	split := func(in, pat string, limit *float64) string {
		p, err := ParseStrict(pat)
		if err != nil {
			t.Fatal(err)
		}
		r, err := Split(Units(in), Separator{Re: Compile(p, "", Options{})}, limit)
		if err != nil {
			t.Fatal(err)
		}
		return showCaps(r)
	}
	f := func(x float64) *float64 { return &x }
	cases := []struct {
		in, pat string
		lim     *float64
		want    string
	}{
		// 15.5.4.14 NOTE / examples
		{"ab", `a*?`, nil, `["a","b"]`},
		{"ab", `a*`, nil, `["","b"]`},
		{"A<B>bold</B>and<CODE>coded</CODE>", `<(\/)?([^<>]+)>`, nil,
			`["A",undefined,"B","bold","/","B","and",undefined,"CODE","coded","/","CODE",""]`},
		{"A<B>bold</B>and<CODE>coded</CODE>", `<(\/)?([^<>]+)>`, f(4), `["A",undefined,"B","bold"]`},
		{"", `a`, nil, `[""]`},
		{"", `(?:)`, nil, `[]`},
		{"", `a*`, nil, `[]`},
		{"abc", `(?:)`, nil, `["a","b","c"]`},
		{"abc", `(?:)`, f(2), `["a","b"]`},
		{"abc", `b`, f(0), `[]`},
		{"abc", `b`, f(-1), `["a","c"]`},
		{"abc", `b`, f(4294967297), `["a"]`},
		{"abc", `c`, nil, `["ab",""]`},
		{"abc", `a`, nil, `["","bc"]`},
		{"abc", `(b)`, nil, `["a","b","c"]`},
		{"abc", `$`, nil, `["abc"]`},
		{"abc", `^`, nil, `["abc"]`},
		{"a\nb", `^`, nil, "[\"a\\nb\"]"},
	}
	for _, c := range cases {
		if got := split(c.in, c.pat, c.lim); got != c.want {
			t.Errorf("%q.split(/%s/, %v) = %s, want %s", c.in, c.pat, c.lim, got, c.want)
		}
	}
	r, _ := Split(Units("a,b,c"), Separator{Str: Units(",")}, nil)
	if showCaps(r) != `["a","b","c"]` {
		t.Errorf("string split %s", showCaps(r))
	}
	r, _ = Split(Units("abc"), Separator{Str: Units("")}, nil)
	if showCaps(r) != `["a","b","c"]` {
		t.Errorf("empty separator %s", showCaps(r))
	}
	r, _ = Split(Units(""), Separator{Str: Units("")}, nil)
	if showCaps(r) != `[]` {
		t.Errorf("empty/empty %s", showCaps(r))
	}
	// ^ with the multiline flag splits after line terminators
	p, _ := ParseStrict(`^`)
	r, _ = Split(Units("a\nb"), Separator{Re: Compile(p, "m", Options{})}, nil)
	if showCaps(r) != "[\"a\\n\",\"b\"]" {
		t.Errorf("multiline ^ split %s", showCaps(r))
	}
}

func TestExecProtocol(t *testing.T) {
	o := mustObj(t, `a`, "g")
	s := Units("aba")
	r, _ := o.Exec(s)
	if show(r) != `@0["a"]` || o.LastIndex.N != 1 {
		t.Fatalf("1: %s %v", show(r), o.LastIndex)
	}
	r, _ = o.Exec(s)
	if show(r) != `@2["a"]` || o.LastIndex.N != 3 {
		t.Fatalf("2: %s %v", show(r), o.LastIndex)
	}
	r, _ = o.Exec(s)
	if r != nil || o.LastIndex.N != 0 {
		t.Fatalf("3: %s %v", show(r), o.LastIndex)
	}
	o.LastIndex = JSVal{IsStr: true, S: "2"}
	r, _ = o.Exec(s)
	if show(r) != `@2["a"]` || o.LastIndex.N != 3 || o.LastIndex.IsStr {
		t.Fatalf("4: %s %v", show(r), o.LastIndex)
	}
	o.LastIndex = Num(-1)
	if r, _ = o.Exec(s); r != nil || o.LastIndex.N != 0 {
		t.Fatalf("5: %s %v", show(r), o.LastIndex)
	}
	o.LastIndex = Num(4)
	if r, _ = o.Exec(s); r != nil || o.LastIndex.N != 0 {
		t.Fatalf("6")
	}
	o.LastIndex = Num(3) // == length is allowed: empty matches may occur there
	if r, _ = o.Exec(s); r != nil {
		t.Fatalf("7")
	}
	// non-global: lastIndex ignored and untouched on success, reset on failure
	n := mustObj(t, `a`, "")
	n.LastIndex = JSVal{IsStr: true, S: "2"}
	r, _ = n.Exec(Units("ab"))
	if show(r) != `@0["a"]` || !n.LastIndex.IsStr {
		t.Fatalf("8: %s %v", show(r), n.LastIndex)
	}
	r, _ = n.Exec(Units("b"))
	if r != nil || n.LastIndex.IsStr || n.LastIndex.N != 0 {
		t.Fatalf("9: %v", n.LastIndex)
	}
	// NaN -> 0
	o.LastIndex = JSVal{N: nan()}
	r, _ = o.Exec(s)
	if show(r) != `@0["a"]` {
		t.Fatalf("10: %s", show(r))
	}
	// search ignores and preserves lastIndex
	o.LastIndex = Num(2)
	if i, _ := o.Search(Units("xxa")); i != 2 || o.LastIndex.N != 2 {
		t.Fatalf("search")
	}
}

func nan() float64 { var z float64; return z / z }

func TestMatchGlobal(t *testing.T) {
	o := mustObj(t, `b*`, "g")
	_, all, _ := o.Match(Units("abc"))
	var got []string
	for _, a := range all {
		got = append(got, GoString(a))
	}
	if fmt.Sprintf("%q", got) != `["" "b" "" ""]` || o.LastIndex.N != 0 || o.Ambiguous {
		t.Fatalf("match: %q lastIndex=%v amb=%v", got, o.LastIndex, o.Ambiguous)
	}
	o = mustObj(t, `$`, "g")
	o.Match(Units("ab"))
	if !o.Ambiguous {
		t.Fatalf("/$/g on \"ab\" must be flagged (ES5.1 8.f vs ES3/ES2015 reading)")
	}
	o = mustObj(t, `x`, "g")
	o.LastIndex = Num(5)
	_, all, _ = o.Match(Units("abc"))
	if all != nil || o.LastIndex.N != 0 {
		t.Fatalf("no match: %v %v", all, o.LastIndex)
	}
}

func TestClassification(t *testing.T) {
	cases := []struct {
		pat  string
		want Class
	}{
		{`abc`, Portable}, {`a|b`, Portable}, {`(?:a)*`, Portable}, {`[a-c]`, Portable}, {`[]`, Portable}, {`[^]`, Portable},
		{`a{2,3}?`, Portable}, {`\cA`, Portable}, {`\0`, Portable}, {`[\b\d-]`, Portable}, {`\$`, Portable}, {`\/`, Portable}, {`[a\-z]`, Portable},
		{``, Portable}, {`()`, Portable}, {`|`, Portable}, {`a||b`, Portable}, {`[--a]`, Portable}, {`[a-]`, Portable}, {`[-a]`, Portable},
		{`(?=a)`, Unsupported}, {`(?!a)`, Unsupported}, {`(a)\1`, Unsupported}, {`\1(a)`, Unsupported},
		{`(`, Malformed}, {`)`, Malformed}, {`[`, Malformed}, {`a**`, Malformed}, {`*`, Malformed}, {`+a`, Malformed}, {`?`, Malformed}, {`a|*`, Malformed}, {`(*)`, Malformed},
		{`a{2,1}`, Malformed}, {`[c-a]`, Malformed}, {`(?i)a`, Malformed}, {`(?P<n>a)`, Malformed}, {`(?s:a)`, Malformed}, {`(?<n>a)`, Malformed},
		{`^*`, Malformed}, {`$+`, Malformed}, {`\b?`, Malformed}, {`\B{2}`, Malformed}, {`a{1}{2}`, Malformed}, {`a*??`, Malformed}, {`\`, Malformed}, {`(?`, Malformed}, {`(?:`, Malformed},
		{`{1}`, Malformed}, {`a|{1,2}`, Malformed},
		{`\1`, Extension}, {`\8`, Extension}, {`(a)\2`, Extension}, {`\01`, Extension}, {`a{`, Extension}, {`a{,2}`, Extension}, {`a]`, Extension}, {`}`, Extension}, {`\z`, Extension}, {`\A`, Extension},
		{`\Q`, Extension}, {`\pL`, Extension}, {`\c`, Extension}, {`\c1`, Extension}, {`\x1`, Extension}, {`\u12`, Extension}, {`[\d-x]`, Extension}, {`[[:alpha:]]`, Extension}, {`\_`, Extension},
		{`[\1]`, Extension}, {`[\B]`, Extension}, {`(?=a)*`, Extension}, {`{`, Extension}, {`x{1`, Extension},
	}
	for _, c := range cases {
		got, _, _ := Classify(c.pat)
		if got != c.want {
			t.Errorf("Classify(%q) = %v, want %v", c.pat, got, c.want)
		}
	}
}

func TestAnnexBSemantics(t *testing.T) {
	cases := []struct{ pat, in, want string }{
		{`\z`, "az", `@1["z"]`},
		{`\Aa`, "Aa", `@0["Aa"]`},
		{`\Qa\E`, "QaE", `@0["QaE"]`},
		{`\pL`, "pL", `@0["pL"]`},
		{`[[:alpha:]]`, "a]", `@0["a]"]`},
		{`[[:alpha:]]`, "b", `null`},
		{`a{`, "a{", `@0["a{"]`},
		{`a{,2}`, "a{,2}", `@0["a{,2}"]`},
		{`\101`, "A", `@0["A"]`},
		{`\8`, "8", `@0["8"]`},
		{`(a)\2`, "a\x02", "@0[\"a\\x02\",\"a\"]"},
		{`\c`, `\c`, `@0["\\c"]`},
		{`[\d-x]`, "-", `@0["-"]`},
		{`\x1`, "x1", `@0["x1"]`},
		{`[]a]`, "a]", `null`},
	}
	for _, c := range cases {
		p, err := ParseAnnexB(c.pat)
		if err != nil {
			t.Errorf("ParseAnnexB(%q): %v", c.pat, err)
			continue
		}
		o := NewObject(Compile(p, "", Options{}))
		r, _ := o.Exec(Units(c.in))
		if got := show(r); got != c.want {
			t.Errorf("annexB /%s/.exec(%q) = %s, want %s", c.pat, c.in, got, c.want)
		}
	}
}

func TestBudget(t *testing.T) {
	o := mustObj(t, `(a*)*b`, "")
	o.Re.SetBudget(10000)
	_, err := o.Exec(Units(strings.Repeat("a", 40)))
	if err != ErrBudget {
		t.Fatalf("want budget error, got %v", err)
	}
}

func TestDeviationModels(t *testing.T) {
	p, _ := ParseStrict(`(z)((a+)?(b+)?(c))*`)
	o := NewObject(Compile(p, "", Options{NoCaptureReset: true}))
	r, _ := o.Exec(Units("zaacbbbcac"))
	if show(r) != `@0["zaacbbbcac","z","ac","a","bbb","c"]` {
		t.Fatalf("no-reset model: %s", show(r))
	}
	p, _ = ParseStrict(`a.b`)
	o = NewObject(Compile(p, "", Options{GoDot: true}))
	if r, _ = o.Exec(Units("a\rb")); r == nil {
		t.Fatalf("GoDot")
	}
	p, _ = ParseStrict(`[\s]`)
	o = NewObject(Compile(p, "", Options{GoSpace: true}))
	if r, _ = o.Exec(Units("\v")); r != nil {
		t.Fatalf("GoSpace")
	}
}
