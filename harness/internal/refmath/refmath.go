// Package refmath transcribes ES5.1 15.8.2 (Math function properties): the
// special-case bullet lists cell by cell, and exact algorithms for the
// functions whose result the specification defines exactly (abs, ceil, floor,
// round, max, min). For everything the specification leaves to an
// "implementation-dependent approximation" the package only says so
// (Exact=false); callers then apply relations, not values.
//
// The only function of package math used for values is IsNaN/IsInf/Signbit/
// Float64bits-style inspection, Floor/Trunc on exactly representable
// arguments and Nextafter; no transcendental function of Go's library is used.
package refmath

import "math"

// Kind of expectation.
type Kind int

const (
	// Exactly: the result must be this very double (NaN matches any NaN,
	// zeros are signed).
	Exactly Kind = iota
	// Approx: the specification says "an implementation-dependent
	// approximation to" the given mathematical constant.
	Approx
	// Generic: no special case applies; the result is an
	// implementation-dependent approximation to the mathematical function.
	Generic
)

// Want is what 15.8.2.x says about one argument tuple.
type Want struct {
	Kind Kind
	V    float64 // the value (Exactly) or the constant approximated (Approx)
	Why  string  // the bullet, abbreviated
}

var (
	NaN    = math.NaN()
	Inf    = math.Inf(1)
	NegInf = math.Inf(-1)
	NegZ   = math.Copysign(0, -1)
)

// Correctly rounded doubles of the constants named in 15.8.2.4/15.8.2.5.
const (
	Pi         = 3.141592653589793  // 0x400921FB54442D18
	PiOver2    = 1.5707963267948966 // 0x3FF921FB54442D18
	PiOver4    = 0.7853981633974483 // 0x3FE921FB54442D18
	ThreePiBy4 = 2.356194490192345  // 0x4002D97C7F3321D2
)

func exact(v float64, why string) Want  { return Want{Exactly, v, why} }
func approx(v float64, why string) Want { return Want{Approx, v, why} }

var generic = Want{Kind: Generic}

func isNaN(x float64) bool  { return x != x }
func isPosZ(x float64) bool { return x == 0 && !math.Signbit(x) }
func isNegZ(x float64) bool { return x == 0 && math.Signbit(x) }
func finite(x float64) bool { return !isNaN(x) && !math.IsInf(x, 0) }

// IsInteger: x is a finite mathematical integer.
func IsInteger(x float64) bool { return finite(x) && x == math.Trunc(x) }

// IsOddInteger: x is a finite odd integer (doubles >= 2^53 are all even).
func IsOddInteger(x float64) bool {
	if !IsInteger(x) || math.Abs(x) >= 9007199254740992 {
		return false
	}
	return math.Mod(x, 2) != 0
}

// Unary returns the 15.8.2.x expectation for fn(x), fn one of abs acos asin
// atan ceil cos exp floor log round sin sqrt tan.
func Unary(fn string, x float64) Want {
	switch fn {
	case "abs": // 15.8.2.1
		switch {
		case isNaN(x):
			return exact(NaN, "x NaN")
		case isNegZ(x):
			return exact(0, "x -0 -> +0")
		case x == NegInf:
			return exact(Inf, "x -Inf -> +Inf")
		case x < 0:
			return exact(-x, "same magnitude, positive sign")
		}
		return exact(x, "same magnitude, positive sign")
	case "acos": // 15.8.2.2
		switch {
		case isNaN(x):
			return exact(NaN, "x NaN")
		case x > 1:
			return exact(NaN, "x > 1")
		case x < -1:
			return exact(NaN, "x < -1")
		case x == 1:
			return exact(0, "x exactly 1 -> +0")
		}
	case "asin": // 15.8.2.3
		switch {
		case isNaN(x):
			return exact(NaN, "x NaN")
		case x > 1:
			return exact(NaN, "x > 1")
		case x < -1:
			return exact(NaN, "x < -1")
		case isPosZ(x):
			return exact(0, "x +0")
		case isNegZ(x):
			return exact(NegZ, "x -0")
		}
	case "atan": // 15.8.2.4
		switch {
		case isNaN(x):
			return exact(NaN, "x NaN")
		case isPosZ(x):
			return exact(0, "x +0")
		case isNegZ(x):
			return exact(NegZ, "x -0")
		case x == Inf:
			return approx(PiOver2, "x +Inf -> ~ +pi/2")
		case x == NegInf:
			return approx(-PiOver2, "x -Inf -> ~ -pi/2")
		}
	case "ceil": // 15.8.2.6
		switch {
		case isNaN(x):
			return exact(NaN, "x NaN")
		case x == 0 || math.IsInf(x, 0):
			return exact(x, "x +-0 / +-Inf -> x")
		case x < 0 && x > -1:
			return exact(NegZ, "-1 < x < 0 -> -0")
		}
		return exact(Ceil(x), "smallest integer >= x")
	case "cos": // 15.8.2.7
		switch {
		case isNaN(x):
			return exact(NaN, "x NaN")
		case x == 0:
			return exact(1, "x +-0 -> 1")
		case math.IsInf(x, 0):
			return exact(NaN, "x +-Inf -> NaN")
		}
	case "exp": // 15.8.2.8
		switch {
		case isNaN(x):
			return exact(NaN, "x NaN")
		case x == 0:
			return exact(1, "x +-0 -> 1")
		case x == Inf:
			return exact(Inf, "x +Inf")
		case x == NegInf:
			return exact(0, "x -Inf -> +0")
		}
	case "floor": // 15.8.2.9
		switch {
		case isNaN(x):
			return exact(NaN, "x NaN")
		case x == 0 || math.IsInf(x, 0):
			return exact(x, "x +-0 / +-Inf -> x")
		case x > 0 && x < 1:
			return exact(0, "0 < x < 1 -> +0")
		}
		return exact(Floor(x), "greatest integer <= x")
	case "log": // 15.8.2.10
		switch {
		case isNaN(x):
			return exact(NaN, "x NaN")
		case x < 0:
			return exact(NaN, "x < 0")
		case x == 0:
			return exact(NegInf, "x +-0 -> -Inf")
		case x == 1:
			return exact(0, "x 1 -> +0")
		case x == Inf:
			return exact(Inf, "x +Inf")
		}
	case "round": // 15.8.2.15
		return exact(Round(x), "closest integer, ties toward +Inf; sign of zero per 15.8.2.15")
	case "sin": // 15.8.2.16
		switch {
		case isNaN(x):
			return exact(NaN, "x NaN")
		case isPosZ(x):
			return exact(0, "x +0")
		case isNegZ(x):
			return exact(NegZ, "x -0")
		case math.IsInf(x, 0):
			return exact(NaN, "x +-Inf -> NaN")
		}
	case "sqrt": // 15.8.2.17
		switch {
		case isNaN(x):
			return exact(NaN, "x NaN")
		case x < 0:
			return exact(NaN, "x < 0")
		case x == 0:
			return exact(x, "x +-0 -> x")
		case x == Inf:
			return exact(Inf, "x +Inf")
		}
	case "tan": // 15.8.2.18
		switch {
		case isNaN(x):
			return exact(NaN, "x NaN")
		case isPosZ(x):
			return exact(0, "x +0")
		case isNegZ(x):
			return exact(NegZ, "x -0")
		case math.IsInf(x, 0):
			return exact(NaN, "x +-Inf -> NaN")
		}
	default:
		panic("refmath.Unary: unknown function " + fn)
	}
	return generic
}

// Floor is the greatest integer <= x for finite x (exact: doubles >= 2^52 in
// magnitude are integers already).
func Floor(x float64) float64 {
	if math.Abs(x) >= 4503599627370496 {
		return x
	}
	t := math.Trunc(x)
	if t > x {
		t--
	}
	return t
}

// Ceil is the smallest integer >= x for finite x.
func Ceil(x float64) float64 {
	if math.Abs(x) >= 4503599627370496 {
		return x
	}
	t := math.Trunc(x)
	if t < x {
		t++
	}
	if t == 0 && x < 0 {
		return NegZ
	}
	return t
}

// Round is 15.8.2.15, computed exactly: "the Number value that is closest to x
// and is equal to a mathematical integer; if two integer Number values are
// equally close to x, the result is the one closer to +Inf; if x is already an
// integer the result is x". 0 < x < 0.5 -> +0; -0.5 <= x < 0 -> -0.
func Round(x float64) float64 {
	if isNaN(x) || math.IsInf(x, 0) || x == 0 {
		return x
	}
	if math.Abs(x) >= 4503599627370496 { // 2^52: already an integer
		return x
	}
	f := Floor(x)
	d := x - f // exact: both below 2^52 and f within 1 of x
	r := f
	if d >= 0.5 {
		r = f + 1
	}
	if r == 0 {
		if x < 0 {
			return NegZ
		}
		return 0
	}
	return r
}

// Atan2 is 15.8.2.5 for (y, x).
func Atan2(y, x float64) Want {
	switch {
	case isNaN(x) || isNaN(y):
		return exact(NaN, "either NaN")
	case y > 0 && x == 0:
		return approx(PiOver2, "y>0, x +-0 -> ~ +pi/2")
	case isPosZ(y) && x > 0:
		return exact(0, "y +0, x>0 -> +0")
	case isPosZ(y) && isPosZ(x):
		return exact(0, "y +0, x +0 -> +0")
	case isPosZ(y) && isNegZ(x):
		return approx(Pi, "y +0, x -0 -> ~ +pi")
	case isPosZ(y) && x < 0:
		return approx(Pi, "y +0, x<0 -> ~ +pi")
	case isNegZ(y) && x > 0:
		return exact(NegZ, "y -0, x>0 -> -0")
	case isNegZ(y) && isPosZ(x):
		return exact(NegZ, "y -0, x +0 -> -0")
	case isNegZ(y) && isNegZ(x):
		return approx(-Pi, "y -0, x -0 -> ~ -pi")
	case isNegZ(y) && x < 0:
		return approx(-Pi, "y -0, x<0 -> ~ -pi")
	case y < 0 && x == 0:
		return approx(-PiOver2, "y<0, x +-0 -> ~ -pi/2")
	case y > 0 && finite(y) && x == Inf:
		return exact(0, "y>0 finite, x +Inf -> +0")
	case y > 0 && finite(y) && x == NegInf:
		return approx(Pi, "y>0 finite, x -Inf -> ~ +pi")
	case y < 0 && finite(y) && x == Inf:
		return exact(NegZ, "y<0 finite, x +Inf -> -0")
	case y < 0 && finite(y) && x == NegInf:
		return approx(-Pi, "y<0 finite, x -Inf -> ~ -pi")
	case y == Inf && finite(x):
		return approx(PiOver2, "y +Inf, x finite -> ~ +pi/2")
	case y == NegInf && finite(x):
		return approx(-PiOver2, "y -Inf, x finite -> ~ -pi/2")
	case y == Inf && x == Inf:
		return approx(PiOver4, "y +Inf, x +Inf -> ~ +pi/4")
	case y == Inf && x == NegInf:
		return approx(ThreePiBy4, "y +Inf, x -Inf -> ~ +3pi/4")
	case y == NegInf && x == Inf:
		return approx(-PiOver4, "y -Inf, x +Inf -> ~ -pi/4")
	case y == NegInf && x == NegInf:
		return approx(-ThreePiBy4, "y -Inf, x -Inf -> ~ -3pi/4")
	}
	return generic
}

// Pow is 15.8.2.13 for (x, y); the bullets are tested in the order given.
func Pow(x, y float64) Want {
	ax := math.Abs(x)
	switch {
	case isNaN(y):
		return exact(NaN, "y NaN")
	case y == 0:
		return exact(1, "y +-0 -> 1 even if x NaN")
	case isNaN(x):
		return exact(NaN, "x NaN, y nonzero")
	case ax > 1 && y == Inf:
		return exact(Inf, "|x|>1, y +Inf")
	case ax > 1 && y == NegInf:
		return exact(0, "|x|>1, y -Inf -> +0")
	case ax == 1 && math.IsInf(y, 0):
		return exact(NaN, "|x|==1, y +-Inf -> NaN")
	case ax < 1 && y == Inf:
		return exact(0, "|x|<1, y +Inf -> +0")
	case ax < 1 && y == NegInf:
		return exact(Inf, "|x|<1, y -Inf -> +Inf")
	case x == Inf && y > 0:
		return exact(Inf, "x +Inf, y>0")
	case x == Inf && y < 0:
		return exact(0, "x +Inf, y<0 -> +0")
	case x == NegInf && y > 0 && IsOddInteger(y):
		return exact(NegInf, "x -Inf, y>0 odd integer -> -Inf")
	case x == NegInf && y > 0:
		return exact(Inf, "x -Inf, y>0 not odd integer -> +Inf")
	case x == NegInf && y < 0 && IsOddInteger(y):
		return exact(NegZ, "x -Inf, y<0 odd integer -> -0")
	case x == NegInf && y < 0:
		return exact(0, "x -Inf, y<0 not odd integer -> +0")
	case isPosZ(x) && y > 0:
		return exact(0, "x +0, y>0 -> +0")
	case isPosZ(x) && y < 0:
		return exact(Inf, "x +0, y<0 -> +Inf")
	case isNegZ(x) && y > 0 && IsOddInteger(y):
		return exact(NegZ, "x -0, y>0 odd integer -> -0")
	case isNegZ(x) && y > 0:
		return exact(0, "x -0, y>0 not odd integer -> +0")
	case isNegZ(x) && y < 0 && IsOddInteger(y):
		return exact(NegInf, "x -0, y<0 odd integer -> -Inf")
	case isNegZ(x) && y < 0:
		return exact(Inf, "x -0, y<0 not odd integer -> +Inf")
	case x < 0 && finite(x) && finite(y) && !IsInteger(y):
		return exact(NaN, "x<0 finite, y finite non-integer -> NaN")
	}
	return generic
}

// Max is 15.8.2.11 on already converted arguments.
func Max(a []float64) float64 {
	r := NegInf
	nan := false
	for _, v := range a {
		switch {
		case isNaN(v):
			nan = true
		case v > r:
			r = v
		case v == 0 && r == 0 && !math.Signbit(v): // +0 is larger than -0
			r = v
		}
	}
	if nan {
		return NaN
	}
	return r
}

// Min is 15.8.2.12 on already converted arguments.
func Min(a []float64) float64 {
	r := Inf
	nan := false
	for _, v := range a {
		switch {
		case isNaN(v):
			nan = true
		case v < r:
			r = v
		case v == 0 && r == 0 && math.Signbit(v): // -0 is smaller than +0
			r = v
		}
	}
	if nan {
		return NaN
	}
	return r
}

// UlpDiff is the distance between a and b in units in the last place
// (0 for identical values including equal-signed zeros and NaN/NaN; a huge
// number when only one is NaN or the signs differ on non-zero values).
func UlpDiff(a, b float64) float64 {
	if isNaN(a) || isNaN(b) {
		if isNaN(a) && isNaN(b) {
			return 0
		}
		return math.MaxFloat64
	}
	if a == b {
		if a == 0 && math.Signbit(a) != math.Signbit(b) {
			return 1
		}
		return 0
	}
	if math.IsInf(a, 0) || math.IsInf(b, 0) {
		return math.MaxFloat64
	}
	ord := func(x float64) int64 {
		u := int64(math.Float64bits(x))
		if u < 0 {
			u = math.MinInt64 - u
		}
		return u
	}
	oa, ob := ord(a), ord(b)
	if (oa >= 0) == (ob >= 0) {
		d := oa - ob
		if d < 0 {
			d = -d
		}
		return float64(d)
	}
	return math.Abs(float64(oa)) + math.Abs(float64(ob))
}

// Same reports bit-class identity: both NaN, or equal with the same sign of zero.
func Same(a, b float64) bool {
	if isNaN(a) || isNaN(b) {
		return isNaN(a) && isNaN(b)
	}
	return a == b && math.Signbit(a) == math.Signbit(b)
}
