package refmath

import (
	"math"
	"testing"
)

func same(a, b float64) bool { return Same(a, b) }

func TestRound(t *testing.T) {
	for _, c := range []struct{ x, r float64 }{
		{0.5, 1}, {1.5, 2}, {2.5, 3}, {-1.5, -1}, {-2.5, -2}, {-0.5, NegZ}, {-0.2, NegZ}, {0.2, 0}, {0.49999999999999994, 0},
		{-0.49999999999999994, NegZ}, {0.5000000000000001, 1}, {-0.5000000000000001, -1}, {1.4999999999999998, 1},
		{4503599627370495.5, 4503599627370496}, {-4503599627370495.5, -4503599627370495},
		{4503599627370497, 4503599627370497}, {-4503599627370497, -4503599627370497}, {9007199254740991, 9007199254740991},
		{1e300, 1e300}, {-1e300, -1e300}, {5e-324, 0}, {-5e-324, NegZ}, {0, 0}, {NegZ, NegZ}, {Inf, Inf}, {NegInf, NegInf},
		{2.5e15 + 0.5, 2.5e15 + 1}, {-3.5, -3}, {3.5, 4}, {-3.4, -3}, {-3.6, -4},
	} {
		if got := Round(c.x); !same(got, c.r) {
			t.Errorf("Round(%v)=%v want %v", c.x, got, c.r)
		}
	}
	if r := Round(NaN); r == r {
		t.Error("Round(NaN)")
	}
}

func TestFloorCeil(t *testing.T) {
	for _, c := range []struct{ x, f, c float64 }{
		{0.5, 0, 1}, {-0.5, -1, NegZ}, {1, 1, 1}, {-1, -1, -1}, {1.0000000000000002, 1, 2}, {-1.0000000000000002, -2, -1},
		{4503599627370495.5, 4503599627370495, 4503599627370496}, {1e300, 1e300, 1e300}, {5e-324, 0, 1}, {-5e-324, -1, NegZ},
	} {
		if got := Unary("floor", c.x); got.Kind != Exactly || !same(got.V, c.f) {
			t.Errorf("floor(%v)=%v want %v", c.x, got.V, c.f)
		}
		if got := Unary("ceil", c.x); got.Kind != Exactly || !same(got.V, c.c) {
			t.Errorf("ceil(%v)=%v want %v", c.x, got.V, c.c)
		}
	}
}

func TestMaxMin(t *testing.T) {
	if Max(nil) != NegInf || Min(nil) != Inf {
		t.Error("empty")
	}
	if !same(Max([]float64{0, NegZ}), 0) || !same(Max([]float64{NegZ, 0}), 0) || !same(Max([]float64{NegZ, NegZ}), NegZ) {
		t.Error("max zero ordering")
	}
	if !same(Min([]float64{0, NegZ}), NegZ) || !same(Min([]float64{NegZ, 0}), NegZ) || !same(Min([]float64{0, 0}), 0) {
		t.Error("min zero ordering")
	}
	if v := Max([]float64{1, NaN, 3}); v == v {
		t.Error("max NaN")
	}
	if v := Min([]float64{NaN}); v == v {
		t.Error("min NaN")
	}
	if Max([]float64{1, 3, 2}) != 3 || Min([]float64{1, -3, 2}) != -3 || Max([]float64{NegInf}) != NegInf || Max([]float64{Inf, 1}) != Inf {
		t.Error("generic")
	}
}

func TestPowCells(t *testing.T) {
	ex := func(x, y, r float64) {
		w := Pow(x, y)
		if w.Kind != Exactly || !same(w.V, r) {
			t.Errorf("pow(%v,%v): %+v want %v", x, y, w, r)
		}
	}
	ex(2, NaN, NaN)
	ex(1, NaN, NaN)
	ex(NaN, 0, 1)
	ex(NaN, NegZ, 1)
	ex(NaN, 1, NaN)
	ex(2, Inf, Inf)
	ex(-2, Inf, Inf)
	ex(2, NegInf, 0)
	ex(1, Inf, NaN)
	ex(-1, NegInf, NaN)
	ex(0.5, Inf, 0)
	ex(-0.5, NegInf, Inf)
	ex(Inf, 2, Inf)
	ex(Inf, -2, 0)
	ex(NegInf, 3, NegInf)
	ex(NegInf, 2, Inf)
	ex(NegInf, 2.5, Inf)
	ex(NegInf, -3, NegZ)
	ex(NegInf, -2, 0)
	ex(0, 2, 0)
	ex(0, -2, Inf)
	ex(NegZ, 3, NegZ)
	ex(NegZ, 2, 0)
	ex(NegZ, -3, NegInf)
	ex(NegZ, -2, Inf)
	ex(NegZ, Inf, 0) // |x|<1, y +Inf
	ex(NegZ, NegInf, Inf)
	ex(-2, 0.5, NaN)
}

func TestPowGenericAndOdd(t *testing.T) {
	if Pow(-2, 9007199254740992).Kind != Generic || Pow(2, 3).Kind != Generic || Pow(-2, 3).Kind != Generic {
		t.Error("generic cells")
	}
	if !IsOddInteger(3) || IsOddInteger(2) || IsOddInteger(2.5) || !IsOddInteger(-9007199254740991) || IsOddInteger(9007199254740992) || IsOddInteger(1e300) || IsOddInteger(Inf) {
		t.Error("IsOddInteger")
	}
	if w := Pow(NegInf, 1e300); w.Kind != Exactly || w.V != Inf { // huge doubles are even integers
		t.Error("pow(-Inf, 1e300)")
	}
}

func TestAtan2Cells(t *testing.T) {
	chk := func(y, x float64, k Kind, v float64) {
		w := Atan2(y, x)
		if w.Kind != k || (k != Generic && !same(w.V, v)) {
			t.Errorf("atan2(%v,%v)=%+v want kind %v value %v", y, x, w, k, v)
		}
	}
	chk(NaN, 1, Exactly, NaN)
	chk(1, NaN, Exactly, NaN)
	chk(1, 0, Approx, PiOver2)
	chk(1, NegZ, Approx, PiOver2)
	chk(0, 1, Exactly, 0)
	chk(0, Inf, Exactly, 0)
	chk(0, 0, Exactly, 0)
	chk(0, NegZ, Approx, Pi)
	chk(0, -1, Approx, Pi)
	chk(0, NegInf, Approx, Pi)
	chk(NegZ, 1, Exactly, NegZ)
	chk(NegZ, 0, Exactly, NegZ)
	chk(NegZ, NegZ, Approx, -Pi)
	chk(NegZ, -1, Approx, -Pi)
	chk(-1, 0, Approx, -PiOver2)
	chk(-1, NegZ, Approx, -PiOver2)
	chk(1, Inf, Exactly, 0)
	chk(1, NegInf, Approx, Pi)
	chk(-1, Inf, Exactly, NegZ)
	chk(-1, NegInf, Approx, -Pi)
	chk(Inf, 1, Approx, PiOver2)
	chk(Inf, 0, Approx, PiOver2)
	chk(NegInf, -1, Approx, -PiOver2)
	chk(Inf, Inf, Approx, PiOver4)
	chk(Inf, NegInf, Approx, ThreePiBy4)
	chk(NegInf, Inf, Approx, -PiOver4)
	chk(NegInf, NegInf, Approx, -ThreePiBy4)
	chk(1, 1, Generic, 0)
	chk(-1, -1, Generic, 0)
}

func TestUnaryCells(t *testing.T) {
	ex := func(fn string, x, r float64) {
		w := Unary(fn, x)
		if w.Kind != Exactly || !same(w.V, r) {
			t.Errorf("%s(%v): %+v want %v", fn, x, w, r)
		}
	}
	for _, fn := range []string{"abs", "acos", "asin", "atan", "ceil", "cos", "exp", "floor", "log", "round", "sin", "sqrt", "tan"} {
		ex(fn, NaN, NaN)
	}
	ex("abs", NegZ, 0)
	ex("abs", NegInf, Inf)
	ex("abs", -3, 3)
	ex("acos", 1.0000000000000002, NaN)
	ex("acos", -1.0000000000000002, NaN)
	ex("acos", 1, 0)
	ex("asin", 2, NaN)
	ex("asin", NegZ, NegZ)
	ex("asin", 0, 0)
	ex("atan", NegZ, NegZ)
	ex("cos", 0, 1)
	ex("cos", NegZ, 1)
	ex("cos", Inf, NaN)
	ex("exp", NegZ, 1)
	ex("exp", Inf, Inf)
	ex("exp", NegInf, 0)
	ex("log", -1, NaN)
	ex("log", 0, NegInf)
	ex("log", NegZ, NegInf)
	ex("log", 1, 0)
	ex("log", Inf, Inf)
	ex("sin", NegZ, NegZ)
	ex("sin", NegInf, NaN)
	ex("sqrt", NegZ, NegZ)
	ex("sqrt", -1e-300, NaN)
	ex("sqrt", Inf, Inf)
	ex("tan", NegZ, NegZ)
	ex("tan", Inf, NaN)
	if w := Unary("atan", Inf); w.Kind != Approx || w.V != PiOver2 {
		t.Error("atan(+Inf)")
	}
	if w := Unary("atan", NegInf); w.Kind != Approx || w.V != -PiOver2 {
		t.Error("atan(-Inf)")
	}
	for _, c := range []struct {
		fn string
		x  float64
	}{{"acos", 0.5}, {"acos", -1}, {"asin", 1}, {"atan", 1}, {"cos", 1}, {"exp", 1}, {"log", 2}, {"sin", 1}, {"sqrt", 2}, {"tan", 1}} {
		if Unary(c.fn, c.x).Kind != Generic {
			t.Errorf("%s(%v) should be generic", c.fn, c.x)
		}
	}
}

func TestConstants(t *testing.T) {
	// bit patterns of the correctly rounded constants
	for _, c := range []struct {
		v    float64
		bits uint64
	}{{Pi, 0x400921FB54442D18}, {PiOver2, 0x3FF921FB54442D18}, {PiOver4, 0x3FE921FB54442D18}, {ThreePiBy4, 0x4002D97C7F3321D2}} {
		if math.Float64bits(c.v) != c.bits {
			t.Errorf("constant %v has bits %x want %x", c.v, math.Float64bits(c.v), c.bits)
		}
	}
}

func TestUlpDiff(t *testing.T) {
	if UlpDiff(1, math.Nextafter(1, 2)) != 1 || UlpDiff(-1, math.Nextafter(-1, -2)) != 1 || UlpDiff(0, NegZ) != 1 || UlpDiff(5e-324, -5e-324) != 2 || UlpDiff(NaN, NaN) != 0 || UlpDiff(1, 1) != 0 {
		t.Error("UlpDiff")
	}
	if UlpDiff(NaN, 1) < 1e300 || UlpDiff(Inf, 1) < 1e300 {
		t.Error("UlpDiff incomparable")
	}
}
