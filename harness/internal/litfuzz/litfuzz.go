// Package litfuzz assembles hostile string, regexp and numeric literals from
// escape / pattern / digit fragments (shared by the totality checks C02 and C04).
package litfuzz

import (
	"fmt"
	"strings"

	"verif/internal/gen"
)

var strFrags = []string{"\\uD83D", "\\uDE00", "\\uDE0", "\\uD8", "\\uDC00", "\\u", "\\u1", "\\u12", "\\u123", "\\u0041", "\\x", "\\x4", "\\x41", "\\0", "\\08", "\\377", "\\400", "\\8", "\\", "\\\\", "\\\"", "\\'", "a", "\\n", "\n", "\\\n", "\\\r\n", "\\\u2028", "\u2028", "\u00e9", "\U0001F600", "\xff", "\x00", "\\v", "\\a", "\\u{41}", " ",
	// an escape of a surrogate code unit directly followed by an incomplete or foreign escape (the
	// pair-joining code looks ahead across the escape boundary)
	"\\uD83D\\u", "\\uDC00\\uD8", "\\uD83D\\uDE0", "\\uD83D\\x4", "\\uDBFF\\", "\\uD83D\\u{1F600}", "\\uD83D\\uD83D\\uDE00"}
var reFrags = []string{"[", "]", "\\/", "/", "(", ")", "(?:", "(?=", "(?!", "(?<", "(?P<n>", "{", "}", "{1", "{1,", "{1,2}", "{2,1}", "*", "+", "?", "|", "\\u00", "\\uD83D", "\\uDE0", "\\x4", "\\c", "\\cA", "\\1", "\\9", "\\b", "\\B", "\\d", "\\k<", ".", "^", "$", "a-", "-a", "\\\\", "\\", "[^", "[]", "[^]", "\n", "\u2028", "\xff", "a"}
var numFrags = []string{"0x", "0X1g", "1e", ".e1", "1.e+", "09", "08.5", "0.0.", "1_0", "0b1", "0o7", "1n", ".", "..1", "1", "0", "e", "E-", "x", "9007199254740993", "1e400", "0x1fffffffffffffffff", "00", "07", "078", "1.", ".5", "+", "-"}

// Source builds a source text whose string, regexp or numeric literal is
// assembled from escape / pattern / digit fragments (most results are malformed;
// the parser has to say so, not panic).
func Source(r *gen.Rand) string {
	pick := func(fr []string, n int) string {
		var b strings.Builder
		for i := 0; i < n; i++ {
			b.WriteString(fr[r.Intn(len(fr))])
		}
		return b.String()
	}
	var lit string
	switch r.Intn(4) {
	case 0:
		q := []string{"\"", "'"}[r.Intn(2)]
		lit = q + pick(strFrags, r.Range(1, 6))
		if !r.Chance(1, 6) {
			lit += q
		}
	case 1:
		lit = "/" + pick(reFrags, r.Range(1, 6))
		if !r.Chance(1, 6) {
			lit += "/" + []string{"", "g", "gi", "m", "x", "gg", "\\u0067"}[r.Intn(7)]
		}
	case 2:
		lit = pick(numFrags, r.Range(1, 3))
	default:
		lit = "a" + pick([]string{"\\u0062", "\\u", "\\u00", "\\u0020", "\\uD83D\\uDE00", "\\", "\\x41", "b", "\u00e9", "\\u00e9", "\\u200c", "\\u0030", "\u0300", ".b\u0300", ".\u0300", "\u200d", ".b\u200c", ".\\u0030", ".b\\u", "[\u0300]", ".\u00e9"}, r.Range(1, 3))
	}
	return fmt.Sprintf([]string{"x = %s;", "%s", "f(%s)", "var y = %s, z;", "x = {a: %s};", "x = [%s];", "if (%s) ;", "x = %s\ny"}[r.Intn(8)], lit)
}

// Pattern returns a raw regular expression pattern assembled from fragments.
func Pattern(r *gen.Rand) string {
	var b strings.Builder
	for i := r.Range(1, 6); i > 0; i-- {
		b.WriteString(reFrags[r.Intn(len(reFrags))])
	}
	return b.String()
}
