package run

import (
	"crypto/sha1"
	"encoding/binary"
	"encoding/hex"
	"encoding/json"
	"flag"
	"fmt"
	"os"
	"os/exec"
	"path/filepath"
	"regexp"
	"runtime"
	"sort"
	"strconv"
	"strings"
	"sync"
	"syscall"
	"time"

	"verif/internal/gen"
)

// Main is the entry point of the ottocheck binary.
func Main() {
	if len(os.Args) < 2 {
		fmt.Fprintln(os.Stderr, "usage: ottocheck run|worker|replay|list ...")
		os.Exit(2)
	}
	switch os.Args[1] {
	case "run":
		os.Exit(driver(os.Args[2:]))
	case "worker":
		os.Exit(worker(os.Args[2:]))
	case "replay":
		os.Exit(replay(os.Args[2:]))
	case "list":
		for _, id := range IDs() {
			fmt.Println(id)
		}
	default:
		fmt.Fprintln(os.Stderr, "unknown mode", os.Args[1])
		os.Exit(2)
	}
}

type opts struct {
	prop, tier, root, out string
	seed                  uint64
}

func commonFlags(fs *flag.FlagSet, o *opts) {
	fs.StringVar(&o.prop, "prop", "", "property id")
	fs.StringVar(&o.tier, "tier", "quick", "quick|thorough")
	fs.StringVar(&o.root, "root", "/verif", "verif root (known_findings.jsonl)")
	fs.StringVar(&o.out, "out", "", "output root for evidence/ replay/ (default root)")
	fs.Uint64Var(&o.seed, "seed", 1, "seed")
}

// ---------------------------------------------------------------- worker

type checkpoint struct {
	Next   int           `json:"next"`
	Result *WorkerResult `json:"result"`
}

var announceFile *os.File

// Announce writes the input about to be exercised to disk, so that a fatal
// error (which no recover() sees) leaves the culprit identified.
func (c *Ctx) Announce(in interface{}) {
	if announceFile == nil {
		return
	}
	b, err := json.Marshal(in)
	if err != nil {
		return
	}
	hdr := make([]byte, 8)
	binary.LittleEndian.PutUint64(hdr, uint64(len(b)))
	announceFile.WriteAt(append(hdr, b...), 16)
}

func worker(args []string) int {
	var o opts
	fs := flag.NewFlagSet("worker", flag.ExitOnError)
	commonFlags(fs, &o)
	shard := fs.Int("shard", 0, "")
	nshards := fs.Int("nshards", 1, "")
	from := fs.Int("from", 0, "")
	only := fs.Int("only", -1, "")
	skip := fs.String("skip", "", "comma separated indices to skip")
	dir := fs.String("dir", "", "work dir")
	tag := fs.String("tag", "w", "file tag")
	witness := fs.Bool("witness", false, "replay finding witnesses")
	fs.Parse(args)
	chk := Lookup(o.prop)
	if chk == nil {
		fmt.Fprintln(os.Stderr, "no such check", o.prop)
		return 2
	}
	findings, err := LoadFindings(filepath.Join(o.root, "known_findings.jsonl"))
	if err != nil {
		fmt.Fprintln(os.Stderr, err)
		return 2
	}
	pf, err := os.OpenFile(filepath.Join(*dir, *tag+".progress"), os.O_CREATE|os.O_RDWR|os.O_TRUNC, 0o644)
	if err != nil {
		fmt.Fprintln(os.Stderr, err)
		return 2
	}
	announceFile = pf
	resPath := filepath.Join(*dir, *tag+".result.json")
	c := newCtx(o.prop, o.tier, o.seed, findings)
	skips := map[int]bool{}
	for _, s := range strings.Split(*skip, ",") {
		if s != "" {
			n, _ := strconv.Atoi(s)
			skips[n] = true
		}
	}
	setProgress := func(i int, phase uint64) {
		b := make([]byte, 24)
		binary.LittleEndian.PutUint64(b, uint64(int64(i)))
		binary.LittleEndian.PutUint64(b[8:], phase)
		pf.WriteAt(b, 0) // also zeroes the announce length
	}
	flush := func(next int, done bool) {
		c.mu.Lock()
		c.res.Nontrivial = c.res.Nontrivial[:0]
		for h := range c.nt {
			c.res.Nontrivial = append(c.res.Nontrivial, h)
		}
		c.res.Done = done
		b, _ := json.Marshal(checkpoint{Next: next, Result: c.res})
		c.mu.Unlock()
		tmp := resPath + ".tmp"
		os.WriteFile(tmp, b, 0o644)
		os.Rename(tmp, resPath)
	}

	if *witness {
		// Replay each finding's witness; failures are tagged with the finding id
		// in Detail so the driver can attribute them.
		for n, k := range findings {
			if k.Property != o.prop || len(k.Witness) == 0 {
				continue
			}
			setProgress(n, 1)
			before := c.res.FailureCount
			hitsBefore := int64(0)
			for _, v := range c.res.FindingHits {
				hitsBefore += v
			}
			c.Index = -1
			c.Rng = gen.New(o.seed, o.prop+"/witness", n)
			pv, st := Guard(func() { chk.Replay(c, k.Witness) })
			if pv != nil {
				c.Fail("harness-panic", "witness:"+k.ID, map[string]string{"finding": k.ID}, "", fmt.Sprint(pv), st)
			}
			hitsAfter := int64(0)
			for _, v := range c.res.FindingHits {
				hitsAfter += v
			}
			state := "quiet"
			if c.res.FailureCount > before {
				state = "fails-unmatched"
				// tag the unmatched failures
				for i := range c.res.Failures {
					if c.res.Failures[i].Index == -1 && !strings.HasPrefix(c.res.Failures[i].Detail, "[witness ") {
						c.res.Failures[i].Detail = "[witness " + k.ID + "] " + c.res.Failures[i].Detail
					}
				}
			} else if hitsAfter > hitsBefore {
				state = "fails"
			}
			c.res.Notes["witness:"+k.ID+":"+state]++
			flush(n+1, false)
		}
		flush(len(findings), true)
		return 0
	}

	total := chk.Cases(o.tier, o.seed)
	last := time.Now()
	runCase := func(i int) {
		setProgress(i, 0)
		c.Index = i
		c.Rng = gen.New(o.seed, o.prop, i)
		c.res.Cases++
		pv, st := Guard(func() { chk.Exec(c, i) })
		if pv != nil {
			c.mu.Lock()
			c.res.InconCount++
			c.res.Inconclusive = append(c.res.Inconclusive, fmt.Sprintf("case %d: harness panic: %v @ %s", i, pv, st))
			c.res.Notes["harness-panic"]++
			c.mu.Unlock()
		}
	}
	if *only >= 0 {
		runCase(*only)
		flush(*only+1, true)
		return 0
	}
	for i := *from; i < total; i++ {
		if i%*nshards != *shard || skips[i] {
			continue
		}
		runCase(i)
		if time.Since(last) > 3*time.Second {
			flush(i+1, false)
			last = time.Now()
		}
	}
	if chk.Extra != nil && *shard == 0 {
		setProgress(-2, 0)
		c.Index = -2
		c.Rng = gen.New(o.seed, o.prop+"/extra", 0)
		pv, st := Guard(func() { chk.Extra(c) })
		if pv != nil {
			c.Inconclusive(fmt.Sprintf("harness panic in Extra: %v @ %s", pv, st))
		}
	}
	flush(total, true)
	return 0
}

// ---------------------------------------------------------------- driver

type procState struct {
	shard   int
	gen     int
	from    int
	skips   []int
	cmd     *exec.Cmd
	tag     string
	lastIdx int64
	lastAt  time.Time
}

func readProgress(path string) (idx int64, input json.RawMessage, ok bool) {
	b, err := os.ReadFile(path)
	if err != nil || len(b) < 16 {
		return 0, nil, false
	}
	idx = int64(binary.LittleEndian.Uint64(b))
	if len(b) >= 24 {
		n := binary.LittleEndian.Uint64(b[16:])
		if n > 0 && uint64(len(b)) >= 24+n {
			input = json.RawMessage(append([]byte(nil), b[24:24+n]...))
		}
	}
	return idx, input, true
}

func readCheckpoint(path string) *checkpoint {
	b, err := os.ReadFile(path)
	if err != nil {
		return nil
	}
	var cp checkpoint
	if json.Unmarshal(b, &cp) != nil {
		return nil
	}
	return &cp
}

type merged struct {
	WorkerResult
	nt map[uint64]struct{}
}

func (m *merged) add(r *WorkerResult) {
	if r == nil {
		return
	}
	m.Evaluations += r.Evaluations
	m.Cases += r.Cases
	for _, h := range r.Nontrivial {
		m.nt[h] = struct{}{}
	}
	for k, v := range r.Features {
		m.Features[k] += v
	}
	for k, v := range r.Notes {
		m.Notes[k] += v
	}
	for k, v := range r.FindingHits {
		m.FindingHits[k] += v
	}
	for k, v := range r.SiteCounts {
		m.SiteCounts[k] += v
	}
	m.Samples = append(m.Samples, r.Samples...)
	m.Failures = append(m.Failures, r.Failures...)
	m.FailureCount += r.FailureCount
	m.Inconclusive = append(m.Inconclusive, r.Inconclusive...)
	m.InconCount += r.InconCount
}

func driver(args []string) int {
	var o opts
	fs := flag.NewFlagSet("run", flag.ExitOnError)
	commonFlags(fs, &o)
	maxw := fs.Int("workers", 16, "max worker processes")
	fs.Parse(args)
	if o.out == "" {
		o.out = o.root
	}
	start := time.Now()
	chk := Lookup(o.prop)
	if chk == nil {
		fmt.Printf("INCONCLUSIVE property=%s reason=no-such-check\n", o.prop)
		return 2
	}
	findings, err := LoadFindings(filepath.Join(o.root, "known_findings.jsonl"))
	if err != nil {
		fmt.Printf("INCONCLUSIVE property=%s reason=%v\n", o.prop, err)
		return 2
	}
	total := chk.Cases(o.tier, o.seed)
	n := *maxw
	if n > runtime.NumCPU() {
		n = runtime.NumCPU()
	}
	if chk.Workers > 0 && n > chk.Workers {
		n = chk.Workers
	}
	if n > total {
		n = total
	}
	if n < 1 {
		n = 1
	}
	work := filepath.Join(o.out, "build", "work", fmt.Sprintf("%s-%d", o.prop, os.Getpid()))
	os.MkdirAll(work, 0o755)
	defer os.RemoveAll(work)
	self, _ := os.Executable()
	timeout := time.Duration(chk.CaseTimeoutS) * time.Second
	if timeout == 0 {
		timeout = 120 * time.Second
	}

	m := &merged{nt: map[uint64]struct{}{}}
	m.Features = map[string]int64{}
	m.Notes = map[string]int64{}
	m.FindingHits = map[string]int64{}
	m.SiteCounts = map[string]int64{}
	var mu sync.Mutex
	var driverFailures []Failure

	base := []string{"--prop", o.prop, "--tier", o.tier, "--seed", fmt.Sprint(o.seed), "--root", o.root, "--dir", work}

	// runProc runs one worker process to completion under the progress watchdog.
	// It returns (finished cleanly, culprit index, announced input, reason).
	runProc := func(tag string, extra []string) (bool, int64, json.RawMessage, string) {
		a := append([]string{"worker"}, base...)
		a = append(a, "--tag", tag)
		a = append(a, extra...)
		cmd := exec.Command(self, a...)
		errf, _ := os.Create(filepath.Join(work, tag+".stderr"))
		cmd.Stdout = errf
		cmd.Stderr = errf
		cmd.Env = append(os.Environ(), "TZ=UTC", "GOTRACEBACK=all")
		if err := cmd.Start(); err != nil {
			return false, -1, nil, "start: " + err.Error()
		}
		done := make(chan error, 1)
		go func() { done <- cmd.Wait() }()
		var lastIdx int64 = -99
		var lastPhase uint64
		lastAt := time.Now()
		reason := ""
		tick := time.NewTicker(500 * time.Millisecond)
		defer tick.Stop()
		for {
			select {
			case err := <-done:
				errf.Close()
				cp := readCheckpoint(filepath.Join(work, tag+".result.json"))
				if err == nil && cp != nil && cp.Result != nil && cp.Result.Done {
					return true, 0, nil, ""
				}
				idx, in, _ := readProgress(filepath.Join(work, tag+".progress"))
				if reason == "" {
					reason = "worker-died"
					if err != nil {
						reason += ": " + err.Error()
					}
				}
				return false, idx, in, reason
			case <-tick.C:
				b, err := os.ReadFile(filepath.Join(work, tag+".progress"))
				if err == nil && len(b) >= 16 {
					idx := int64(binary.LittleEndian.Uint64(b))
					ph := binary.LittleEndian.Uint64(b[8:])
					if idx != lastIdx || ph != lastPhase {
						lastIdx, lastPhase, lastAt = idx, ph, time.Now()
					}
				}
				if reason == "" && time.Since(lastAt) > timeout {
					reason = "hang"
					cmd.Process.Signal(syscall.SIGQUIT)
					go func() { time.Sleep(5 * time.Second); cmd.Process.Kill() }()
				}
			}
		}
	}

	tailStderr := func(tag string) string {
		b, _ := os.ReadFile(filepath.Join(work, tag+".stderr"))
		s := string(b)
		// keep the first lines (panic message / fatal error) and otto frames
		lines := strings.Split(s, "\n")
		var out []string
		for i, l := range lines {
			if i < 6 || (strings.Contains(l, "robertkrimen/otto") && len(out) < 30) {
				out = append(out, l)
			}
		}
		return clip(strings.Join(out, "\n"))
	}

	var wg sync.WaitGroup
	for s := 0; s < n; s++ {
		wg.Add(1)
		go func(s int) {
			defer wg.Done()
			from := 0
			var skips []string
			for g := 0; ; g++ {
				tag := fmt.Sprintf("w%d.g%d", s, g)
				extra := []string{"--shard", fmt.Sprint(s), "--nshards", fmt.Sprint(n), "--from", fmt.Sprint(from), "--skip", strings.Join(skips, ",")}
				ok, idx, in, reason := runProc(tag, extra)
				cp := readCheckpoint(filepath.Join(work, tag+".result.json"))
				mu.Lock()
				if cp != nil {
					m.add(cp.Result)
				}
				mu.Unlock()
				if ok {
					return
				}
				// a death/hang: the culprit is case idx
				detail := tailStderr(tag)
				kind := "worker-died"
				if reason == "hang" {
					kind = "hang"
					// confirm alone with a doubled budget
					ok2, _, _, _ := runProc(tag+".confirm", []string{"--only", fmt.Sprint(idx)})
					if ok2 {
						cp2 := readCheckpoint(filepath.Join(work, tag+".confirm.result.json"))
						mu.Lock()
						if cp2 != nil {
							m.add(cp2.Result)
						}
						m.Notes["slow-case-completed-on-rerun"]++
						mu.Unlock()
						kind = ""
					}
				}
				if kind != "" {
					if in == nil {
						in, _ = json.Marshal(map[string]interface{}{"case_index": idx, "seed": o.seed, "tier": o.tier})
					}
					f := Failure{Kind: kind, Site: "process", Input: in, Actual: reason, Detail: detail, Index: int(idx)}
					(&Ctx{Prop: o.prop, findings: findings}).classify(&f)
					mu.Lock()
					if f.Finding != "" {
						m.FindingHits[f.Finding]++
					} else {
						driverFailures = append(driverFailures, f)
					}
					mu.Unlock()
				}
				if cp != nil {
					from = cp.Next
				}
				if idx >= 0 {
					skips = append(skips, fmt.Sprint(idx))
				}
				if g > 40 || idx < 0 {
					mu.Lock()
					m.InconCount++
					m.Inconclusive = append(m.Inconclusive, fmt.Sprintf("shard %d abandoned after %d restarts (%s)", s, g, reason))
					mu.Unlock()
					return
				}
			}
		}(s)
	}
	wg.Wait()

	// witness pass
	witnessState := map[string]string{}
	var witnessFailures []Failure
	hasWitness := false
	for _, k := range findings {
		if k.Property == o.prop && len(k.Witness) > 0 {
			hasWitness = true
		}
	}
	if hasWitness {
		ok, idx, _, reason := runProc("witness", []string{"--witness"})
		cp := readCheckpoint(filepath.Join(work, "witness.result.json"))
		if cp != nil && cp.Result != nil {
			for k := range cp.Result.Notes {
				if strings.HasPrefix(k, "witness:") {
					p := strings.Split(k, ":")
					witnessState[p[1]] = p[2]
				}
			}
			witnessFailures = cp.Result.Failures
		}
		if !ok && idx >= 0 && int(idx) < len(findings) {
			// died while replaying finding idx: it still fails (fatally)
			witnessState[findings[idx].ID] = "fails"
			m.Notes["witness-fatal:"+findings[idx].ID]++
			_ = reason
			// remaining witnesses are replayed one by one
			for j := int(idx) + 1; j < len(findings); j++ {
				// best effort: not re-run; mark unknown
				if findings[j].Property == o.prop && len(findings[j].Witness) > 0 {
					if _, seen := witnessState[findings[j].ID]; !seen {
						witnessState[findings[j].ID] = "not-replayed"
					}
				}
			}
		}
	}

	// ---- verdict
	all := append([]Failure{}, m.Failures...)
	all = append(all, driverFailures...)
	violations := int(m.FailureCount) + len(driverFailures)
	os.MkdirAll(filepath.Join(o.out, "replay", o.prop), 0o755)
	os.MkdirAll(filepath.Join(o.out, "evidence"), 0o755)
	printed := 0
	seenSite := map[string]int{}
	writeReplay := func(f Failure) string {
		h := sha1.Sum(append([]byte(f.Site+"|"+f.Kind+"|"), f.Input...))
		name := filepath.Join(o.out, "replay", o.prop, hex.EncodeToString(h[:8])+".json")
		rec := map[string]interface{}{"property": o.prop, "seed": o.seed, "tier": o.tier, "index": f.Index,
			"kind": f.Kind, "site": f.Site, "input": f.Input, "expected": f.Expected, "actual": f.Actual, "detail": f.Detail}
		b, _ := json.MarshalIndent(rec, "", " ")
		os.WriteFile(name, b, 0o644)
		return name
	}
	sort.SliceStable(all, func(i, j int) bool { return all[i].Index < all[j].Index })
	for _, f := range all {
		name := writeReplay(f)
		seenSite[f.Site]++
		if printed < 40 && seenSite[f.Site] <= 5 {
			fmt.Printf("VIOLATION property=%s replay=%s\n", o.prop, name)
			fmt.Printf("  site=%s kind=%s expected=%s actual=%s input=%s\n", f.Site, f.Kind, oneLine(f.Expected, 160), oneLine(f.Actual, 160), oneLine(string(f.Input), 300))
			printed++
		}
	}
	openFinding := map[string]bool{}
	for _, k := range findings {
		if k.Status == "open" {
			openFinding[k.ID] = true
		}
	}
	for _, f := range witnessFailures {
		// The witness of an open finding failing is the finding itself (reported
		// as KNOWN-FINDING below). A witness of a fixed finding failing means the
		// defect came back: a violation.
		if m := regexp.MustCompile(`^\[witness ([^\]]+)\]`).FindStringSubmatch(f.Detail); m != nil && openFinding[m[1]] {
			continue
		}
		name := writeReplay(f)
		violations++
		fmt.Printf("VIOLATION property=%s replay=%s\n", o.prop, name)
		fmt.Printf("  %s site=%s expected=%s actual=%s\n", oneLine(f.Detail, 80), f.Site, oneLine(f.Expected, 160), oneLine(f.Actual, 160))
	}
	if violations > 0 && printed == 0 && len(witnessFailures) == 0 {
		fmt.Printf("VIOLATION property=%s replay=%s\n", o.prop, filepath.Join(o.out, "replay", o.prop))
	}
	known := []string{}
	for _, k := range findings {
		if k.Property != o.prop || k.Status != "open" {
			continue
		}
		st := witnessState[k.ID]
		hits := m.FindingHits[k.ID]
		if st == "fails" || st == "fails-unmatched" || hits > 0 {
			fmt.Printf("KNOWN-FINDING: property=%s %s %s (witness %s, %d generated cases matched)\n", o.prop, k.ID, k.What, orStr(st, "none"), hits)
			known = append(known, k.ID)
		} else if len(k.Witness) == 0 || string(k.Witness) == "null" {
			// recorded without a witness in this check's input format (its reproducer
			// lives under hunted/): listed on every run, it cannot be seen to go quiet here
			fmt.Printf("KNOWN-FINDING: property=%s %s %s (no witness in this check; reproducer under hunted/)\n", o.prop, k.ID, k.What)
			known = append(known, k.ID)
		}
	}

	if len(m.SiteCounts) > 0 {
		var ks []string
		for k := range m.SiteCounts {
			ks = append(ks, k)
		}
		sort.Strings(ks)
		fmt.Print("violations by site:")
		for _, k := range ks {
			fmt.Printf(" %s=%d", k, m.SiteCounts[k])
		}
		fmt.Println()
	}
	floor := 2
	if chk.Floor != nil {
		floor = chk.Floor(o.tier)
	}
	distinct := len(m.nt)
	exit := 0
	// A few cases that could not be judged (the reference model ran out of its step budget, a
	// wall-clock backstop fired on a loaded machine) do not change the verdict on the cases that
	// were judged: they are counted, listed below and in the evidence. More than a handful means
	// the run itself is not trustworthy (a systemic cause) and is reported as inconclusive.
	tolerated := m.Cases / 2000
	if tolerated < 3 {
		tolerated = 3
	}
	if violations > 0 {
		exit = 1
	} else if m.InconCount > tolerated || distinct < floor {
		exit = 2
		fmt.Printf("INCONCLUSIVE property=%s distinct_nontrivial=%d floor=%d inconclusive_cases=%d\n", o.prop, distinct, floor, m.InconCount)
		for i, s := range m.Inconclusive {
			if i < 10 {
				fmt.Println("  ", oneLine(s, 300))
			}
		}
	}

	if exit != 2 && m.InconCount > 0 {
		fmt.Printf("note: %d of %d cases could not be judged (not counted as held), e.g.:\n", m.InconCount, m.Cases)
		for i, s := range m.Inconclusive {
			if i < 4 {
				fmt.Println("  ", oneLine(s, 400))
			}
		}
	}
	// samples: first 3 + 3 spread
	samples := m.Samples
	if len(samples) > 6 {
		r := gen.New(o.seed, o.prop+"/pick", 0)
		pick := samples[:3:3]
		for i := 0; i < 3; i++ {
			pick = append(pick, samples[3+r.Intn(len(samples)-3)])
		}
		samples = pick
	}
	if len(samples) == 0 {
		samples = []interface{}{}
	}
	cov := map[string]interface{}{
		"evaluations":         m.Evaluations,
		"cases":               m.Cases,
		"distinct_nontrivial": distinct,
		"rule":                chk.Rule,
		"samples":             samples,
		"features":            m.Features,
		"notes":               m.Notes,
		"known_finding_hits":  m.FindingHits,
		"known_findings_open": known,
		"witness_state":       witnessState,
		"inconclusive":        m.InconCount,
		"inconclusive_cases":  firstN(m.Inconclusive, 10),
		"workers":             n,
		"planned_cases":       total,
	}
	if chk.Exhaustive {
		cov["exhaustive"] = true
	}
	ev := map[string]interface{}{
		"property_id": o.prop, "tier": o.tier, "seed": o.seed, "level": orStr(chk.Level, "exploration"),
		"coverage": cov, "assumptions": chk.Assumptions, "wall_s": time.Since(start).Seconds(),
		"violations": violations, "verdict": []string{"held-on-observed", "violated", "inconclusive"}[exit],
	}
	b, _ := json.MarshalIndent(ev, "", " ")
	os.WriteFile(filepath.Join(o.out, "evidence", o.prop+".json"), b, 0o644)
	fmt.Printf("%s tier=%s seed=%d cases=%d evaluations=%d distinct_nontrivial=%d violations=%d known_hits=%d inconclusive=%d wall=%.1fs\n",
		o.prop, o.tier, o.seed, m.Cases, m.Evaluations, distinct, violations, sumMap(m.FindingHits), m.InconCount, time.Since(start).Seconds())
	return exit
}

func sumMap(m map[string]int64) int64 {
	var t int64
	for _, v := range m {
		t += v
	}
	return t
}

func orStr(a, b string) string {
	if a == "" {
		return b
	}
	return a
}

func oneLine(s string, n int) string {
	s = strings.ReplaceAll(s, "\n", "\\n")
	if len(s) > n {
		s = s[:n] + "…"
	}
	return s
}

// ---------------------------------------------------------------- replay

func replay(args []string) int {
	var o opts
	fs := flag.NewFlagSet("replay", flag.ExitOnError)
	commonFlags(fs, &o)
	file := fs.String("file", "", "replay file")
	fs.Parse(args)
	b, err := os.ReadFile(*file)
	if err != nil {
		fmt.Println("INCONCLUSIVE", err)
		return 2
	}
	var rec struct {
		Property string          `json:"property"`
		Seed     uint64          `json:"seed"`
		Tier     string          `json:"tier"`
		Index    int             `json:"index"`
		Kind     string          `json:"kind"`
		Input    json.RawMessage `json:"input"`
	}
	if err := json.Unmarshal(b, &rec); err != nil {
		fmt.Println("INCONCLUSIVE", err)
		return 2
	}
	if o.prop == "" {
		o.prop = rec.Property
	}
	chk := Lookup(o.prop)
	if chk == nil {
		fmt.Println("INCONCLUSIVE no such check")
		return 2
	}
	findings, _ := LoadFindings(filepath.Join(o.root, "known_findings.jsonl"))
	c := newCtx(o.prop, rec.Tier, rec.Seed, findings)
	c.Index = rec.Index
	c.Rng = gen.New(rec.Seed, o.prop, rec.Index)
	var probe struct {
		CaseIndex *int `json:"case_index"`
	}
	json.Unmarshal(rec.Input, &probe)
	if probe.CaseIndex != nil || chk.Replay == nil {
		idx := rec.Index
		if probe.CaseIndex != nil {
			idx = *probe.CaseIndex
		}
		c.Index = idx
		c.Rng = gen.New(rec.Seed, o.prop, idx)
		chk.Exec(c, idx)
	} else {
		chk.Replay(c, rec.Input)
	}
	for _, f := range c.res.Failures {
		fmt.Printf("VIOLATION property=%s replay=%s\n  site=%s kind=%s\n  expected=%s\n  actual=%s\n  detail=%s\n", o.prop, *file, f.Site, f.Kind, f.Expected, f.Actual, f.Detail)
	}
	for k, v := range c.res.FindingHits {
		fmt.Printf("KNOWN-FINDING: property=%s %s (%d)\n", o.prop, k, v)
	}
	if c.res.FailureCount > 0 {
		return 1
	}
	fmt.Println("replay: no unlisted violation reproduced")
	return 0
}

func firstN(ss []string, n int) []string {
	if len(ss) > n {
		ss = ss[:n]
	}
	out := make([]string, len(ss))
	for i, s := range ss {
		out[i] = oneLine(s, 300)
	}
	return out
}
