// Package run is the shared execution framework: a driver that shards the
// case list of one property over worker child processes, collects what the
// monitors observed, classifies failures against known_findings.jsonl, writes
// the evidence file and replay files, and decides the exit code.
//
// Verdicts are three-valued: 0 = held on what was observed, 1 = violation
// (VIOLATION line + replay file), 2 = inconclusive (coverage floor not met,
// harness fault, watchdog).
package run

import (
	"encoding/json"
	"fmt"
	"os"
	"path/filepath"
	"runtime/debug"
	"sort"
	"strings"
	"sync"

	"verif/internal/gen"
)

// Failure is one disagreement between the real code and an oracle.
type Failure struct {
	Kind     string          `json:"kind"` // mismatch | panic | hang | worker-died | ...
	Site     string          `json:"site"` // operation / call site, used by findings
	Input    json.RawMessage `json:"input"`
	Expected string          `json:"expected"`
	Actual   string          `json:"actual"`
	Detail   string          `json:"detail,omitempty"`
	Index    int             `json:"index"`
	Finding  string          `json:"finding,omitempty"`
	// In is the typed input, available to matchers in-process.
	In interface{} `json:"-"`
}

// Check describes the workload+monitor of one property.
type Check struct {
	ID          string
	Rule        string
	Assumptions []string
	Exhaustive  bool
	// Level is the evidence level (default "exploration").
	Level string
	// Workers caps the number of worker processes (0 = up to 16).
	Workers int
	// Floor is the minimum distinct_nontrivial for a non-inconclusive run.
	Floor func(tier string) int
	// Cases returns the number of case indices for the tier.
	Cases func(tier string, seed uint64) int
	// Exec runs case i.
	Exec func(c *Ctx, i int)
	// Replay re-executes one self-contained input (Failure.Input / witness).
	Replay func(c *Ctx, input json.RawMessage)
	// CaseTimeoutS is the per-case wall-clock watchdog (default 120).
	CaseTimeoutS int
	// Extra is called once in worker 0 after its cases (e.g. global passes).
	Extra func(c *Ctx)
}

var registry = map[string]*Check{}

// Register adds a check.
func Register(c *Check) { registry[c.ID] = c }

// Lookup finds a check.
func Lookup(id string) *Check { return registry[id] }

// IDs lists registered checks.
func IDs() []string {
	var ids []string
	for k := range registry {
		ids = append(ids, k)
	}
	sort.Strings(ids)
	return ids
}

// Matcher decides whether a failure is an instance of a known finding.
type Matcher func(f *Failure) bool

var matchers = map[string]Matcher{}

// RegisterMatcher adds a named matcher predicate.
func RegisterMatcher(name string, m Matcher) { matchers[name] = m }

// Finding is one line of known_findings.jsonl.
type Finding struct {
	ID          string          `json:"id"`
	Property    string          `json:"property"`
	Status      string          `json:"status"` // open | fixed
	Commit      string          `json:"commit,omitempty"`
	Site        string          `json:"site,omitempty"`
	What        string          `json:"what"`
	Witness     json.RawMessage `json:"witness,omitempty"`
	Region      string          `json:"region,omitempty"`
	Matcher     string          `json:"matcher,omitempty"`
	WhyNotFixed string          `json:"why_not_fixed,omitempty"`
}

// LoadFindings reads the committed known-findings: <root>/known_findings.jsonl
// plus every <root>/known_findings/*.jsonl (path is the former).
func LoadFindings(path string) ([]Finding, error) {
	files := []string{path}
	more, _ := filepath.Glob(filepath.Join(filepath.Dir(path), "known_findings", "*.jsonl"))
	sort.Strings(more)
	files = append(files, more...)
	var out []Finding
	seen := map[string]bool{}
	for _, fn := range files {
		b, err := os.ReadFile(fn)
		if err != nil {
			if os.IsNotExist(err) {
				continue
			}
			return nil, err
		}
		for n, line := range strings.Split(string(b), "\n") {
			line = strings.TrimSpace(line)
			if line == "" || strings.HasPrefix(line, "#") {
				continue
			}
			var f Finding
			if err := json.Unmarshal([]byte(line), &f); err != nil {
				return nil, fmt.Errorf("%s line %d: %v", fn, n+1, err)
			}
			if f.ID == "" || f.Property == "" || (f.Status != "open" && f.Status != "fixed") {
				return nil, fmt.Errorf("%s line %d: id, property and status (open|fixed) are required", fn, n+1)
			}
			if seen[f.ID] {
				return nil, fmt.Errorf("%s line %d: duplicate finding id %s", fn, n+1, f.ID)
			}
			seen[f.ID] = true
			out = append(out, f)
		}
	}
	return out, nil
}

// Ctx is handed to Exec/Replay; it accumulates what the monitors observed.
type Ctx struct {
	Prop  string
	Tier  string
	Seed  uint64
	Index int
	Rng   *gen.Rand

	mu       sync.Mutex
	res      *WorkerResult
	findings []Finding
	nt       map[uint64]struct{}
	nsample  int
	srng     *gen.Rand
}

// WorkerResult is what a worker process reports back.
type WorkerResult struct {
	Evaluations  int64            `json:"evaluations"`
	Cases        int64            `json:"cases"`
	Nontrivial   []uint64         `json:"nontrivial"`
	Features     map[string]int64 `json:"features"`
	Samples      []interface{}    `json:"samples"`
	Failures     []Failure        `json:"failures"`
	FailureCount int64            `json:"failure_count"`
	FindingHits  map[string]int64 `json:"finding_hits"`
	Inconclusive []string         `json:"inconclusive"`
	InconCount   int64            `json:"incon_count"`
	Done         bool             `json:"done"`
	Notes        map[string]int64 `json:"notes"`
	SiteCounts   map[string]int64 `json:"site_counts"`
}

// openMatchers holds the matcher names of the open findings of the property
// being run (set when a context is created; one property per process).
var openMatchers = map[string]bool{}

// MatcherOpen reports whether an open finding of the current property names
// this matcher. Checks that build deviation models use it so that the model of
// a defect that has been repaired no longer explains anything.
func MatcherOpen(name string) bool { return openMatchers[name] }

func newCtx(prop, tier string, seed uint64, findings []Finding) *Ctx {
	for _, f := range findings {
		if f.Property == prop && f.Status == "open" && f.Matcher != "" {
			openMatchers[f.Matcher] = true
		}
	}
	return &Ctx{Prop: prop, Tier: tier, Seed: seed, findings: findings,
		res: &WorkerResult{Features: map[string]int64{}, FindingHits: map[string]int64{}, Notes: map[string]int64{}, SiteCounts: map[string]int64{}},
		nt:  map[uint64]struct{}{}, srng: gen.New(seed, prop+"/samples", 0)}
}

// Thorough reports whether the tier is thorough.
func (c *Ctx) Thorough() bool { return c.Tier == "thorough" }

// Eval counts n evaluations.
func (c *Ctx) Eval(n int) {
	c.mu.Lock()
	c.res.Evaluations += int64(n)
	c.mu.Unlock()
}

// Nontrivial records a distinct non-trivial case key.
func (c *Ctx) Nontrivial(key string) {
	h := gen.HashString(key)
	c.mu.Lock()
	c.nt[h] = struct{}{}
	c.mu.Unlock()
}

// Feature increments a histogram bucket.
func (c *Ctx) Feature(name string) {
	c.mu.Lock()
	c.res.Features[name]++
	c.mu.Unlock()
}

// FeatureN adds n to a histogram bucket.
func (c *Ctx) FeatureN(name string, n int) {
	c.mu.Lock()
	c.res.Features[name] += int64(n)
	c.mu.Unlock()
}

// Note increments an informational counter (reported under coverage.notes).
func (c *Ctx) Note(name string) {
	c.mu.Lock()
	c.res.Notes[name]++
	c.mu.Unlock()
}

// Sample offers an actual case for the evidence file (reservoir of 6).
func (c *Ctx) Sample(v interface{}) {
	c.mu.Lock()
	defer c.mu.Unlock()
	c.nsample++
	const k = 6
	if len(c.res.Samples) < k {
		c.res.Samples = append(c.res.Samples, v)
		return
	}
	// keep first 3, reservoir over the other 3
	j := c.srng.Intn(c.nsample)
	if j < 3 {
		c.res.Samples[3+j] = v
	}
}

// Skip records a generated case that falls outside the oracle's domain
// (implementation-defined behaviour reached); it is counted, not judged.
func (c *Ctx) Skip(reason string) {
	c.mu.Lock()
	c.res.Notes["skipped:"+reason]++
	c.mu.Unlock()
}

// Inconclusive records a case the monitor could not decide.
func (c *Ctx) Inconclusive(reason string) {
	c.mu.Lock()
	c.res.InconCount++
	if len(c.res.Inconclusive) < 20 {
		c.res.Inconclusive = append(c.res.Inconclusive, fmt.Sprintf("case %d: %s", c.Index, reason))
	}
	c.mu.Unlock()
}

// Fail records a disagreement. in is the typed, JSON-serialisable input that
// Replay can re-execute.
func (c *Ctx) Fail(kind, site string, in interface{}, expected, actual, detail string) {
	raw, err := json.Marshal(in)
	if err != nil {
		raw, _ = json.Marshal(fmt.Sprintf("%#v", in))
	}
	f := Failure{Kind: kind, Site: site, Input: raw, Expected: expected, Actual: actual, Detail: detail, Index: c.Index, In: in}
	c.classify(&f) // matchers see the unclipped texts
	f.Expected, f.Actual, f.Detail = clip(f.Expected), clip(f.Actual), clip(f.Detail)
	c.mu.Lock()
	defer c.mu.Unlock()
	if f.Finding != "" {
		c.res.FindingHits[f.Finding]++
		return
	}
	c.res.FailureCount++
	c.res.SiteCounts[f.Site]++
	if len(c.res.Failures) < 60 && c.res.SiteCounts[f.Site] <= 12 {
		c.res.Failures = append(c.res.Failures, f)
	}
}

func clip(s string) string {
	if len(s) > 4000 {
		return s[:4000] + "…(clipped)"
	}
	return s
}

func (c *Ctx) classify(f *Failure) {
	for _, k := range c.findings {
		if k.Property != c.Prop || k.Status != "open" || k.Matcher == "" {
			continue
		}
		m := matchers[k.Matcher]
		if m == nil {
			continue
		}
		ok := false
		func() {
			defer func() {
				if r := recover(); r != nil {
					ok = false
				}
			}()
			ok = m(f)
		}()
		if ok {
			f.Finding = k.ID
			return
		}
	}
}

// Guard runs fn and returns the recovered panic value (nil if none) together
// with a short stack.
func Guard(fn func()) (pv interface{}, stack string) {
	defer func() {
		if r := recover(); r != nil {
			pv = r
			stack = shortStack(string(debug.Stack()))
		}
	}()
	fn()
	return nil, ""
}

func shortStack(s string) string {
	lines := strings.Split(s, "\n")
	var out []string
	for _, l := range lines {
		if strings.Contains(l, "robertkrimen/otto") && !strings.HasPrefix(l, "\t") {
			out = append(out, strings.TrimSpace(l))
			if len(out) >= 8 {
				break
			}
		}
	}
	return strings.Join(out, " <- ")
}
