// Package refstr is a reference model of ES5.1 section 15.5 (String objects)
// written from the specification text over []uint16 (UTF-16 code units), plus
// the parts of sections 8.12.8, 9.1, 9.3, 9.4, 9.6, 9.7, 9.8 and 9.10 that the
// String methods use to convert their receiver and arguments.
//
// It does not import otto, package strings, package unicode or unicode/utf16:
// every algorithm below is the spec's step list on code units. Case mapping
// uses a table generated from CPython's copy of the Unicode Character Database
// (casetable.go), not Go's package unicode.
package refstr

import (
	"math"
	"strconv"
)

// Str is an ECMAScript String value: a finite ordered sequence of 16-bit
// unsigned integers (8.4).
type Str = []uint16

// ---------------------------------------------------------------- 9.4-9.7

// ToInteger is 9.4 applied to an already-ToNumber'ed value.
func ToInteger(x float64) float64 {
	if x != x {
		return 0
	}
	if x == 0 || math.IsInf(x, 0) {
		return x
	}
	return math.Copysign(math.Floor(math.Abs(x)), x)
}

func modPow2(x float64, bits uint) float64 {
	if x != x || x == 0 || math.IsInf(x, 0) {
		return 0
	}
	posInt := math.Copysign(math.Floor(math.Abs(x)), x)
	m := math.Ldexp(1, int(bits))
	r := math.Mod(posInt, m) // exact for doubles; sign follows posInt
	if r < 0 {
		r += m
	}
	return r
}

// ToUint32 is 9.6.
func ToUint32(x float64) uint32 { return uint32(modPow2(x, 32)) }

// ToUint16 is 9.7.
func ToUint16(x float64) uint16 { return uint16(modPow2(x, 16)) }

// ---------------------------------------------------------------- 9.8.1 (restricted)

// NumberToString is 9.8.1 for the subset of doubles whose decimal
// representation is unambiguous without a shortest-digits algorithm: NaN,
// infinities, zeros, integers of magnitude < 2^53 and < 1e21, and such an
// integer plus one half. ok=false outside that subset (callers must not
// generate such numbers where a string conversion is required).
func NumberToString(x float64) (string, bool) {
	switch {
	case x != x:
		return "NaN", true
	case x == 0:
		return "0", true
	case math.IsInf(x, 1):
		return "Infinity", true
	case math.IsInf(x, -1):
		return "-Infinity", true
	}
	sign := ""
	if x < 0 {
		sign = "-"
		x = -x
	}
	if x >= 1<<53 {
		return "", false
	}
	ip := math.Floor(x)
	fr := x - ip
	digits := strconv.FormatInt(int64(ip), 10) // integer formatting only
	switch fr {
	case 0:
		return sign + digits, true
	case 0.5:
		if ip < 1<<40 {
			return sign + digits + ".5", true
		}
	}
	return "", false
}

// ---------------------------------------------------------------- 9.3.1 (restricted)

// IsWhiteSpaceOrLT reports membership in WhiteSpace (7.2) or LineTerminator
// (7.3). asserted=false for code units whose membership depends on the
// Unicode version ("any other Unicode space separator", category Zs):
// U+180E (Zs until Unicode 6.3) and U+200B (Zs until Unicode 4.0.1).
func IsWhiteSpaceOrLT(u uint16) (ws bool, asserted bool) {
	switch u {
	case 0x0009, 0x000B, 0x000C, 0x0020, 0x00A0, 0xFEFF: // 7.2 table 2
		return true, true
	case 0x000A, 0x000D, 0x2028, 0x2029: // 7.3 table 3
		return true, true
	case 0x1680, 0x202F, 0x205F, 0x3000: // Zs in every Unicode version >= 3.0 (205F since 3.2)
		return true, true
	case 0x180E, 0x200B:
		return false, false
	}
	if u >= 0x2000 && u <= 0x200A { // Zs
		return true, true
	}
	return false, true
}

var pow10tab = [...]float64{1, 1e1, 1e2, 1e3, 1e4, 1e5, 1e6, 1e7, 1e8, 1e9, 1e10, 1e11, 1e12, 1e13, 1e14, 1e15, 1e16, 1e17, 1e18, 1e19, 1e20, 1e21, 1e22}

func eqASCII(s Str, lit string) bool {
	if len(s) != len(lit) {
		return false
	}
	for i := range s {
		if s[i] != uint16(lit[i]) {
			return false
		}
	}
	return true
}

// StringToNumber is 9.3.1 (ToNumber applied to the String type). It decides
// the grammar completely (anything not matching StringNumericLiteral is NaN)
// and computes the mathematical value exactly when the literal has at most 15
// significant decimal digits and a decimal exponent that keeps the
// computation on exactly representable operands (|exp| <= 22), or is a hex
// literal below 2^53. ok=false when the literal is grammatical but outside
// that exactly-computable subset.
func StringToNumber(s Str) (val float64, ok bool) {
	// strip StrWhiteSpace
	for len(s) > 0 {
		if ws, _ := IsWhiteSpaceOrLT(s[0]); !ws {
			break
		}
		s = s[1:]
	}
	for len(s) > 0 {
		if ws, _ := IsWhiteSpaceOrLT(s[len(s)-1]); !ws {
			break
		}
		s = s[:len(s)-1]
	}
	for _, u := range s {
		if _, asserted := IsWhiteSpaceOrLT(u); !asserted {
			return 0, false
		}
	}
	if len(s) == 0 {
		return 0, true
	}
	nan := math.NaN()
	// HexIntegerLiteral
	if len(s) >= 2 && s[0] == '0' && (s[1] == 'x' || s[1] == 'X') {
		if len(s) == 2 {
			return nan, true
		}
		v := 0.0
		for _, u := range s[2:] {
			var d int
			switch {
			case u >= '0' && u <= '9':
				d = int(u - '0')
			case u >= 'a' && u <= 'f':
				d = int(u-'a') + 10
			case u >= 'A' && u <= 'F':
				d = int(u-'A') + 10
			default:
				return nan, true
			}
			v = v*16 + float64(d)
			if v >= 1<<53 {
				return 0, false
			}
		}
		return v, true
	}
	neg := false
	if s[0] == '+' || s[0] == '-' {
		neg = s[0] == '-'
		s = s[1:]
	}
	sign := func(v float64) float64 {
		if neg {
			return -v
		}
		return v
	}
	if eqASCII(s, "Infinity") {
		return sign(math.Inf(1)), true
	}
	// StrUnsignedDecimalLiteral
	i := 0
	var mant uint64
	sig := 0   // significant digits accumulated
	scale := 0 // decimal exponent adjustment
	nd := 0    // digits seen in total
	exact := true
	digit := func(u uint16, frac bool) {
		nd++
		d := uint64(u - '0')
		if sig == 0 && d == 0 {
			if frac {
				scale--
			}
			return
		}
		if sig < 15 {
			mant = mant*10 + d
			sig++
			if frac {
				scale--
			}
			return
		}
		if d != 0 {
			exact = false
		}
		if !frac {
			scale++
		}
	}
	for i < len(s) && s[i] >= '0' && s[i] <= '9' {
		digit(s[i], false)
		i++
	}
	if i < len(s) && s[i] == '.' {
		i++
		for i < len(s) && s[i] >= '0' && s[i] <= '9' {
			digit(s[i], true)
			i++
		}
	}
	if nd == 0 {
		return nan, true
	}
	if i < len(s) && (s[i] == 'e' || s[i] == 'E') {
		i++
		eneg := false
		if i < len(s) && (s[i] == '+' || s[i] == '-') {
			eneg = s[i] == '-'
			i++
		}
		ed := 0
		e := 0
		for i < len(s) && s[i] >= '0' && s[i] <= '9' {
			if e < 100000 {
				e = e*10 + int(s[i]-'0')
			}
			ed++
			i++
		}
		if ed == 0 {
			return nan, true
		}
		if eneg {
			e = -e
		}
		scale += e
	}
	if i != len(s) {
		return nan, true
	}
	if mant == 0 {
		return sign(0), true
	}
	if !exact || scale > 22 || scale < -22 {
		return 0, false
	}
	v := float64(mant) // < 10^15 < 2^53: exact
	if scale >= 0 {
		v *= pow10tab[scale] // one correctly rounded operation on exact operands
	} else {
		v /= pow10tab[-scale]
	}
	if math.IsInf(v, 0) {
		return 0, false
	}
	return sign(v), true
}

// ---------------------------------------------------------------- 15.5.3.2

// FromCharCode is 15.5.3.2 applied to already-ToNumber'ed arguments.
func FromCharCode(args ...float64) Str {
	out := make(Str, len(args))
	for i, a := range args {
		out[i] = ToUint16(a)
	}
	return out
}

// ---------------------------------------------------------------- 15.5.4.4-5

// CharAt is 15.5.4.4 steps 3-6 (pos = ToNumber(argument)).
func CharAt(s Str, pos float64) Str {
	p := ToInteger(pos)
	if p < 0 || p >= float64(len(s)) {
		return Str{}
	}
	return Str{s[int(p)]}
}

// CharCodeAt is 15.5.4.5 steps 3-6.
func CharCodeAt(s Str, pos float64) float64 {
	p := ToInteger(pos)
	if p < 0 || p >= float64(len(s)) {
		return math.NaN()
	}
	return float64(s[int(p)])
}

// ---------------------------------------------------------------- 15.5.4.6

// Concat is 15.5.4.6 on already-ToString'ed arguments.
func Concat(s Str, args ...Str) Str {
	r := append(Str{}, s...)
	for _, a := range args {
		r = append(r, a...)
	}
	return r
}

// ---------------------------------------------------------------- 15.5.4.7-8

func clampF(x, lo, hi float64) float64 { return math.Min(math.Max(x, lo), hi) }

func matchAt(s, search Str, k int) bool {
	if k+len(search) > len(s) {
		return false
	}
	for j := range search {
		if s[k+j] != search[j] {
			return false
		}
	}
	return true
}

// IndexOf is 15.5.4.7 steps 4-8; pos = ToNumber(position) (undefined: NaN).
func IndexOf(s, search Str, pos float64) float64 {
	p := ToInteger(pos)
	start := int(clampF(p, 0, float64(len(s))))
	for k := start; k+len(search) <= len(s); k++ {
		if matchAt(s, search, k) {
			return float64(k)
		}
	}
	return -1
}

// LastIndexOf is 15.5.4.8 steps 4-9; numPos = ToNumber(position).
func LastIndexOf(s, search Str, numPos float64) float64 {
	var p float64
	if numPos != numPos {
		p = math.Inf(1)
	} else {
		p = ToInteger(numPos)
	}
	start := int(clampF(p, 0, float64(len(s))))
	for k := start; k >= 0; k-- {
		if k+len(search) <= len(s) && matchAt(s, search, k) {
			return float64(k)
		}
	}
	return -1
}

// ---------------------------------------------------------------- 15.5.4.9

// CompareUnits orders two strings by code units (the ordering of 11.8.5);
// used for localeCompare only in the sense stated by 15.5.4.9: zero iff the
// strings are identical ("canonically equivalent" is not asserted), and a
// consistent ordering otherwise.
func CompareUnits(a, b Str) int {
	for i := 0; i < len(a) && i < len(b); i++ {
		if a[i] != b[i] {
			if a[i] < b[i] {
				return -1
			}
			return 1
		}
	}
	switch {
	case len(a) < len(b):
		return -1
	case len(a) > len(b):
		return 1
	}
	return 0
}

// ---------------------------------------------------------------- 15.5.4.13, 15, B.2.3

// Slice is 15.5.4.13 steps 3-9. end is ignored when endUndef.
func Slice(s Str, start, end float64, endUndef bool) Str {
	ln := float64(len(s))
	is := ToInteger(start)
	ie := ln
	if !endUndef {
		ie = ToInteger(end)
	}
	var from, to float64
	if is < 0 {
		from = math.Max(ln+is, 0)
	} else {
		from = math.Min(is, ln)
	}
	if ie < 0 {
		to = math.Max(ln+ie, 0)
	} else {
		to = math.Min(ie, ln)
	}
	span := math.Max(to-from, 0)
	return append(Str{}, s[int(from):int(from+span)]...)
}

// Substring is 15.5.4.15 steps 3-10.
func Substring(s Str, start, end float64, endUndef bool) Str {
	ln := float64(len(s))
	is := ToInteger(start)
	ie := ln
	if !endUndef {
		ie = ToInteger(end)
	}
	fs := clampF(is, 0, ln)
	fe := clampF(ie, 0, ln)
	from := math.Min(fs, fe)
	to := math.Max(fs, fe)
	return append(Str{}, s[int(from):int(to)]...)
}

// Substr is B.2.3 steps 2-8.
func Substr(s Str, start, length float64, lenUndef bool) Str {
	r2 := ToInteger(start)
	r3 := math.Inf(1)
	if !lenUndef {
		r3 = ToInteger(length)
	}
	r4 := float64(len(s))
	r5 := r2
	if r2 < 0 {
		r5 = math.Max(r4+r2, 0)
	}
	r6 := math.Min(math.Max(r3, 0), r4-r5)
	if r6 <= 0 {
		return Str{}
	}
	return append(Str{}, s[int(r5):int(r5+r6)]...)
}

// ---------------------------------------------------------------- 15.5.4.14 (string separator)

// splitMatch is the SplitMatch abstract operation for a String R: returns the
// end index e or -1 for failure.
func splitMatch(s Str, q int, r Str) int {
	if q+len(r) > len(s) {
		return -1
	}
	for i := range r {
		if s[q+i] != r[i] {
			return -1
		}
	}
	return q + len(r)
}

// Split is 15.5.4.14 for a non-RegExp separator: sep = ToString(separator),
// sepUndef = separator is undefined, lim = ToNumber(limit), limUndef = limit
// is undefined.
func Split(s Str, sepUndef bool, sep Str, limUndef bool, lim float64) []Str {
	a := []Str{}
	var limit uint32 = 1<<32 - 1
	if !limUndef {
		limit = ToUint32(lim)
	}
	size := len(s)
	p := 0
	if limit == 0 {
		return a
	}
	if sepUndef {
		return append(a, append(Str{}, s...))
	}
	if size == 0 {
		if splitMatch(s, 0, sep) >= 0 {
			return a
		}
		return append(a, Str{})
	}
	q := p
	for q != size {
		e := splitMatch(s, q, sep)
		if e < 0 || e == p {
			q++
			continue
		}
		a = append(a, append(Str{}, s[p:q]...))
		if uint32(len(a)) == limit {
			return a
		}
		p = e
		q = p
	}
	return append(a, append(Str{}, s[p:size]...))
}

// ---------------------------------------------------------------- 15.5.4.16-20

func lookup(tab []uint16, u uint16) (uint16, bool) {
	lo, hi := 0, len(tab)/2
	for lo < hi {
		m := (lo + hi) / 2
		switch {
		case tab[2*m] == u:
			return tab[2*m+1], true
		case tab[2*m] < u:
			lo = m + 1
		default:
			hi = m
		}
	}
	return 0, false
}

func member(tab []uint16, u uint16) bool {
	lo, hi := 0, len(tab)
	for lo < hi {
		m := (lo + hi) / 2
		switch {
		case tab[m] == u:
			return true
		case tab[m] < u:
			lo = m + 1
		default:
			hi = m
		}
	}
	return false
}

func isSurrogate(u uint16) bool { return u >= 0xD800 && u <= 0xDFFF }

// WellFormed reports whether s contains no unpaired surrogate code unit.
func WellFormed(s Str) bool {
	for i := 0; i < len(s); i++ {
		switch {
		case s[i] >= 0xD800 && s[i] <= 0xDBFF:
			if i+1 < len(s) && s[i+1] >= 0xDC00 && s[i+1] <= 0xDFFF {
				i++
				continue
			}
			return false
		case s[i] >= 0xDC00 && s[i] <= 0xDFFF:
			return false
		}
	}
	return true
}

// ToUpper is 15.5.4.18 with simple (single code unit) mappings. asserted is
// false when s contains a code unit whose uppercase mapping is governed by
// SpecialCasing.txt. 15.5.4.16 treats the code units as BMP code points:
// surrogate code units are transferred unchanged.
func ToUpper(s Str) (out Str, asserted bool) {
	out = make(Str, len(s))
	asserted = true
	for i, u := range s {
		out[i] = u
		if isSurrogate(u) {
			// "Surrogate code points are directly transferred from S to L without any mapping."
			continue
		}
		if member(upperSpecial[:], u) {
			asserted = false
			continue
		}
		if m, ok := lookup(upperPairs[:], u); ok {
			out[i] = m
		}
	}
	return
}

// ToLower is 15.5.4.16, same conventions as ToUpper.
func ToLower(s Str) (out Str, asserted bool) {
	out = make(Str, len(s))
	asserted = true
	for i, u := range s {
		out[i] = u
		if isSurrogate(u) {
			// "Surrogate code points are directly transferred from S to L without any mapping."
			continue
		}
		if member(lowerSpecial[:], u) {
			asserted = false
			continue
		}
		if m, ok := lookup(lowerPairs[:], u); ok {
			out[i] = m
		}
	}
	return
}

// CasePairs exposes the asserted table to generators: n pairs (from, to).
func CasePairs(upper bool) []uint16 {
	if upper {
		return upperPairs[:]
	}
	return lowerPairs[:]
}

// CaseSpecial exposes the non-asserted code points to generators.
func CaseSpecial(upper bool) []uint16 {
	if upper {
		return upperSpecial[:]
	}
	return lowerSpecial[:]
}

// Trim is 15.5.4.20. asserted=false when the outcome depends on a code unit
// whose white-space status is Unicode-version dependent (it is then computed
// treating that unit as non-white-space).
func Trim(s Str) (out Str, asserted bool) {
	asserted = true
	i, j := 0, len(s)
	for i < j {
		ws, as := IsWhiteSpaceOrLT(s[i])
		if !as {
			asserted = false
		}
		if !ws {
			break
		}
		i++
	}
	for j > i {
		ws, as := IsWhiteSpaceOrLT(s[j-1])
		if !as {
			asserted = false
		}
		if !ws {
			break
		}
		j--
	}
	return append(Str{}, s[i:j]...), asserted
}
