package refstr

import "math"

// Result is the normal completion value of a String method.
type Result struct {
	Kind string // str | num | arr
	S    Str
	N    float64
	A    []Str
	// Asserted is false when the value depends on implementation-defined or
	// Unicode-version-dependent data (special casing, U+180E/U+200B); the
	// type of the result and the conversion trace are still determined.
	Asserted bool
}

func str(s Str) *Result              { return &Result{Kind: "str", S: s, Asserted: true} }
func num(n float64) *Result          { return &Result{Kind: "num", N: n, Asserted: true} }
func arg(args []Val, i int) *Val     { return argOr(args, i, &Val{K: "undef"}) }
func isUndef(args []Val, i int) bool { return i >= len(args) || args[i].K == "undef" }
func argOr(args []Val, i int, d *Val) *Val {
	if i < len(args) {
		return &args[i]
	}
	return d
}

// Methods lists the String.prototype methods modelled by Call.
var Methods = []string{"charAt", "charCodeAt", "indexOf", "lastIndexOf", "slice", "substring", "substr",
	"split", "concat", "trim", "toLowerCase", "toUpperCase", "localeCompare", "toString", "valueOf"}

// Call evaluates String.prototype[method] with the given this value and
// arguments, in the step order of 15.5.4.x / B.2.3 (conversion side effects
// go to tr in spec order). The error is *Throw (abrupt completion) or
// *Unsupported.
func Call(method string, this *Val, args []Val, tr *Trace) (*Result, error) {
	if method == "toString" || method == "valueOf" {
		// 15.5.4.2 / 15.5.4.3: not generic.
		switch this.K {
		case "str", "sobj":
			return str(this.S), nil
		}
		return nil, &Throw{"TypeError"}
	}
	if err := CheckObjectCoercible(this); err != nil {
		return nil, err
	}
	s, err := ToString(this, tr)
	if err != nil {
		return nil, err
	}
	switch method {
	case "charAt", "charCodeAt":
		pos, err := ToNumber(arg(args, 0), tr)
		if err != nil {
			return nil, err
		}
		if method == "charAt" {
			return str(CharAt(s, pos)), nil
		}
		return num(CharCodeAt(s, pos)), nil
	case "concat":
		r := append(Str{}, s...)
		for i := range args {
			a, err := ToString(&args[i], tr)
			if err != nil {
				return nil, err
			}
			r = append(r, a...)
		}
		return str(r), nil
	case "indexOf", "lastIndexOf":
		search, err := ToString(arg(args, 0), tr)
		if err != nil {
			return nil, err
		}
		pos, err := ToNumber(arg(args, 1), tr)
		if err != nil {
			return nil, err
		}
		if method == "indexOf" {
			return num(IndexOf(s, search, pos)), nil
		}
		return num(LastIndexOf(s, search, pos)), nil
	case "localeCompare":
		that, err := ToString(arg(args, 0), tr)
		if err != nil {
			return nil, err
		}
		// Only the sign class is meaningful; and only "0 iff identical" is
		// asserted by the caller.
		return num(float64(CompareUnits(s, that))), nil
	case "slice", "substring", "substr":
		a0, err := ToNumber(arg(args, 0), tr)
		if err != nil {
			return nil, err
		}
		undef := isUndef(args, 1)
		a1 := math.NaN()
		if !undef {
			if a1, err = ToNumber(arg(args, 1), tr); err != nil {
				return nil, err
			}
		}
		switch method {
		case "slice":
			return str(Slice(s, a0, a1, undef)), nil
		case "substring":
			return str(Substring(s, a0, a1, undef)), nil
		}
		return str(Substr(s, a0, a1, undef)), nil
	case "split":
		// step 5: lim; step 8: R = ToString(separator)
		limUndef := isUndef(args, 1)
		lim := 0.0
		if !limUndef {
			if lim, err = ToNumber(arg(args, 1), tr); err != nil {
				return nil, err
			}
		}
		sepUndef := isUndef(args, 0)
		sep, err := ToString(arg(args, 0), tr)
		if err != nil {
			return nil, err
		}
		return &Result{Kind: "arr", A: Split(s, sepUndef, sep, limUndef, lim), Asserted: true}, nil
	case "trim":
		t, as := Trim(s)
		return &Result{Kind: "str", S: t, Asserted: as}, nil
	case "toLowerCase":
		t, as := ToLower(s)
		return &Result{Kind: "str", S: t, Asserted: as}, nil
	case "toUpperCase":
		t, as := ToUpper(s)
		return &Result{Kind: "str", S: t, Asserted: as}, nil
	}
	return nil, &Unsupported{"method " + method}
}

// StringFunction is 15.5.1.1: String(value) called as a function; no
// argument gives "".
func StringFunction(args []Val, tr *Trace) (Str, error) {
	if len(args) == 0 {
		return Str{}, nil
	}
	return ToString(&args[0], tr)
}

// FromCharCodeCall is 15.5.3.2 on unconverted arguments.
func FromCharCodeCall(args []Val, tr *Trace) (Str, error) {
	out := make(Str, len(args))
	for i := range args {
		n, err := ToNumber(&args[i], tr)
		if err != nil {
			return nil, err
		}
		out[i] = ToUint16(n)
	}
	return out, nil
}

// IsCanonicalIndex implements the test of 15.5.5.2 step 4-5 for a property
// name P: ToString(ToInteger(ToNumber(P))) is the same as P, returning the
// index. Decided syntactically: "0" or a non-empty digit string without a
// leading zero (values kept below 2^31 here; longer names are never an index
// of a string of practical length but still canonical).
func IsCanonicalIndex(p Str) (int, bool) {
	if len(p) == 0 || len(p) > 9 {
		return 0, false
	}
	if p[0] == '0' {
		return 0, len(p) == 1
	}
	n := 0
	for _, u := range p {
		if u < '0' || u > '9' {
			return 0, false
		}
		n = n*10 + int(u-'0')
	}
	return n, true
}
