package refstr

import (
	"fmt"
	"math"

	"verif/internal/gen"
)

// Val is a JSON-serialisable description of an ECMAScript value used as a
// receiver or argument of a String method. It is the generator's own tree: it
// is rendered to JavaScript source for the implementation under test and
// interpreted directly by the conversions below (8.12.8, 9.1, 9.3, 9.8).
type Val struct {
	// K: undef | null | bool | num | str | sobj (new String) | nobj (new
	// Number) | bobj (new Boolean) | arr | obj
	K string   `json:"k"`
	B bool     `json:"b,omitempty"`
	N gen.F    `json:"n,omitempty"`
	S []uint16 `json:"s,omitempty"`
	// R is the construction route of a string: lit (literal with \uXXXX
	// escapes) | fcc (String.fromCharCode.apply(null,[...])) | cat
	// (concatenation of one-unit strings). Irrelevant to the model.
	R string `json:"r,omitempty"`
	A []Val  `json:"a,omitempty"` // arr: elements (primitives only)
	// obj: an ordinary object. TS/VO, when non-nil, are the values returned by
	// its own toString/valueOf (each call is recorded in the trace as
	// "<ID>.toString" / "<ID>.valueOf"). NoTS: own property toString is null
	// (not callable). With neither, Object.prototype.toString/valueOf apply.
	TS   *Val `json:"ts,omitempty"`
	VO   *Val `json:"vo,omitempty"`
	NoTS bool `json:"nots,omitempty"`
	ID   int  `json:"id,omitempty"`
}

// Throw is an abrupt completion with a native error of the given class.
type Throw struct{ Class string }

func (t *Throw) Error() string { return "throw:" + t.Class }

// Unsupported is returned when a conversion is outside the subset the model
// computes exactly; generators must not produce such cases.
type Unsupported struct{ What string }

func (u *Unsupported) Error() string { return "unsupported:" + u.What }

// Trace records the observable side effects (user-function calls) of a conversion.
type Trace struct{ Events []string }

func (t *Trace) add(s string) {
	if t != nil {
		t.Events = append(t.Events, s)
	}
}

func ascii(s string) Str {
	out := make(Str, len(s))
	for i := 0; i < len(s); i++ {
		out[i] = uint16(s[i])
	}
	return out
}

// ASCII converts an ASCII Go string to code units.
func ASCII(s string) Str { return ascii(s) }

// IsObject reports whether v is of type Object (8.6).
func (v *Val) IsObject() bool {
	switch v.K {
	case "sobj", "nobj", "bobj", "arr", "obj":
		return true
	}
	return false
}

// ToPrimitive is 9.1 / 8.12.8 [[DefaultValue]].
func ToPrimitive(v *Val, hint string, tr *Trace) (*Val, error) {
	if !v.IsObject() {
		return v, nil
	}
	toString := func() (*Val, bool, error) { // result, callable, err
		switch v.K {
		case "sobj": // String.prototype.toString
			return &Val{K: "str", S: v.S}, true, nil
		case "nobj":
			s, ok := NumberToString(float64(v.N))
			if !ok {
				return nil, true, &Unsupported{"Number toString"}
			}
			return &Val{K: "str", S: ascii(s)}, true, nil
		case "bobj":
			if v.B {
				return &Val{K: "str", S: ascii("true")}, true, nil
			}
			return &Val{K: "str", S: ascii("false")}, true, nil
		case "arr": // 15.4.4.2 -> join(",") 15.4.4.5
			var r Str
			for i := range v.A {
				if i > 0 {
					r = append(r, ',')
				}
				e := &v.A[i]
				if e.K == "undef" || e.K == "null" {
					continue
				}
				s, err := ToString(e, tr)
				if err != nil {
					return nil, true, err
				}
				r = append(r, s...)
			}
			return &Val{K: "str", S: r}, true, nil
		}
		// obj
		if v.NoTS {
			return nil, false, nil
		}
		if v.TS != nil {
			tr.add(fmt.Sprintf("o%d.toString", v.ID))
			return v.TS, true, nil
		}
		return &Val{K: "str", S: ascii("[object Object]")}, true, nil
	}
	valueOf := func() (*Val, bool, error) {
		switch v.K {
		case "sobj":
			return &Val{K: "str", S: v.S}, true, nil
		case "nobj":
			return &Val{K: "num", N: v.N}, true, nil
		case "bobj":
			return &Val{K: "bool", B: v.B}, true, nil
		case "arr":
			return v, true, nil // Object.prototype.valueOf: the object itself
		}
		if v.VO != nil {
			tr.add(fmt.Sprintf("o%d.valueOf", v.ID))
			return v.VO, true, nil
		}
		return v, true, nil
	}
	order := []func() (*Val, bool, error){toString, valueOf}
	if hint == "number" {
		order = []func() (*Val, bool, error){valueOf, toString}
	}
	for _, m := range order {
		r, callable, err := m()
		if err != nil {
			return nil, err
		}
		if callable && !r.IsObject() {
			return r, nil
		}
	}
	return nil, &Throw{"TypeError"}
}

// ToString is 9.8.
func ToString(v *Val, tr *Trace) (Str, error) {
	switch v.K {
	case "undef":
		return ascii("undefined"), nil
	case "null":
		return ascii("null"), nil
	case "bool":
		if v.B {
			return ascii("true"), nil
		}
		return ascii("false"), nil
	case "num":
		s, ok := NumberToString(float64(v.N))
		if !ok {
			return nil, &Unsupported{"Number->String"}
		}
		return ascii(s), nil
	case "str":
		return v.S, nil
	}
	p, err := ToPrimitive(v, "string", tr)
	if err != nil {
		return nil, err
	}
	return ToString(p, tr)
}

// ToNumber is 9.3.
func ToNumber(v *Val, tr *Trace) (float64, error) {
	switch v.K {
	case "undef":
		return math.NaN(), nil
	case "null":
		return 0, nil
	case "bool":
		if v.B {
			return 1, nil
		}
		return 0, nil
	case "num":
		return float64(v.N), nil
	case "str":
		x, ok := StringToNumber(v.S)
		if !ok {
			return 0, &Unsupported{"String->Number"}
		}
		return x, nil
	}
	p, err := ToPrimitive(v, "number", tr)
	if err != nil {
		return 0, err
	}
	return ToNumber(p, tr)
}

// CheckObjectCoercible is 9.10.
func CheckObjectCoercible(v *Val) error {
	if v.K == "undef" || v.K == "null" {
		return &Throw{"TypeError"}
	}
	return nil
}
