package refstr

import (
	"fmt"
	"math"
	"reflect"
	"testing"

	"verif/internal/gen"
)

func u(s string) Str { // test helper: BMP-only Go string to units; 'S' prefix free
	var out Str
	for _, r := range s {
		if r > 0xFFFF {
			r -= 0x10000
			out = append(out, uint16(0xD800+(r>>10)), uint16(0xDC00+(r&0x3FF)))
			continue
		}
		out = append(out, uint16(r))
	}
	return out
}

func eq(t *testing.T, what string, got, want interface{}) {
	t.Helper()
	if g, ok := got.(float64); ok {
		w := want.(float64)
		if (g != g && w != w) || (g == w && math.Signbit(g) == math.Signbit(w)) {
			return
		}
		t.Errorf("%s: got %v want %v", what, got, want)
		return
	}
	if !reflect.DeepEqual(got, want) && fmt.Sprintf("%T%v", got, got) != fmt.Sprintf("%T%v", want, want) {
		t.Errorf("%s: got %v want %v", what, got, want)
	}
}

func TestConversions(t *testing.T) {
	inf := math.Inf(1)
	eq(t, "ToInteger(NaN)", ToInteger(math.NaN()), 0.0)
	eq(t, "ToInteger(-0.5)", ToInteger(-0.5), math.Copysign(0, -1))
	eq(t, "ToInteger(-1.9)", ToInteger(-1.9), -1.0)
	eq(t, "ToInteger(inf)", ToInteger(inf), inf)
	eq(t, "ToUint16(-1)", ToUint16(-1), uint16(65535))
	eq(t, "ToUint16(65536+65)", ToUint16(65601), uint16(65))
	eq(t, "ToUint16(65.9)", ToUint16(65.9), uint16(65))
	eq(t, "ToUint16(-65.9)", ToUint16(-65.9), uint16(65536-65))
	eq(t, "ToUint16(2^63+4096)", ToUint16(math.Ldexp(1, 63)+4096), uint16(4096))
	eq(t, "ToUint16(-2^63-4096)", ToUint16(-math.Ldexp(1, 63)-4096), uint16(65536-4096))
	eq(t, "ToUint16(inf)", ToUint16(inf), uint16(0))
	eq(t, "ToUint32(-1)", ToUint32(-1), uint32(4294967295))
	eq(t, "ToUint32(2^32)", ToUint32(4294967296), uint32(0))
	eq(t, "ToUint32(2^32+1)", ToUint32(4294967297), uint32(1))
	eq(t, "ToUint32(-4294967295)", ToUint32(-4294967295), uint32(1))
	eq(t, "ToUint32(1.9)", ToUint32(1.9), uint32(1))
	for _, c := range []struct {
		x float64
		s string
	}{{0, "0"}, {math.Copysign(0, -1), "0"}, {math.NaN(), "NaN"}, {-inf, "-Infinity"}, {123, "123"}, {-7, "-7"}, {1.5, "1.5"}, {-0.5, "-0.5"}, {4294967296, "4294967296"}} {
		s, ok := NumberToString(c.x)
		if !ok || s != c.s {
			t.Errorf("NumberToString(%v) = %q,%v want %q", c.x, s, ok, c.s)
		}
	}
	if _, ok := NumberToString(0.1); ok {
		t.Error("0.1 must be unsupported")
	}
	if _, ok := NumberToString(1e21); ok {
		t.Error("1e21 must be unsupported")
	}
	nan := math.NaN()
	for _, c := range []struct {
		s string
		v float64
	}{{"", 0}, {"  ", 0}, {"1", 1}, {" 2 ", 2}, {" 3\uFEFF", 3}, {"\n4 ", 4}, {"x", nan}, {"1px", nan}, {"0x10", 16}, {"0X1f", 31}, {"0x", nan}, {"-0x10", nan},
		{"+3", 3}, {"-1", -1}, {"-0", math.Copysign(0, -1)}, {"1.9", 1.9}, {".5", 0.5}, {"5.", 5}, {".", nan}, {"1e1", 10}, {"1E+2", 100}, {"25e-1", 2.5}, {"1e", nan}, {"e1", nan},
		{"Infinity", inf}, {"-Infinity", -inf}, {"+Infinity", inf}, {"infinity", nan}, {"Inf", nan}, {"1_0", nan}, {"0b1", nan}, {"0o7", nan}, {"010", 10}, {"00", 0}, {"1 2", nan}, {"--1", nan},
		{"\u00851", nan}, {"1,5", nan}, {"4294967296", 4294967296}, {"0.000", 0}, {"-.0e5", math.Copysign(0, -1)}} {
		v, ok := StringToNumber(u(c.s))
		if !ok {
			t.Errorf("StringToNumber(%q) unsupported", c.s)
			continue
		}
		eq(t, "StringToNumber("+c.s+")", v, c.v)
	}
	if _, ok := StringToNumber(u("0.12345678901234567")); ok {
		t.Error("17 digits must be unsupported")
	}
	if _, ok := StringToNumber(u("᠎1")); ok {
		t.Error("U+180E must be unsupported")
	}
}

func TestCharAtIndexOf(t *testing.T) {
	s := u("aé😀b")
	eq(t, "len", len(s), 5)
	eq(t, "charAt(2)", CharAt(s, 2), Str{0xD83D})
	eq(t, "charAt(3)", CharAt(s, 3), Str{0xDE00})
	eq(t, "charAt(-0.5)", CharAt(s, -0.5), Str{'a'})
	eq(t, "charAt(5)", CharAt(s, 5), Str{})
	eq(t, "charAt(NaN)", CharAt(s, math.NaN()), Str{'a'})
	eq(t, "charAt(-1)", CharAt(s, -1), Str{})
	eq(t, "charAt(2^32)", CharAt(s, 4294967296), Str{})
	eq(t, "charCodeAt(4.9)", CharCodeAt(s, 4.9), 98.0)
	eq(t, "charCodeAt(inf)", CharCodeAt(s, math.Inf(1)), math.NaN())
	eq(t, "charCodeAt(fffd)", CharCodeAt(Str{0xFFFD}, 0), 65533.0)
	eq(t, "indexOf b", IndexOf(s, u("b"), math.NaN()), 4.0)
	eq(t, "indexOf b,4", IndexOf(s, u("b"), 4), 4.0)
	eq(t, "indexOf b,5", IndexOf(s, u("b"), 5), -1.0)
	eq(t, "indexOf '',9", IndexOf(s, u(""), 9), 5.0)
	eq(t, "indexOf '',-9", IndexOf(s, u(""), -9), 0.0)
	eq(t, "indexOf lowsurr", IndexOf(s, Str{0xDE00}, 0), 3.0)
	eq(t, "indexOf longer", IndexOf(u("ab"), u("abc"), 0), -1.0)
	eq(t, "indexOf in empty", IndexOf(u(""), u(""), 3), 0.0)
	// 15.5.4.8
	c := u("canal")
	eq(t, "lastIndexOf a", LastIndexOf(c, u("a"), math.NaN()), 3.0)
	eq(t, "lastIndexOf a,2", LastIndexOf(c, u("a"), 2), 1.0)
	eq(t, "lastIndexOf a,0", LastIndexOf(c, u("a"), 0), -1.0)
	eq(t, "lastIndexOf c,-5", LastIndexOf(c, u("c"), -5), 0.0)
	eq(t, "lastIndexOf c,-inf", LastIndexOf(c, u("c"), math.Inf(-1)), 0.0)
	eq(t, "lastIndexOf l,-inf", LastIndexOf(c, u("l"), math.Inf(-1)), -1.0)
	eq(t, "lastIndexOf '',NaN", LastIndexOf(c, u(""), math.NaN()), 5.0)
	eq(t, "lastIndexOf '',2", LastIndexOf(c, u(""), 2), 2.0)
	eq(t, "lastIndexOf x", LastIndexOf(c, u("x"), math.NaN()), -1.0)
	eq(t, "lastIndexOf al,4", LastIndexOf(c, u("al"), 4), 3.0)
	eq(t, "lastIndexOf al,3", LastIndexOf(c, u("al"), 3), 3.0)
	eq(t, "lastIndexOf al,2.9", LastIndexOf(c, u("al"), 2.9), -1.0)
	eq(t, "lastIndexOf éé", LastIndexOf(u("éé"), u("é"), 1), 1.0)
}

func TestSliceFamily(t *testing.T) {
	s := u("abcdef")
	eq(t, "slice(1,3)", Slice(s, 1, 3, false), u("bc"))
	eq(t, "slice(-2)", Slice(s, -2, 0, true), u("ef"))
	eq(t, "slice(2,-1)", Slice(s, 2, -1, false), u("cde"))
	eq(t, "slice(4,2)", Slice(s, 4, 2, false), u(""))
	eq(t, "slice(NaN,inf)", Slice(s, math.NaN(), math.Inf(1), false), s)
	eq(t, "slice(-inf,-inf)", Slice(s, math.Inf(-1), math.Inf(-1), false), u(""))
	eq(t, "substring(4,2)", Substring(s, 4, 2, false), u("cd"))
	eq(t, "substring(-1,2)", Substring(s, -1, 2, false), u("ab"))
	eq(t, "substring(NaN)", Substring(s, math.NaN(), 0, true), s)
	eq(t, "substring(2,NaN)", Substring(s, 2, math.NaN(), false), u("ab"))
	eq(t, "substring(1e30,1)", Substring(s, 1e30, 1, false), u("bcdef"))
	eq(t, "substr(-2)", Substr(s, -2, 0, true), u("ef"))
	eq(t, "substr(1,2)", Substr(s, 1, 2, false), u("bc"))
	eq(t, "substr(1,1e30)", Substr(s, 1, 1e30, false), u("bcdef"))
	eq(t, "substr(1,-1)", Substr(s, 1, -1, false), u(""))
	eq(t, "substr(1,0.9)", Substr(s, 1, 0.9, false), u(""))
	eq(t, "substr(-9,2)", Substr(s, -9, 2, false), u("ab"))
	eq(t, "substr(6,2)", Substr(s, 6, 2, false), u(""))
	eq(t, "substr(inf,2)", Substr(s, math.Inf(1), 2, false), u(""))
	eq(t, "substr(0,NaN)", Substr(s, 0, math.NaN(), false), u(""))
	a := u("😀a")
	eq(t, "astral slice(1)", Slice(a, 1, 0, true), Str{0xDE00, 'a'})
	eq(t, "astral substring(2)", Substring(a, 2, 0, true), u("a"))
	eq(t, "astral substr(-1)", Substr(a, -1, 0, true), u("a"))
}

func TestSplit(t *testing.T) {
	sp := func(s, sep string, sepUndef, limUndef bool, lim float64) []Str {
		return Split(u(s), sepUndef, u(sep), limUndef, lim)
	}
	eq(t, "ab split ''", sp("ab", "", false, true, 0), []Str{u("a"), u("b")})
	eq(t, "'' split ''", sp("", "", false, true, 0), []Str{})
	eq(t, "'' split a", sp("", "a", false, true, 0), []Str{u("")})
	eq(t, "'' split undefined", sp("", "undefined", true, true, 0), []Str{u("")})
	eq(t, "abc split undefined", sp("abc", "undefined", true, true, 0), []Str{u("abc")})
	eq(t, "abc split undefined lim 0", sp("abc", "undefined", true, false, 0), []Str{})
	eq(t, "aXbXc", sp("aXbXc", "X", false, true, 0), []Str{u("a"), u("b"), u("c")})
	eq(t, "aXbXc lim2", sp("aXbXc", "X", false, false, 2), []Str{u("a"), u("b")})
	eq(t, "aXbXc lim -1", sp("aXbXc", "X", false, false, -1), []Str{u("a"), u("b"), u("c")})
	eq(t, "aXbXc lim 2^32", sp("aXbXc", "X", false, false, 4294967296), []Str{})
	eq(t, "aXbXc lim 2^32+1", sp("aXbXc", "X", false, false, 4294967297), []Str{u("a")})
	eq(t, "aXbXc lim NaN", sp("aXbXc", "X", false, false, math.NaN()), []Str{})
	eq(t, "XX", sp("XX", "X", false, true, 0), []Str{u(""), u(""), u("")})
	eq(t, "whole", sp("abc", "abc", false, true, 0), []Str{u(""), u("")})
	eq(t, "longer", sp("abc", "abcd", false, true, 0), []Str{u("abc")})
	eq(t, "overlap", sp("aaaa", "aa", false, true, 0), []Str{u(""), u(""), u("")})
	eq(t, "astral ''", sp("😀", "", false, true, 0), []Str{{0xD83D}, {0xDE00}})
	eq(t, "ab '' lim 1", sp("ab", "", false, false, 1), []Str{u("a")})
	eq(t, "split by low surrogate", Split(u("a😀b"), false, Str{0xDE00}, true, 0), []Str{{'a', 0xD83D}, u("b")})
}

func TestCaseTrim(t *testing.T) {
	lo, as := ToLower(u("AÉΩЖ"))
	eq(t, "lower", lo, u("aéωж"))
	eq(t, "lower asserted", as, true)
	up, as := ToUpper(u("aéωжÿµıſ"))
	eq(t, "upper", up, u("AÉΩЖŸΜIS"))
	eq(t, "upper asserted", as, true)
	_, as = ToUpper(u("ß"))
	eq(t, "ß special", as, false)
	_, as = ToLower(u("İ"))
	eq(t, "İ special", as, false)
	_, as = ToLower(u("Σ"))
	eq(t, "Σ special", as, false)
	_, as = ToUpper(u("ŉ"))
	eq(t, "ŉ special", as, false)
	_, as = ToUpper(u("ﬁ"))
	eq(t, "ﬁ special", as, false)
	up, as = ToUpper(u("ǆǅ"))
	eq(t, "dz", up, u("ǄǄ"))
	eq(t, "dz asserted", as, true)
	lo, _ = ToLower(u("K")) // Kelvin sign
	eq(t, "kelvin", lo, u("k"))
	lo, _ = ToLower(u("ẞ"))
	eq(t, "capital sharp s", lo, u("ß"))
	up, as = ToUpper(u("a1_\u0000￿"))
	eq(t, "non letters", up, u("A1_\u0000￿"))
	eq(t, "non letters asserted", as, true)
	// table sanity: sorted, disjoint from special
	for _, tab := range [][]uint16{upperPairs[:], lowerPairs[:]} {
		for i := 2; i < len(tab); i += 2 {
			if tab[i-2] >= tab[i] {
				t.Fatalf("table not sorted at %d", i)
			}
		}
	}
	tr, as := Trim(u("\t\n\v\f\r         　\uFEFFa b\uFEFF　"))
	eq(t, "trim", tr, u("a b"))
	eq(t, "trim asserted", as, true)
	tr, as = Trim(u("\u0085a‌"))
	eq(t, "trim NEL/ZWNJ", tr, u("\u0085a‌"))
	eq(t, "asserted", as, true)
	_, as = Trim(u("᠎a"))
	eq(t, "180E not asserted", as, false)
	_, as = Trim(u("a​"))
	eq(t, "200B not asserted", as, false)
	tr, as = Trim(u(" a᠎b "))
	eq(t, "inner 180E", tr, u("a᠎b"))
	eq(t, "inner 180E asserted", as, true)
	tr, _ = Trim(u("  \n "))
	eq(t, "all ws", tr, Str{})
}

func TestValueConversions(t *testing.T) {
	tr := &Trace{}
	o := &Val{K: "obj", ID: 1, TS: &Val{K: "str", S: u("abc")}, VO: &Val{K: "num", N: 7}}
	s, err := ToString(o, tr)
	eq(t, "ToString(obj)", s, u("abc"))
	eq(t, "err", err, nil)
	n, _ := ToNumber(o, tr)
	eq(t, "ToNumber(obj)", n, 7.0)
	eq(t, "trace", tr.Events, []string{"o1.toString", "o1.valueOf"})
	// toString returns an object -> valueOf is tried (8.12.8)
	tr = &Trace{}
	o2 := &Val{K: "obj", ID: 2, TS: &Val{K: "arr"}, VO: &Val{K: "bool", B: true}}
	s, _ = ToString(o2, tr)
	eq(t, "fallback", s, u("true"))
	eq(t, "trace", tr.Events, []string{"o2.toString", "o2.valueOf"})
	// both return objects -> TypeError
	o3 := &Val{K: "obj", ID: 3, TS: &Val{K: "arr"}, VO: &Val{K: "arr"}}
	_, err = ToString(o3, nil)
	if th, ok := err.(*Throw); !ok || th.Class != "TypeError" {
		t.Errorf("want TypeError got %v", err)
	}
	// valueOf only: ToString uses inherited Object.prototype.toString
	o4 := &Val{K: "obj", ID: 4, VO: &Val{K: "str", S: u("v")}}
	s, _ = ToString(o4, nil)
	eq(t, "valueOf-only ToString", s, u("[object Object]"))
	n, _ = ToNumber(&Val{K: "obj", ID: 5, VO: &Val{K: "str", S: u(" 12 ")}}, nil)
	eq(t, "valueOf-only ToNumber", n, 12.0)
	// toString:null -> valueOf
	s, _ = ToString(&Val{K: "obj", ID: 6, NoTS: true, VO: &Val{K: "str", S: u("v")}}, nil)
	eq(t, "NoTS", s, u("v"))
	s, _ = ToString(&Val{K: "arr", A: []Val{{K: "num", N: 1}, {K: "null"}, {K: "undef"}, {K: "str", S: u("x")}}}, nil)
	eq(t, "array", s, u("1,,,x"))
	n, _ = ToNumber(&Val{K: "arr", A: []Val{{K: "num", N: 2}}}, nil)
	eq(t, "[2] -> 2", n, 2.0)
	n, _ = ToNumber(&Val{K: "arr"}, nil)
	eq(t, "[] -> 0", n, 0.0)
	n, _ = ToNumber(&Val{K: "sobj", S: u("3")}, nil)
	eq(t, "new String('3')", n, 3.0)
	s, _ = ToString(&Val{K: "nobj", N: gen.F(-1.5)}, nil)
	eq(t, "new Number(-1.5)", s, u("-1.5"))
}

func TestCall(t *testing.T) {
	S := func(s string) Val { return Val{K: "str", S: u(s)} }
	N := func(x float64) Val { return Val{K: "num", N: gen.F(x)} }
	this := S("abc")
	r, err := Call("slice", &this, []Val{N(1)}, nil)
	eq(t, "slice", r.S, u("bc"))
	eq(t, "err", err, nil)
	r, _ = Call("slice", &this, []Val{N(1), {K: "undef"}}, nil)
	eq(t, "slice undefined end", r.S, u("bc"))
	r, _ = Call("slice", &this, []Val{N(1), {K: "null"}}, nil)
	eq(t, "slice null end", r.S, u(""))
	r, _ = Call("lastIndexOf", &this, []Val{S("c"), S("x")}, nil)
	eq(t, "lastIndexOf NaN", r.N, 2.0)
	r, _ = Call("indexOf", &this, nil, nil)
	eq(t, "indexOf()", r.N, -1.0)
	u1 := S("xundefinedy")
	r, _ = Call("indexOf", &u1, nil, nil)
	eq(t, "indexOf() finds 'undefined'", r.N, 1.0)
	_, err = Call("trim", &Val{K: "undef"}, nil, nil)
	if _, ok := err.(*Throw); !ok {
		t.Error("trim.call(undefined) must throw")
	}
	_, err = Call("toString", &Val{K: "num", N: 5}, nil, nil)
	if _, ok := err.(*Throw); !ok {
		t.Error("toString.call(5) must throw")
	}
	five := N(5)
	r, _ = Call("charAt", &five, []Val{N(0)}, nil)
	eq(t, "charAt.call(5,0)", r.S, u("5"))
	tr := &Trace{}
	sep := Val{K: "obj", ID: 1, TS: &Val{K: "str", S: u("b")}}
	lim := Val{K: "obj", ID: 2, VO: &Val{K: "num", N: 0}}
	r, _ = Call("split", &this, []Val{sep, lim}, tr)
	eq(t, "split lim 0", len(r.A), 0)
	eq(t, "split order", tr.Events, []string{"o2.valueOf", "o1.toString"})
	tr = &Trace{}
	r, _ = Call("concat", &this, []Val{{K: "obj", ID: 1, TS: &Val{K: "num", N: 1}}, {K: "null"}, {K: "obj", ID: 2, TS: &Val{K: "bool"}}}, tr)
	eq(t, "concat", r.S, u("abc1nullfalse"))
	eq(t, "concat order", tr.Events, []string{"o1.toString", "o2.toString"})
	fc, _ := FromCharCodeCall([]Val{N(-1), N(65601), N(65.9), N(math.NaN()), S("0x41"), {K: "null"}, {K: "bool", B: true}}, nil)
	eq(t, "fromCharCode", fc, Str{0xFFFF, 65, 65, 0, 65, 0, 1})
	for _, c := range []struct {
		p  string
		i  int
		ok bool
	}{{"0", 0, true}, {"1", 1, true}, {"10", 10, true}, {"01", 0, false}, {"+1", 0, false}, {"-0", 0, false}, {"1.0", 0, false}, {"", 0, false}, {" 1", 0, false}, {"1e0", 0, false}} {
		i, ok := IsCanonicalIndex(u(c.p))
		if ok != c.ok || (ok && i != c.i) {
			t.Errorf("IsCanonicalIndex(%q) = %d,%v", c.p, i, ok)
		}
	}
}
