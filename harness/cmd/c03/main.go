package main

import (
	_ "verif/internal/checks/c03"
	"verif/internal/run"
)

func main() { run.Main() }
