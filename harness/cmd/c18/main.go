package main

import (
	_ "verif/internal/checks/c18"
	"verif/internal/run"
)

func main() { run.Main() }
