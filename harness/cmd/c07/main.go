package main

import (
	_ "verif/internal/checks/c07"
	"verif/internal/run"
)

func main() { run.Main() }
