package main

import (
	_ "verif/internal/checks/c13"
	"verif/internal/run"
)

func main() { run.Main() }
