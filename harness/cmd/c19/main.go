package main

import (
	_ "verif/internal/checks/c19"
	"verif/internal/run"
)

func main() { run.Main() }
