package main

import (
	_ "verif/internal/checks/c02"
	"verif/internal/run"
)

func main() { run.Main() }
