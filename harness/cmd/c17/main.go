package main

import (
	_ "verif/internal/checks/c17"
	"verif/internal/run"
)

func main() { run.Main() }
