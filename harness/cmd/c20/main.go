package main

import (
	_ "verif/internal/checks/c20"
	"verif/internal/run"
)

func main() { run.Main() }
