package main

import (
	_ "verif/internal/checks/c01"
	"verif/internal/run"
)

func main() { run.Main() }
