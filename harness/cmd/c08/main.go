package main

import (
	_ "verif/internal/checks/c08"
	"verif/internal/run"
)

func main() { run.Main() }
