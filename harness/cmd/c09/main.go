package main

import (
	_ "verif/internal/checks/c09"
	"verif/internal/run"
)

func main() { run.Main() }
