package main

import (
	_ "verif/internal/checks/c06"
	"verif/internal/run"
)

func main() { run.Main() }
