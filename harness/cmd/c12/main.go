package main

import (
	_ "verif/internal/checks/c12"
	"verif/internal/run"
)

func main() { run.Main() }
