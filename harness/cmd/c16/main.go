package main

import (
	_ "verif/internal/checks/c16"
	"verif/internal/run"
)

func main() { run.Main() }
