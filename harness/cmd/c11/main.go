package main

import (
	_ "verif/internal/checks/c11"
	"verif/internal/run"
)

func main() { run.Main() }
