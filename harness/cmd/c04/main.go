package main

import (
	_ "verif/internal/checks/c04"
	"verif/internal/run"
)

func main() { run.Main() }
