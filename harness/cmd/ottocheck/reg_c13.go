package main

import _ "verif/internal/checks/c13"
