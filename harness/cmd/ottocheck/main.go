// ottocheck is the single harness binary: driver, worker and replay modes for
// every property check (see internal/run). Each check package is linked in by
// its own reg_cNN.go file in this directory.
package main

import "verif/internal/run"

func main() { run.Main() }
