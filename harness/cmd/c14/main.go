package main

import (
	_ "verif/internal/checks/c14"
	"verif/internal/run"
)

func main() { run.Main() }
