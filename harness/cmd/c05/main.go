package main

import (
	_ "verif/internal/checks/c05"
	"verif/internal/run"
)

func main() { run.Main() }
