package main

import (
	_ "verif/internal/checks/c10"
	"verif/internal/run"
)

func main() { run.Main() }
