package main

import (
	_ "verif/internal/checks/c15"
	"verif/internal/run"
)

func main() { run.Main() }
