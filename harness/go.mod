module verif

go 1.22

require (
	github.com/robertkrimen/otto v0.0.0
	golang.org/x/text v0.4.0
)

require gopkg.in/sourcemap.v1 v1.0.5 // indirect

replace github.com/robertkrimen/otto => /repo
