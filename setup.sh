#!/usr/bin/env bash
# Offline setup: build the harness once (warms the Go build cache). Uses only
# files on disk: /repo, /verif/harness and the Go module cache.
set -eu
ROOT="$(cd "$(dirname "${BASH_SOURCE[0]}")" && pwd)"
export GOFLAGS=-mod=mod GOPROXY=off GOSUMDB=off GOTOOLCHAIN=local
mkdir -p "$ROOT/build" "$ROOT/evidence" "$ROOT/replay"
cd "$ROOT/harness"
cp /repo/go.sum go.sum
go build -tags verif -o "$ROOT/build/ottocheck" ./cmd/ottocheck
go build -race -tags verif -o "$ROOT/build/ottocheck.race" ./cmd/ottocheck
echo "setup ok: $("$ROOT/build/ottocheck" list | tr '\n' ' ')"
