#!/usr/bin/env bash
# Offline setup: build the harness binary of every claimed check once (warms the
# Go build cache). Uses only files on disk: /repo, /verif/harness, the Go module cache.
set -u
ROOT="$(cd "$(dirname "${BASH_SOURCE[0]}")" && pwd)"
mkdir -p "$ROOT/build" "$ROOT/evidence" "$ROOT/replay"
rc=0
for P in $(python3 -c "import json;print(' '.join(c['property_id'] for c in json.load(open('$ROOT/MANIFEST.json'))['checks']))"); do
  "$ROOT/check" "$P" --build-only || rc=1
done
exit $rc
