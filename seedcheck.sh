#!/usr/bin/env bash
# ./seedcheck.sh <Cnn> <k> [check ids...]  — confirm a seeded change from /tmp/seed-Cnn/out/k and run checks on it.
# Confirms on a scratch copy: patch applies, builds, pinned suite passes, demo fails with / passes without.
# Then runs the named checks (default: Cnn) against the patched copy. Stores /verif/seeded/Cnn-k/.
set -u
P="$1"; K="$2"; shift 2
CHECKS=("$@"); [ ${#CHECKS[@]} -eq 0 ] && CHECKS=("$P")
ROOT="$(cd "$(dirname "${BASH_SOURCE[0]}")" && pwd)"
SRC="${SEED_SRC:-/tmp/seed-$P/out/$K}"
DST="$ROOT/seeded/$P-$K"
export GOFLAGS=-mod=mod GOPROXY=off GOSUMDB=off GOTOOLCHAIN=local
if [ -f "$SRC/patch.diff" ]; then
  mkdir -p "$DST"; cp "$SRC/patch.diff" "$DST/"; cp "$SRC/notes.md" "$DST/" 2>/dev/null
  [ -f "$SRC/demo_test.go" ] && cp "$SRC/demo_test.go" "$DST/demo_test.go.txt"
  [ -d "$SRC/demo" ] && { mkdir -p "$DST/demo"; cp "$SRC/demo/main.go" "$DST/demo/main.go.txt"; }
fi
# from here on only the stored copy under /verif/seeded is used
[ -f "$DST/patch.diff" ] || { echo "SEED $P-$K: no patch"; exit 3; }
SRC="$(mktemp -d /tmp/scsrc.XXXXXX)"; cp "$DST/patch.diff" "$SRC/"
[ -f "$DST/demo_test.go.txt" ] && cp "$DST/demo_test.go.txt" "$SRC/demo_test.go"
[ -f "$DST/demo/main.go.txt" ] && { mkdir -p "$SRC/demo"; cp "$DST/demo/main.go.txt" "$SRC/demo/main.go"; }
S="$(mktemp -d /tmp/sc.XXXXXX)/otto"; mkdir -p "$S"; rsync -a --exclude .git /repo/ "$S/"
H=$(printf '%s' "$S" | sha1sum | cut -c1-10)
trap 'rm -rf "$(dirname "$S")" "$ROOT/build/alt-$H" "$SRC"' EXIT
RACEFLAG=""; [ -f "$DST/RACE" ] && RACEFLAG="-race"   # a demonstration that only the race detector fails
rundemo() { # in $S
  if [ -f "$SRC/demo_test.go" ]; then cp "$SRC/demo_test.go" "$S/zz_seeded_demo_test.go"; (cd "$S" && go test $RACEFLAG -vet=off -run TestSeeded -count=1 . >/dev/null 2>&1); rc=$?; rm -f "$S/zz_seeded_demo_test.go"; return $rc
  else mkdir -p "$S/zzdemo"; cp "$SRC/demo/main.go" "$S/zzdemo/main.go"; (cd "$S" && go run ./zzdemo >/dev/null 2>&1); rc=$?; rm -rf "$S/zzdemo"; return $rc; fi
}
rundemo; base=$?
(cd "$S" && git apply --whitespace=nowarn "$SRC/patch.diff" 2>/dev/null || patch -p1 --no-backup-if-mismatch < "$SRC/patch.diff" >/dev/null) || { echo "SEED $P-$K: patch does not apply"; exit 3; }
(cd "$S" && go build ./... ) || { echo "SEED $P-$K: does not build"; exit 3; }
suite=0; (cd "$S" && go test -vet=off -count=1 ./... >/dev/null 2>&1) || { (cd "$S" && go test -vet=off -count=1 ./... >/dev/null 2>&1) || suite=1; }
rundemo; with=$?
res=""; caught=0
for C in "${CHECKS[@]}"; do
  out=$(VERIF_REPO="$S" "$ROOT/check" "$C" --tier "${VERIF_TIER:-quick}" 2>&1); code=$?
  nv=$(printf '%s\n' "$out" | grep -c '^VIOLATION')
  if [ $code -eq 1 ]; then res="$res $C:CAUGHT($nv)"; caught=1; first=$(printf '%s\n' "$out" | grep -A1 '^VIOLATION' | sed -n 2p | cut -c1-300)
  else res="$res $C:MISSED(exit$code)"; fi
done
ok="confirmed"; [ $base -ne 0 ] && ok="demo-fails-without-patch"; [ $with -eq 0 ] && ok="demo-passes-with-patch"; [ $suite -ne 0 ] && ok="suite-fails-with-patch"
python3 - "$DST/meta.json" "$P" "$K" "$ok" "$res" "${first:-}" <<'PY'
import json,sys,os
dst,p,k,ok,res,first=sys.argv[1:7]
notes=open(os.path.join(os.path.dirname(dst),'notes.md')).read() if os.path.exists(os.path.join(os.path.dirname(dst),'notes.md')) else ''
old=json.load(open(dst)) if os.path.exists(dst) else {}
keep={k2:v for k2,v in old.items() if k2 in ("history","first_result")}
if "first_result" not in keep: keep["first_result"]=old.get("checks",res.strip())
json.dump({**keep,"property":p,"seed":k,"confirmation":ok,"confirmed_by":"seedcheck.sh on a scratch copy of /repo: patch applies, go build, pinned suite, demo with and without the patch","checks":res.strip(),"first_violation":first,"needs_to_manifest":"see notes.md"},open(dst,'w'),indent=1)
PY
echo "SEED $P-$K [$ok]$res"
