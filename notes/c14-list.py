import json,glob,sys
seen={}
for f in glob.glob(sys.argv[1]+'/replay/C14/*.json'):
    r=json.load(open(f))
    k=(r['site'],r['expected'],r['actual'])
    seen.setdefault(k,set()).add(r['input'].get('ctx') if isinstance(r['input'],dict) else '?')
for k in sorted(seen):
    print(k[0],'| exp',k[1][:100],'| act',k[2][:260],'|',','.join(sorted(seen[k])))
