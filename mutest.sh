#!/usr/bin/env bash
# ./mutest.sh <patch-file> <Cnn> [<Cnn>...]   [env: MUTEST_SKIP_SUITE=1, VERIF_TIER]
# Validates a monitor against a realistic break WITHOUT touching /repo:
# copies /repo's working tree to a scratch dir, applies the patch, checks that it
# still builds and that the pinned suite still passes (a mutant the suite kills
# is not interesting), runs the named checks against the scratch copy
# (VERIF_REPO) and reports whether each fired. The scratch copy and its build
# output are removed afterwards.
set -u
PATCH="$(readlink -f "$1")"; shift
ROOT="$(cd "$(dirname "${BASH_SOURCE[0]}")" && pwd)"
export GOFLAGS=-mod=mod GOPROXY=off GOSUMDB=off GOTOOLCHAIN=local
S="$(mktemp -d /tmp/otto-mut.XXXXXX)/otto"
mkdir -p "$S"
rsync -a --exclude .git /repo/ "$S/"
H=$(printf '%s' "$S" | sha1sum | cut -c1-10)
cleanup() { rm -rf "$(dirname "$S")" "$ROOT/build/alt-$H"; }
trap cleanup EXIT
if ! (cd "$S" && patch -p1 --no-backup-if-mismatch < "$PATCH" >/dev/null); then echo "MUTEST $(basename "$PATCH"): patch does not apply"; exit 3; fi
if ! (cd "$S" && go build ./... 2>&1 | tail -5); then echo "MUTEST $(basename "$PATCH"): does not build"; exit 3; fi
if [ -z "${MUTEST_SKIP_SUITE:-}" ]; then
  if ! (cd "$S" && go test -vet=off -count=1 ./... > "$S/.suite.log" 2>&1); then
    echo "MUTEST $(basename "$PATCH"): pinned suite FAILS with this change (not a surviving mutant)"; grep -E "^(--- FAIL|FAIL)" "$S/.suite.log" | head -5
    [ -z "${MUTEST_ALLOW_SUITE_FAIL:-}" ] && exit 4
  fi
fi
rc=0
for P in "$@"; do
  out=$(VERIF_REPO="$S" "$ROOT/check" "$P" --tier "${VERIF_TIER:-quick}" 2>&1); code=$?
  nv=$(printf '%s\n' "$out" | grep -c '^VIOLATION')
  if [ $code -eq 1 ]; then echo "MUTEST $(basename "$PATCH") $P: CAUGHT ($nv VIOLATION lines)"; printf '%s\n' "$out" | grep -A1 '^VIOLATION' | head -4
  else echo "MUTEST $(basename "$PATCH") $P: MISSED (exit $code)"; printf '%s\n' "$out" | tail -3; rc=1; fi
done
exit $rc
